"""C02 - stored chain stays hash-linked and grows only at its tip for any peer input."""
import os
import sys

sys.path.insert(0, os.path.dirname(os.path.abspath(__file__)))
import checklib
import syncgen
import parentrace

MON = {"c02": "c02_monitor maxRequestedBlocks"}


def suites(tier, rng, replay):
    return [syncgen.suite(tier, rng, replay, MON)]


def extra(tier, rng, workdir):
    return parentrace.run(tier, workdir)


def keyfn(rec):
    ops = rec.get("ops", [])
    step = rec.get("step", 0)
    opn = ops[step][0] if 0 <= step < len(ops) else "?"
    code = (rec.get("expected") or [0])[0] if rec.get("checker") != "model" else 0
    return "sync:%s:%s:%s" % (rec.get("checker"), code, opn)


SPEC = {
    "pid": "C02",
    "props_file": "props/C02.v",
    "suites": suites,
    "keyfn": keyfn,
    "extra": extra,
    "trusted_base": [
        "Coq 8.16.1 kernel (coqc); vm_compute for evaluating model and monitor on the cases; no native_compute",
        "axioms: none declared; Print Assumptions recorded under print_assumptions",
        "hand-written model coq/model/Sync.v (+ Requests.v) of HeadersHandler.Handle, BlockHandler.Handle, one processBlocks iteration + the chain part of ProcessBlock, Node.check, timeouts, Reset, load; tied to the code by the correspondence run through the real handler map and the real ProcessBlock on a real Node (in-package harness), digests after every step computed from the real BlockRepository queries",
        "the block repository enters through its abstract interface (list of headers), justified by C09's refinement theorem",
        "modelled, not verified: hashes are ids of a block tree (collision-free: a rank increases from parent to child), a block body is valid or not w.r.t. the header's merkle root",
    ],
    "assumptions": ["every handler / ProcessBlock call is one atomic step in the MODEL (handlers run on the single incoming goroutine, ProcessBlock under blockLock and - since /repo fix e0141dc - the block repository's chain lock, which the headers handler holds too); the one straddling placement (a reorg header inside ProcessBlock after its parent check) is a scripted real-thread scenario judged on the implementation's digest (parentrace, code 215); storage does not fail (C10)"],
    "rule": "random message sequences over generated block trees (3-12 main blocks, 0-3 forks, start block anywhere): header runs in/out of order, duplicated, unknown parents, empty; block messages requested or not, valid or forged; process steps anywhere; check, version, clock advances, time-outs, reconnects, node restarts; + scripted well-behaved syncs; distinct = distinct (cfg, ops)",
}

if __name__ == "__main__":
    checklib.run_check(SPEC)
