"""C03 - checked through the transaction pipeline suite (gen/txflow.py)."""
import os
import sys

sys.path.insert(0, os.path.dirname(os.path.abspath(__file__)))
import checklib
import txflow

SPEC = txflow.make_spec("C03", "histories over 3-7 txs / 2-5 shared outpoints / 3 sources with inv, blocks (also refused ones), delay checks, clock advances, restarts, in-sync toggles; all arrival orders x sources of a 3-tx conflict pattern; confirmation of seen/unseen conflicting txs; restart at every position of a reference history; distinct = distinct (cfg, ops)")

if __name__ == "__main__":
    checklib.run_check(SPEC)
