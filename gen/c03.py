"""C03 - checked through the transaction pipeline suite (gen/txflow.py)."""
import os
import sys

sys.path.insert(0, os.path.dirname(os.path.abspath(__file__)))
import checklib
import txflow

SPEC = txflow.make_spec("C03", "histories over 3-7 txs / 2-5 shared outpoints / 3 sources with inv, blocks (also refused ones), delay checks, clock advances, restarts, in-sync toggles; all arrival orders x sources of a 3-tx conflict pattern; confirmation of seen/unseen conflicting txs; restart at every position of a reference history; distinct = distinct (cfg, ops)")

# Completeness under back-pressure on the real run loop (harness component "shutdown", scenarios and monitor of
# gen/c19.py / model/Shutdown.v): while the tx thread is busy (a held handler / fetcher call) the peer sends more
# distinct relevant txs than the tx channel holds; every one of them must be delivered as a new tx once the
# thread goes on (TxChannel.Add blocks when the channel is full, it never drops).
import c19

_race_extra = SPEC["extra"]
_flow_keyfn = SPEC["keyfn"]


def _extra(tier, rng, workdir):
    a = _race_extra(tier, rng, workdir)
    b = c19.completeness_scenarios(tier, rng, workdir)
    out = {"failures": list(a.get("failures", [])) + list(b.get("failures", [])),
           "red": list(a.get("red", [])) + list(b.get("red", [])),
           "evaluations": a.get("evaluations", 0) + b.get("evaluations", 0),
           "coverage": dict(a.get("coverage", {}))}
    out["coverage"].update(b.get("coverage", {}))
    return out


SPEC["extra"] = _extra
SPEC["keyfn"] = lambda rc: c19.keyfn(rc) if rc.get("suite") == "shutdown_complete" else _flow_keyfn(rc)
SPEC["assumptions"] = list(SPEC["assumptions"]) + [
    "completeness under back-pressure is checked end to end on the real run loop (gen/c19.py completeness_scenarios): a held handler, 101-150 distinct relevant txs from the peer while in sync, all delivered after the release; in the model this is the channel semantics (props/C19.v C19_add_never_drops, C19_only_consumer_takes)"]

if __name__ == "__main__":
    checklib.run_check(SPEC)
