"""C04 - confirmations carry valid merkle proofs; blocks whose body does not hash to the header are never accepted."""
import json
import os
import sys

sys.path.insert(0, os.path.dirname(os.path.abspath(__file__)))
import checklib
import vlib
from checklib import Suite
import txflow

SIZES = [1, 2, 3, 4, 5, 6, 7, 8, 9, 15, 16, 17, 31, 32, 33]
MODES = ["none", "all", "first", "last", "oddlast", "random"]


def zl(xs):
    return "[" + "; ".join(vlib.z(x) for x in xs) + "]"


def cb(b):
    return "true" if b else "false"


def coq_op(o, rel):
    if o[0] == "seen":
        return "(OSeen %s %s)" % (vlib.z(o[1]), cb(o[1] in rel))
    if o[0] == "block":
        body = "[" + "; ".join("(%s, %s)" % (vlib.z(t), cb(t in rel)) for t in o[4]) + "]"
        return "(OBlock %s %s %s %s %s)" % (vlib.z(o[1]), vlib.z(o[2]), zl(o[3]), body, cb(o[5]))
    if o[0] == "fault":
        return "(OFault %s)" % zl(o[1])
    if o[0] == "restart":
        return "(ORestart %s %s)" % (cb(o[1]), cb(o[2]))
    if o[0] == "reorg":
        body = "[" + "; ".join("(%s, %s)" % (vlib.z(t), cb(t in rel)) for t in o[4]) + "]"
        return "(OReorg %s %s %s %s)" % (vlib.z(o[1]), vlib.z(o[2]), zl(o[3]), body)
    raise KeyError(o[0])


# ---- symbolic textbook root (only used to predict which header ends up on the chain, i.e. `prev`) ----
def sym_root(ids):
    level = [("L", t) for t in ids]
    if not level:
        return None
    while len(level) > 1:
        if len(level) % 2:
            level.append(level[-1])
        level = [("N", level[i], level[i + 1]) for i in range(0, len(level), 2)]
    return level[0]


def relink(ops, insync=0):
    """prev of every block op := the tip at that moment (what a peer extending the chain would send); prev of a
    reorg op := the header o[5] blocks below the tip (a competing branch).
    Follows what the node holds: a header is added when the block passes the gates (even if processing is
    then cut short by a fault), headers are saved after every block only when in sync, a hard restart goes
    back to the saved headers, a revert saves the truncated chain and clears in sync."""
    chain, saved = [], []
    out = []
    for o in ops:
        if o[0] == "block":
            tip = chain[-1] if chain else 0
            o = ["block", o[1], tip, o[3], o[4], o[5]]
            if o[1] not in chain and (o[5] or sym_root(o[4]) == sym_root(o[3])):
                chain = chain + [o[1]]
                if insync:
                    saved = list(chain)
        elif o[0] == "reorg":
            d = min(o[5], len(chain))
            keep = chain[:len(chain) - d]
            o = ["reorg", o[1], keep[-1] if keep else 0, o[3], o[4], o[5]]
            if o[1] not in chain:
                if d > 0:
                    chain, saved, insync = keep, list(keep), 0
                if sym_root(o[4]) == sym_root(o[3]):
                    chain = chain + [o[1]]
                    if insync:
                        saved = list(chain)
        elif o[0] == "restart":
            if o[1]:
                saved = list(chain)
            chain = list(saved)
            insync = o[2]
        out.append(o)
    return out


def odd_layer_last(n):
    """leaf positions that sit under the unpaired last node of some odd level (the duplicated ones)."""
    pos = set()
    cnt, span = n, 1
    while cnt > 1:
        if cnt % 2 == 1:
            first = (cnt - 1) * span
            pos.add(first)
            pos.add(min(n - 1, first + span - 1))
        cnt = (cnt + 1) // 2
        span *= 2
    if not pos:
        pos.add(n - 1)
    return sorted(pos)


def choose_relevant(rng, n, mode):
    if mode == "none":
        return []
    if mode == "all":
        return list(range(n))
    if mode == "first":
        return [0]
    if mode == "last":
        return [n - 1]
    if mode == "oddlast":
        return odd_layer_last(n)
    k = rng.choice([1, 2, 3, 4, 5, 8])
    return sorted(set(rng.below(n) for _ in range(k)))


def corrupt(rng, ids, fresh):
    """a body that differs from the committed list: (kind, body)"""
    n = len(ids)
    kinds = ["added", "altered"]
    if n >= 2:
        kinds += ["dropped", "reordered"]
    elif n == 1:
        kinds += ["dropped"]
    k = rng.choice(kinds)
    body = list(ids)
    if k == "added":
        body.insert(rng.choice([0, n, rng.below(n + 1)]), fresh)
    elif k == "dropped":
        del body[rng.choice([0, n - 1, rng.below(n)])]
    elif k == "reordered":
        i = rng.below(n - 1)
        j = rng.choice([i + 1, n - 1, rng.range(i + 1, n - 1)])
        body[i], body[j] = body[j], body[i]
    else:
        body[rng.choice([0, n - 1, rng.below(n)])] = fresh
    return k, body


def gen_case(rng, first_size=None, first_mode=None, lie_ok=True):
    cfg = {"insync": int(rng.chance(1, 2)), "parse": int(rng.chance(1, 2)), "rel": []}
    ops = []
    nxt = [1]
    hid = [0]
    tags = []

    def fresh_tx():
        t = nxt[0]
        nxt[0] += 1
        return t

    nblocks = 1 if first_size and first_size > 17 else rng.range(1, 3)
    for b in range(nblocks):
        if b == 0 and first_size:
            n, mode = first_size, first_mode
        else:
            n = rng.weighted([(rng.range(1, 12), 6), (rng.choice(SIZES), 3), (rng.range(18, 40), 1)])
            mode = rng.choice(MODES)
        if n > 17 and mode == "all" and not (b == 0 and first_size):
            mode = "random"
        ids = [fresh_tx() for _ in range(n)]
        relpos = choose_relevant(rng, n, mode)
        for p in relpos:
            cfg["rel"].append(ids[p])
        # previously seen (delivered unconfirmed): some relevant ones, some irrelevant ones
        seen = [ids[p] for p in relpos if rng.chance(2, 5)]
        seen += [t for t in ids if t not in seen and rng.chance(1, 10)]
        for t in rng.shuffle(seen):
            ops.append(["seen", t])
            if rng.chance(1, 6):
                ops.append(["seen", t])          # announced twice
        hid[0] += 1
        h = hid[0]
        ncorrupt = rng.weighted([(0, 6), (1, 3), (2, 1)])
        for _ in range(ncorrupt):
            extra = fresh_tx()
            if rng.chance(1, 2):
                cfg["rel"].append(extra)
            kind, body = corrupt(rng, ids, extra)
            tags.append(kind)
            ops.append(["block", h, 0, ids, body, 0])
        if ncorrupt == 0 or rng.chance(3, 4):
            ops.append(["block", h, 0, ids, list(ids), 0])
            tags.append("good")
            if rng.chance(1, 12):
                ops.append(["block", h, 0, ids, list(ids), 0])     # delivered again: already held
                tags.append("again")
    if lie_ok and rng.chance(1, 16):
        # a block type that claims a valid merkle root without looking (outside the property's hypotheses;
        # exercises the second root comparison of ProcessBlock in the model correspondence)
        n = rng.range(1, 6)
        ids = [fresh_tx() for _ in range(n)]
        for t in ids:
            if rng.chance(1, 2):
                cfg["rel"].append(t)
        extra = fresh_tx()
        _, body = corrupt(rng, ids, extra)
        hid[0] += 1
        ops.append(["block", hid[0], 0, ids, body if rng.chance(3, 4) else list(ids), 1])
        tags.append("lie")
    cfg["rel"] = sorted(set(cfg["rel"]))
    return {"cfg": cfg, "ops": relink(ops, cfg["insync"]), "tags": tags}


def gen_abort_case(rng, k):
    """a block whose processing is cut short by an output-fetch fault after its first pass has recorded the
    new relevant txids in the per-height file; restart on the same storage; the block processed again.
    Varies: abort position x relevant positions x previously seen (persisted / in memory only) x in sync."""
    cfg = {"insync": k % 2 if k < 8 else int(rng.chance(1, 3)), "parse": int(rng.chance(1, 2)), "rel": []}
    ops, tags = [], ["abort"]
    nxt = [1]

    def fresh_tx():
        t = nxt[0]
        nxt[0] += 1
        return t

    n = rng.choice([2, 3, 4, 5, 5, 6, 7, 8, 9, 12, 17]) if k >= 4 else [3, 5, 6, 9][k]
    ids = [fresh_tx() for _ in range(n)]
    nrel = rng.range(2, min(n, 6))
    relpos = sorted(set(rng.shuffle(list(range(n)))[:nrel]))
    rel = [ids[p] for p in relpos]
    cfg["rel"] += rel
    # the transaction whose output fetch fails must be a NEW relevant one: never seen unconfirmed
    fpos = rng.below(len(rel))
    fault = rel[fpos]
    others = [t for t in rel if t != fault]
    seen_persisted = [t for t in others if rng.chance(2, 5)]
    seen_volatile = [t for t in others if t not in seen_persisted and rng.chance(1, 4)]
    hid = 0
    prelude = None
    for t in rng.shuffle(seen_persisted + [t for t in ids if t not in rel and rng.chance(1, 8)]):
        ops.append(["seen", t])
    if seen_persisted or rng.chance(1, 3):
        # a block processed to its end persists the unconfirmed list
        hid += 1
        pid = [fresh_tx() for _ in range(rng.range(1, 3))]
        if rng.chance(1, 2):
            cfg["rel"].append(pid[0])
        prelude = ["block", hid, 0, pid, list(pid), 0]
        ops.append(prelude)
    for t in rng.shuffle(seen_volatile):
        ops.append(["seen", t])
    hid += 1
    blk = ["block", hid, 0, ids, list(ids), 0]
    ops.append(["fault", [fault]])
    ops.append(blk)
    keep_fault = rng.chance(1, 6)
    if not keep_fault:
        ops.append(["fault", []])
    ops.append(["restart", int(rng.chance(1, 8)), int(rng.chance(1, 2)) if cfg["insync"] else int(rng.chance(1, 6))])
    if prelude:
        ops.append(list(prelude))
    ops.append(list(blk))
    if keep_fault:
        ops.append(["fault", []])
        ops.append(["restart", 0, 0])
        if prelude:
            ops.append(list(prelude))
        ops.append(list(blk))
    if rng.chance(1, 3):
        hid += 1
        more = [fresh_tx() for _ in range(rng.range(1, 4))]
        cfg["rel"].append(more[-1])
        ops.append(["block", hid, 0, more, list(more), 0])
    cfg["rel"] = sorted(set(cfg["rel"]))
    return {"cfg": cfg, "ops": relink(ops, cfg["insync"]), "tags": tags}


def gen_reorg_case(rng, k):
    """confirm -> revert (competing header through the real headers handler) -> re-announce (or not) ->
    confirm on the new branch, at another index with other siblings; also: restart before the new
    confirmation, a transaction reverted twice, revert of two blocks, the tx directly in the competing block"""
    cfg = {"insync": k % 2 if k < 8 else int(rng.chance(1, 2)), "parse": int(rng.chance(1, 2)), "rel": []}
    ops, tags = [], ["reorg"]
    nxt = [1]
    hid = [0]

    def fresh(n):
        r = list(range(nxt[0], nxt[0] + n))
        nxt[0] += n
        return r

    def new_hid():
        hid[0] += 1
        return hid[0]

    def block_with(ts, n):
        """a body of n txs holding the transactions ts at random positions, the rest fresh"""
        n = max(n, len(ts))
        body = fresh(n - len(ts))
        for t in ts:
            body.insert(rng.below(len(body) + 1), t)
        for t in body:
            if t not in ts and rng.chance(1, 6):
                cfg["rel"].append(t)
        return body

    T = fresh(rng.weighted([(1, 5), (2, 3), (3, 1)]))
    cfg["rel"] += T
    if rng.chance(2, 3):                                   # a parent block P
        b = block_with([], rng.range(1, 3))
        ops.append(["block", new_hid(), 0, b, list(b), 0])
    for t in T:
        if rng.chance(2, 3):
            ops.append(["seen", t])                        # seen unconfirmed first, else first seen in block A
    rounds = 2 if (k % 5 == 4 or rng.chance(1, 6)) else 1  # reverted twice
    for rnd in range(rounds):
        if rnd == 0:                                       # (in a second round the last block C plays A)
            a = block_with(T, rng.choice([1, 2, 3, 4, 5, 6, 7, 9]))
            ops.append(["block", new_hid(), 0, a, list(a), 0])
        depth = 1
        if rng.chance(1, 4):                               # one more block on top: revert of two
            a2 = block_with([], rng.range(1, 4))
            ops.append(["block", new_hid(), 0, a2, list(a2), 0])
            depth = 2
        if rng.chance(1, 8):
            ops.append(["seen", rng.choice(T)])            # announced again while still confirmed: nothing
        direct = [t for t in T if rng.chance(1, 6)]        # back at once in the competing block
        bb = block_with(direct, rng.range(1, 5))
        ops.append(["reorg", new_hid(), 0, bb, list(bb), depth])
        rest = [t for t in T if t not in direct]
        mode = rng.weighted([("reannounce", 6), ("none", 2), ("restart", 3)])
        if mode == "restart":
            first = rng.chance(1, 2)
            if first:
                ops.append(["restart", int(rng.chance(1, 2)), int(rng.chance(1, 2))])
            for t in rest:
                if rng.chance(4, 5):
                    ops.append(["seen", t])
            if not first:
                ops.append(["restart", int(rng.chance(1, 2)), int(rng.chance(1, 2))])
                # a hard restart may have lost the competing block: it is delivered again
                ops.append(["block", hid[0], 0, bb, list(bb), 0])
        elif mode == "reannounce":
            for t in rest:
                if rng.chance(5, 6):
                    ops.append(["seen", t])
                    if rng.chance(1, 8):
                        ops.append(["seen", t])
        if rest:
            c = block_with(rest, rng.choice([2, 3, 4, 5, 6, 7, 8, 11]))
            ops.append(["block", new_hid(), 0, c, list(c), 0])
            T = rest
        else:
            break
    cfg["rel"] = sorted(set(cfg["rel"]))
    return {"cfg": cfg, "ops": relink(ops, cfg["insync"]), "tags": tags}


def finish_case(c):
    rel = set(c["cfg"]["rel"])
    c["coq_ops"] = [coq_op(o, rel) for o in c["ops"]]
    c["model"] = "cmp_run (run %s)" % cb(c["cfg"].get("insync", 0))
    return c


def outside_hypothesis(ops):
    """a lying block type, or duplicate txids inside a body / committed list (the CVE-2012-2459 shape)"""
    for o in ops:
        if o[0] == "block" and len(o) > 5 and o[5]:
            return True
        if o[0] in ("block", "reorg"):
            if len(set(o[3])) != len(o[3]) or len(set(o[4])) != len(o[4]):
                return True
    return False


def make_suite(cases):
    for c in cases:
        finish_case(c)
    hyp = {"hyp_valid": "fun ops tr => if c04_valid_tr ops tr then None else Some (0, [900])",
           "reannounce": "c04_reannounce_monitor"}
    inside = [c for c in cases if not outside_hypothesis(c["ops"])]
    outside = [c for c in cases if outside_hypothesis(c["ops"])]
    groups = [{"key": "merkle", "cases": inside, "per_case_model": True,
               "monitors": dict({"c04": "c04_monitor"}, **hyp)}]
    if outside:
        # outside the property's hypotheses: only the model correspondence is checked (and counted by hyp_valid)
        groups.append({"key": "merkle-outside-hypothesis", "cases": outside, "per_case_model": True, "monitors": hyp})
    return Suite("merkle", "merkle", ["From V.model Require Import Merkle."], groups)


COVER = {}


def suites(tier, rng, replay):
    if replay and replay.get("suite") == "txflow":
        return [txflow.suite(tier, rng, replay, txflow.make_spec("C04", "")["monitors"])]
    cases = []
    if replay:
        cases.append({"cfg": replay["cfg"], "ops": replay["ops"], "origin": "replay"})
    else:
        d = os.path.join(vlib.VERIF, "corpus", "C04")
        if os.path.isdir(d):
            for f in sorted(os.listdir(d)):
                if f.endswith(".json"):
                    j = json.load(open(os.path.join(d, f)))
                    cases.append({"cfg": j["cfg"], "ops": j["ops"], "origin": "corpus/C04/" + f})
        # the grid: every listed size with every relevant-subset mode
        k = 0
        for n in SIZES:
            for mode in MODES:
                r = rng.fork(4000 + k)
                k += 1
                cases.append(gen_case(r, n, mode, lie_ok=False))
        n = 300 if tier == "quick" else 3000
        nab = 60 if tier == "quick" else 700
        for i in range(nab):
            cases.append(gen_abort_case(rng.fork(70000 + i), i))
        nre = 50 if tier == "quick" else 600
        for i in range(nre):
            cases.append(gen_reorg_case(rng.fork(90000 + i), i))
        for i in range(max(0, n - k - nab - nre)):
            r = rng.fork(40000 + i)
            cases.append(gen_case(r))
    # what was covered (printed into the evidence, not assumed)
    sizes, modes, corrupt_kinds, nrel, nupd = {}, {}, {}, 0, 0
    for c in cases:
        rel = set(c["cfg"]["rel"])
        seen = set()
        for o in c["ops"]:
            if o[0] == "seen":
                seen.add(o[1])
            elif o[0] in ("block", "reorg"):
                sizes[len(o[4])] = sizes.get(len(o[4]), 0) + 1
                if o[3] == o[4]:
                    nrel += sum(1 for t in o[4] if t in rel)
                    nupd += sum(1 for t in o[4] if t in rel and t in seen)
        for t in c.get("tags", []):
            corrupt_kinds[t] = corrupt_kinds.get(t, 0) + 1
    COVER.update({"block_sizes": {str(k): v for k, v in sorted(sizes.items())}, "block_kinds": corrupt_kinds,
                  "relevant_txs_in_good_blocks": nrel, "of_which_previously_seen": nupd,
                  "parse_block_cases": sum(1 for c in cases if c["cfg"].get("parse")),
                  "insync_cases": sum(1 for c in cases if c["cfg"].get("insync"))})
    for c in cases:
        c.pop("tags", None)
    res = [make_suite(cases)]
    if not replay:
        # the node-level pipeline (conflicts, unsafe / cancelled states, restarts, delay checks around the blocks): its
        # monitor's code 153 is "a relevant tx of a processed block has no notification carrying this block's proof
        # and unconfirmed depth 0"
        res.append(txflow.suite(tier, rng, replay, txflow.make_spec("C04", "")["monitors"]))
    return res


def extra(tier, rng, workdir):
    note = {"histories": len(REANNOUNCED)}
    if REANNOUNCED:
        r = min(REANNOUNCED, key=lambda x: len(x["ops"]))
        note.update({"what": "unconfirmed re-announcement delivered as a new tx carrying the merkle proof of a "
                             "reverted block (header not held any more) and unconfirmed depth 0",
                     "cfg": r["cfg"], "ops": r["ops"], "step": r["step"], "observed": r["observed"]})
    # "previously seen or not": a tx of the block whose tx message the tx thread takes while ProcessBlock is inside the
    # block (pause points; gen/txflow.py race_extra): code 108 = no notification with this block's proof
    rx = txflow.race_extra(tier, rng, workdir)
    fails = [f for f in rx["failures"] if (f.get("expected") or [0])[0] in (104, 105, 108)]  # 104: "new" although seen before; 105: ProcessBlock failed after adding the block
    rcov = {k: v for k, v in rx["coverage"].items() if "block_tx_race" in k}
    return {"failures": fails, "evaluations": sum(v for k, v in rcov.items() if k.endswith("_scenarios")),
            "coverage": {"input_distribution": dict(COVER), "reannounced_with_stale_proof_not_counted_as_C04": note, **rcov}}


REANNOUNCED = []


def accept_failure(rec):
    if txflow.note_stale(rec):     # observation 181 of the pipeline suite (same fact as "reannounce" below): not judged
        return False
    if rec.get("suite") == "txflow-race":
        return True
    if rec.get("suite") == "txflow":
        ops, st = rec.get("ops", []), rec.get("step", 0)
        at_block = 0 <= st < len(ops) and ops[st][0] == "block"
        if rec.get("checker") == "flow":
            return (rec.get("expected") or [0])[0] in (153, 154)
        return at_block
    # "reannounce" (code 431): an unconfirmed re-announcement of a transaction whose block was reverted is
    # delivered with that block's stale proof and depth 0.  The text of C04 speaks of the notification for a
    # transaction included in a block, so this is recorded in the evidence (and reported), not counted as C04.
    if rec.get("checker") == "reannounce":
        REANNOUNCED.append(rec)
        return False
    # histories outside the property's hypotheses never count as property failures (they are counted by hyp_valid)
    return not outside_hypothesis(rec.get("ops", []))


def block_class(o):
    if o[0] != "block":
        return o[0]
    if o[3] == o[4]:
        return "block-good"
    return "block-corrupt"


def keyfn(rec):
    if rec.get("suite") == "txflow-race":
        return txflow.race_key(rec)
    if rec.get("suite") == "txflow":
        return txflow.keyfn(rec)
    ops = rec.get("ops", [])
    step = rec.get("step", 0)
    cls = block_class(ops[step]) if 0 <= step < len(ops) else "?"
    code = (rec.get("expected") or [0])[0] if rec.get("checker") != "model" else 0
    return "merkle:%s:%s:%s" % (rec.get("checker"), code, cls)


def fails_same(rec, cfg, ops, workdir, n):
    """does (cfg, ops) still fail the same checker with the same code?"""
    s = make_suite([{"cfg": cfg, "ops": ops}])
    r = checklib.eval_suite(s, os.path.join(workdir, "shrink"))
    for x in r["monitor_fail"] + r["model_fail"]:
        if x["checker"] == rec["checker"] and (x.get("expected") or [0])[0] == (rec.get("expected") or [0])[0]:
            return x
    return None


def shrink(rec, workdir):
    """best-effort minimisation: cut after the failing step, drop earlier operations, shorten the block"""
    if rec.get("suite") == "txflow":
        return rec
    cfg, ops = rec["cfg"], [list(o) for o in rec["ops"]]
    best = rec
    budget = [24]

    def attempt(cand):
        if budget[0] <= 0:
            return None
        budget[0] -= 1
        cand = relink(cand, cfg.get("insync", 0))
        return fails_same(rec, cfg, cand, workdir, budget[0])

    cand = ops[:rec.get("step", len(ops) - 1) + 1]
    if len(cand) < len(ops):
        x = attempt(cand)
        if x:
            best, ops = x, cand
    i = 0
    while i < len(ops) - 1 and budget[0] > 0:
        cand = ops[:i] + ops[i + 1:]
        x = attempt(cand)
        if x:
            best, ops = x, cand
        else:
            i += 1
    # shorten the failing block from the right while it still fails (all deliveries under that header alike)
    while budget[0] > 0 and ops and ops[-1][0] == "block" and len(ops[-1][3]) > 1:
        h, drop = ops[-1][1], ops[-1][3][-1]
        cand = [["block", o[1], o[2], o[3][:-1], [t for t in o[4] if t != drop], o[5]]
                if o[0] == "block" and o[1] == h else o for o in ops]
        x = attempt(cand)
        if not x:
            break
        best, ops = x, cand
    out = dict(rec)
    out.update({"ops": best["ops"], "trace": best["trace"], "step": best["step"], "expected": best["expected"],
                "observed": best["observed"], "shrunk_from_ops": len(rec["ops"])})
    return out


SPEC = {
    "pid": "C04",
    "props_file": "props/C04.v",
    "suites": suites,
    "extra": extra,
    "keyfn": keyfn,
    "accept_failure": accept_failure,
    "shrink": shrink,
    "trusted_base": [
        "Coq 8.16.1 kernel (coqc); vm_compute for evaluating model and monitor on the cases; no native_compute",
        "axioms: none declared; Print Assumptions recorded under print_assumptions",
        "symbolic hash: SHA256d(l||r) is a free constructor (injective, never a leaf) - the collision-free idealisation; the harness maps real hashes to symbolic nodes by recomputing the tree over the known leaves",
        "modelled, not verified (dependency github.com/tokenized/pkg/wire): MerkleTree AddMerkleProof/AddHash/processProofsLayer/FinalizeMerkleProofs with pruning, MerkleProof.AddHash/AddDuplicate, MsgBlock/MsgParseBlock.IsMerkleRootValid (calculateMerkleLevel = textbook root); tied to the code by the correspondence run on the real Node.ProcessBlock: index, path (structurally), duplicated indexes, header, depth, result of the real client.MerkleProof.IsValid, chain height and tip per step",
        "hand-written model coq/model/Merkle.v of Node.ProcessBlock's gates / registration loop / root comparison / pairing, convertMerkleProof, client.MerkleProof.IsValid",
        "the monitor c04_monitor uses only the textbook reference (ref_root, ref_path, ref_fold), not the streaming model",
    ],
    "assumptions": [
        "txids of a block are pairwise distinct (excludes the CVE-2012-2459 shape [a,b,c] ~ [a,b,c,c], which does hash to the same root)",
        "no two transactions of a history spend the same output (conflict handling is C05/C06); a txid is confirmed once",
        "a block never holds a transaction confirmed in a block of the chain the node holds at that moment (hyp_valid follows the observed chain); an unconfirmed re-announcement carrying the stale proof of a reverted block (code 431) is recorded under reannounced_with_stale_proof_not_counted_as_C04, not counted as C04 (the property text speaks of the notification for a transaction included in a block)",
        "an injected output-fetch fault never concerns a transaction that also arrives unconfirmed; after a hard crash a previously delivered transaction may come back as new or as update (either kind accepted, the proof is checked all the same)",
        "the block implements wire.Block honestly (wire.MsgBlock / wire.MsgParseBlock): with a block type whose IsMerkleRootValid lies, ProcessBlock adds and announces the header before its own root comparison fails (modelled; theorem C04_second_gate_unreachable shows the honest types never get there)",
    ],
    "rule": "histories of unconfirmed arrivals and blocks of 1..40 transactions (grid: sizes 1-9,15-17,31-33 x relevant subset none/all/first/last/last-of-odd-layer/random), relevant txs previously seen or not, bodies corrupted under an unchanged header (added/dropped/reordered/altered tx) followed or not by the good body, wire.MsgBlock and wire.MsgParseBlock, in sync or not; plus abort scenarios: an output-fetch fault cuts ProcessBlock short after its first pass recorded the new relevant txids in the per-height file (abort position x relevant positions x previously seen persisted / in memory only x in sync or not), graceful or hard restart on the same storage, the blocks processed again; and reorg histories: confirm -> competing header through the real handlers.HeadersHandler (revert of 1 or 2 blocks) -> re-announcement (or none, or the tx directly in the competing block) -> restart or not -> confirmation on the new branch at another index, also a tx reverted twice; distinct = distinct (cfg, ops)",
}

if __name__ == "__main__":
    checklib.run_check(SPEC)
