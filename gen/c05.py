"""C05 - conflicting unconfirmed transactions are flagged (component level: state.MemPool;
node level: through the TxFlow suite shared with C03/C06/C07)."""
import json
import os
import sys

sys.path.insert(0, os.path.dirname(os.path.abspath(__file__)))
import checklib
import vlib
from checklib import Suite


def zl(xs):
    return "[" + "; ".join(vlib.z(x) for x in xs) + "]"


def cb(b):
    return "true" if b else "false"


def coq_op(o):
    n = o[0]
    if n == "advance":
        return "(OAdvance %s)" % vlib.z(o[1])
    if n == "addrequest":
        return "(OAddRequest %s %s)" % (vlib.z(o[1]), cb(o[2]))
    if n == "addtx":
        return "(OAddTx %s %s %s)" % (vlib.z(o[1]), zl(o[2]), cb(o[3]))
    if n == "removetx":
        return "(ORemoveTx %s)" % vlib.z(o[1])
    if n == "exists":
        return "(OExists %s)" % vlib.z(o[1])
    if n == "istrusted":
        return "(OIsTrusted %s)" % vlib.z(o[1])
    if n == "conflicting":
        return "(OConflicting %s)" % zl(o[1])
    if n == "index":
        return "(OIndex %s)" % vlib.z(o[1])
    raise KeyError(n)


def gen_mempool_case(rng, nops):
    """Universe: outpoints of external parents 100..103 (ids 1000,1001,1010,...), 6..8 txs."""
    outpoints = [1000, 1001, 1010, 1020, 1021, 1030][:rng.range(2, 6)]
    ntx = rng.range(3, 8)
    bodies = {}
    for t in range(1, ntx + 1):
        k = rng.weighted([(1, 5), (2, 4), (3, 2), (0, 1)])
        body = [rng.choice(outpoints) for _ in range(k)]
        if rng.chance(1, 4):
            body.append(9000 + t)   # a private outpoint
        if rng.chance(1, 12) and body:
            body.append(body[0])    # the same outpoint twice in one tx
        bodies[t] = body
    ops = []
    for _ in range(nops):
        k = rng.weighted([("addtx", 34), ("removetx", 14), ("conflicting", 10), ("index", 14), ("exists", 6),
                          ("addrequest", 10), ("istrusted", 5), ("advance", 5)])
        t = rng.range(1, ntx)
        if k == "addtx":
            ops.append(["addtx", t, bodies[t], int(rng.chance(1, 2))])
        elif k == "removetx":
            ops.append(["removetx", t])
        elif k == "conflicting":
            body = [rng.choice(outpoints + [9001]) for _ in range(rng.range(1, 3))]
            ops.append(["conflicting", body])
        elif k == "index":
            ops.append(["index", rng.choice(outpoints + [9001, 9002])])
        elif k == "exists":
            ops.append(["exists", t])
        elif k == "addrequest":
            ops.append(["addrequest", rng.choice([t, ntx + 2]), int(rng.chance(1, 2))])
        elif k == "istrusted":
            ops.append(["istrusted", t])
        else:
            ops.append(["advance", rng.choice([100, 2500, 3500, 10000])])
    for o in outpoints:
        ops.append(["index", o])
    return ops, [[t, bodies[t]] for t in sorted(bodies)]


def mempool_suite(tier, rng, replay, monitors):
    cases = []
    if replay and replay.get("suite") == "mempool":
        cases.append({"ops": replay["ops"], "cfg": replay.get("cfg", {}), "origin": "replay"})
    elif not replay:
        d = os.path.join(vlib.VERIF, "corpus", "mempool")
        if os.path.isdir(d):
            for f in sorted(os.listdir(d)):
                if f.endswith(".json"):
                    j = json.load(open(os.path.join(d, f)))
                    cases.append({"ops": j["ops"], "cfg": j.get("cfg", {}), "origin": "corpus/mempool/" + f})
        n = 300 if tier == "quick" else 4000
        for i in range(n):
            r = rng.fork(1000 + i)
            ops, txs = gen_mempool_case(r, r.range(8, 40))
            cases.append({"ops": ops, "cfg": {"txs": txs}})
        # every arrival order of a 3-way conflict with a partial overlap
        import itertools
        bodies = {1: [1000], 2: [1000, 1001], 3: [1001, 1010], 4: [1000]}
        for perm in itertools.permutations([1, 2, 3, 4]):
            ops = [["addtx", t, bodies[t], 0] for t in perm]
            ops += [["index", 1000], ["index", 1001], ["removetx", perm[0]], ["index", 1000], ["index", 1001],
                    ["addtx", perm[0], bodies[perm[0]], 1], ["conflicting", [1001]], ["index", 1000], ["index", 1010]]
            cases.append({"ops": ops, "cfg": {"txs": [[t, bodies[t]] for t in sorted(bodies)]}, "origin": "permutation"})
    for c in cases:
        c["coq_ops"] = [coq_op(o) for o in c["ops"]]
    if not cases:
        return None
    return Suite("mempool", "mempool", ["From V.model Require Import MemPool MemPoolSpec."],
                 [{"key": "mempool", "cases": cases, "model": "cmp_run run", "monitors": monitors}])


import txflow


def suites(tier, rng, replay):
    res = []
    s = mempool_suite(tier, rng, replay, {"pool": "c05_monitor"})
    if s:
        res.append(s)
    if not replay or replay.get("suite") == "txflow":
        res.append(txflow.suite(tier, rng, replay, txflow.make_spec("C05", "")["monitors"]))
    return res


def accept(rec):
    if txflow.note_stale(rec):
        return False
    if rec.get("checker") != "flow":
        return True
    code = (rec.get("expected") or [0])[0]
    return code in txflow.PROPERTY_CODES["C05"] or code >= 197


def keyfn(rec):
    if rec.get("suite") == "txflow-race":
        return txflow.race_key(rec)
    if rec.get("suite") == "txflow":
        return txflow.keyfn(rec)
    ops = rec.get("ops", [])
    step = rec.get("step", 0)
    opn = ops[step][0] if 0 <= step < len(ops) else "?"
    return "%s:%s:%s" % (rec.get("suite"), rec.get("checker"), opn)


SPEC = {
    "pid": "C05",
    "props_file": ["props/C05.v", "props/C05_node.v"],
    "accept_failure": accept,
    "suites": suites,
    "extra": txflow.race_extra,
    "keyfn": keyfn,
    "trusted_base": [
        "Coq 8.16.1 kernel (coqc); vm_compute for evaluating model and reference on the cases; no native_compute",
        "axioms: none declared; Print Assumptions recorded under print_assumptions",
        "hand-written model coq/model/MemPool.v of internal/state/mempool.go, tied to the code by the correspondence run on the real state.MemPool (inputs index read through a verif-tagged accessor, clock through an ageing hook)",
        "modelled, not verified: txids / outpoint hashes are ids (SHA256d collision-free), a tx body is the list of outpoints it spends",
    ],
    "assumptions": ["MemPool methods are atomic (memPool.mutex)",
                    "atomicity at the granularity of processUnconfirmedTx / ProcessBlock / one delay-check iteration for the theorems; the two interleavings the code must exclude by its tx state lock (conflict between the delay check's read and write; conflict while its safe update is being sent) are replayed on the real code with pause points (race_delay, race_send)"],
    "rule": "random sequences over add/remove/conflicting/index/... on universes of 2-6 shared outpoints x 3-8 txs (k-way conflicts, partial overlaps, duplicate outpoint in one tx, zero-input tx) + all 24 arrival orders of a 4-tx conflict pattern; distinct = distinct op lists",
}

if __name__ == "__main__":
    checklib.run_check(SPEC)
