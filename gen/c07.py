"""C07 - checked through the transaction pipeline suite (gen/txflow.py), plus the goroutine race between the
delay check's read-modify-write of a tx state and a conflict recorded by another goroutine."""
import os
import sys

sys.path.insert(0, os.path.dirname(os.path.abspath(__file__)))
import checklib
import txflow
import vlib

SPEC = txflow.make_spec("C07", "histories over 3-7 txs / 2-5 shared outpoints / 3 sources with inv, blocks (also refused ones), delay checks, clock advances, restarts, in-sync toggles; all arrival orders x sources of a 3-tx conflict pattern; confirmation of seen/unseen conflicting txs; restart at every position of a reference history; + the delay check's state write raced with a conflicting arrival (pause point in the store); distinct = distinct (cfg, ops)")


def parse_events(ob):
    """[1|2, txid, safe, unsafe, cancel, depth, proof, (n, outs...)]* -> list of dicts"""
    evs, i = [], 0
    while i < len(ob):
        k = ob[i]
        if k == 1:
            n = ob[i + 7]
            evs.append({"kind": 1, "t": ob[i + 1], "safe": ob[i + 2], "unsafe": ob[i + 3], "cancel": ob[i + 4]})
            i += 8 + n
        elif k == 2:
            evs.append({"kind": 2, "t": ob[i + 1], "safe": ob[i + 2], "unsafe": ob[i + 3], "cancel": ob[i + 4]})
            i += 7
        elif k == 3:
            i += 3
        else:
            i += 1
    return evs


def extra(tier, rng, workdir):
    cfg = {"txs": [[1, [1000], 1], [2, [1000, 1001], 1], [3, [1001], 0]], "delay": txflow.DELAY}
    cases = []
    for first, conflict, src in ((1, 2, 1), (1, 2, 0), (2, 1, 1), (2, 3, 1)):
        cases.append({"cfg": cfg, "ops": [["setinsync", 1], ["tx", first, 0], ["advance", 75000],
                                          ["race_delay", first, conflict, src], ["unconf"], ["delaycheck"]]})
    results, _ = vlib.run_harness("txflow", cases, workdir, tag="race")
    failures = []
    reached = 0
    for c, r in zip(cases, results):
        ob = r[3]
        t = c["ops"][3][1]
        reached += ob[1] if len(ob) > 1 else 0
        seen_unsafe = False
        for ev in parse_events(ob[2:]) + parse_events(r[5][1:]):
            if ev["t"] != t:
                continue
            if ev["safe"] and ev["unsafe"]:
                failures.append(rec(c, r, 3, 101, "safe and unsafe both set"))
                break
            if ev["unsafe"] or ev["cancel"]:
                seen_unsafe = True
            elif ev["safe"] and seen_unsafe:
                failures.append(rec(c, r, 3, 103, "tx %d reported safe after it was reported unsafe: the delay check wrote back a stale copy of the state" % t))
                break
    return {"failures": failures, "evaluations": len(cases),
            "coverage": {"rmw_race_scenarios": len(cases), "rmw_race_pause_point_reached": reached}}


def rec(c, r, step, code, what):
    return {"suite": "txflow-race", "checker": "race", "step": step, "expected": [code], "observed": r[step], "cfg": c["cfg"],
            "ops": c["ops"], "trace": r, "what": what}


_keyfn = SPEC["keyfn"]
SPEC["keyfn"] = lambda rc: ("txflow:race:%s:race_delay" % (rc.get("expected") or [0])[0]) if rc.get("suite") == "txflow-race" else _keyfn(rc)
SPEC["extra"] = extra
SPEC["assumptions"] = [a for a in SPEC["assumptions"] if "atomicity" not in a] + [
    "atomicity at the granularity of processUnconfirmedTx / ProcessBlock / one delay-check iteration for the THEOREMS; the code does not enforce it for the tx state store (unlocked read-modify-write): the delay-check / conflict interleaving is replayed on the real code with a pause point in the store and is recorded as a known finding"]

if __name__ == "__main__":
    checklib.run_check(SPEC)
