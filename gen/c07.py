"""C07 - checked through the transaction pipeline suite (gen/txflow.py), plus the goroutine race between the
delay check's read-modify-write of a tx state and a conflict recorded by another goroutine."""
import os
import sys

sys.path.insert(0, os.path.dirname(os.path.abspath(__file__)))
import checklib
import txflow
import vlib

SPEC = txflow.make_spec("C07", "histories over 3-7 txs / 2-5 shared outpoints / 3 sources with inv, blocks (also refused ones), delay checks, clock advances, restarts, in-sync toggles; all arrival orders x sources of a 3-tx conflict pattern; confirmation of seen/unseen conflicting txs; restart at every position of a reference history; + the delay check's state write raced with a conflicting arrival (pause point in the store) and the SENDING of its safe update raced with a conflicting arrival (slow first handler, second handler's order judged); distinct = distinct (cfg, ops)")


if __name__ == "__main__":
    checklib.run_check(SPEC)
