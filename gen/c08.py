"""C08 - subscription filter matches exactly subscribed push data and contract actions."""
import hashlib
import json
import os
import sys

sys.path.insert(0, os.path.dirname(os.path.abspath(__file__)))
import checklib
import vlib
from checklib import Suite


def hash160(b):
    h = hashlib.new("ripemd160")
    h.update(hashlib.sha256(bytes(b)).digest())
    return list(h.digest())


def zl(xs):
    return "[" + "; ".join(str(int(x)) for x in xs) + "]"


def zll(xss):
    return "[" + "; ".join(zl(x) for x in xss) + "]"


def coq_op(o):
    n = o[0]
    if n == "subscribe":
        return "(OSubscribe %s)" % zll(o[1])
    if n == "unsubscribe":
        return "(OUnsubscribe %s)" % zll(o[1])
    if n == "subaddress":
        return "(OSubscribe %s)" % zll(o[1])     # subscribing to an address = subscribing to each of its key hashes
    if n == "subcontracts":
        return "OSubContracts"
    if n == "unsubcontracts":
        return "OUnsubContracts"
    if n == "isrelevant":
        return "(OIsRelevant %s %s)" % (zll(o[1]), zll(o[2]))
    if n == "hash160":
        return "(OHash160 %s)" % zl(o[1])
    if n == "subscribed":
        return "OSubscribed"
    raise KeyError(n)


def le(n, w):
    return [(n >> (8 * i)) & 0xff for i in range(w)]


def enc_push(rng, d, form=None):
    """An encoding of a push of d (any legal form, not necessarily minimal)."""
    n = len(d)
    forms = []
    if n == 0:
        forms += ["op0", "pd1", "pd2", "pd4"]
    else:
        if n <= 75:
            forms.append("direct")
        if n < 256:
            forms.append("pd1")
        if n < 65536:
            forms.append("pd2")
        forms.append("pd4")
    f = form or rng.choice(forms)
    if f == "op0":
        return [0]
    if f == "direct":
        return [n] + list(d)
    if f == "pd1":
        return [76] + le(n, 1) + list(d)
    if f == "pd2":
        return [77] + le(n, 2) + list(d)
    return [78] + le(n, 4) + list(d)


NONPUSH = [80, 97, 106, 118, 135, 136, 169, 172, 255, 110, 99]


def gen_case(rng, contract_scripts):
    """Universe of push data; scripts built from items + truncated tails."""
    datas = []
    for _ in range(rng.range(3, 6)):
        ln = rng.weighted([(20, 5), (1, 1), (19, 1), (21, 1), (33, 2), (75, 1), (76, 1), (0, 1), (255, 1), (256, 1), (300, 1)])
        datas.append([rng.below(256) for _ in range(ln)])
    htbl = {}

    def key(d):
        if len(d) == 20:
            return list(d)
        htbl[tuple(d)] = hash160(d)
        return htbl[tuple(d)]

    def rand_script():
        s = []
        for _ in range(rng.range(0, 5)):
            k = rng.weighted([("data", 8), ("keyof", 3), ("op", 5), ("num", 2), ("neg", 1), ("rand", 2)])
            if k == "data":
                s += enc_push(rng, rng.choice(datas))
            elif k == "keyof":
                s += enc_push(rng, key(rng.choice(datas)))
            elif k == "op":
                s.append(rng.choice(NONPUSH))
            elif k == "num":
                s.append(rng.range(81, 96))
            elif k == "neg":
                s.append(79)
            else:
                s += enc_push(rng, [rng.below(256) for _ in range(rng.range(1, 30))])
        tail = rng.weighted([("none", 6), ("trunc", 3), ("sizepast", 2), ("halfsize", 2), ("garbage", 1)])
        if tail == "trunc":
            e = enc_push(rng, rng.choice(datas))
            s += e[:rng.range(1, max(1, len(e) - 1))]
        elif tail == "sizepast":
            s += rng.choice([[78, 255, 255, 255, 255, 1, 2], [77, 255, 255, 9], [76, 200, 1], [40, 1, 2, 3]])
        elif tail == "halfsize":
            s += rng.choice([[78, 1, 0], [77, 5], [76]])
        elif tail == "garbage":
            s += [rng.below(256) for _ in range(rng.range(1, 12))]
        # sometimes a good push after the malformation (must NOT count unless the parser resynchronises the same way)
        if tail != "none" and rng.chance(1, 3):
            s += enc_push(rng, rng.choice(datas))
        return s

    ops = []
    subscribed = []
    for _ in range(rng.range(6, 22)):
        k = rng.weighted([("sub", 5), ("subaddr", 2), ("unsub", 3), ("rel", 12), ("contracts", 2), ("dump", 2), ("h160", 1)])
        if k == "subaddr":
            # the client helpers SubscribeAddress / SubscribeAddresses with a PKH or multi-PKH address
            hs = []
            for d in rng.shuffle(list(datas))[:rng.weighted([(1, 2), (2, 4), (3, 3)])]:
                h = key(d)
                if h not in hs:
                    hs.append(h)
            ops.append(["subaddress", hs, int(rng.chance(1, 2))])
            subscribed += hs
        elif k == "sub":
            ds = []
            for _i in range(rng.weighted([(1, 5), (2, 3), (3, 1)])):
                d = rng.choice(datas)
                ds.append(key(d) if rng.chance(1, 2) else list(d))
                key(d)
            ops.append(["subscribe", ds])
            subscribed += ds
        elif k == "unsub":
            # batches: a value named once, several values, the same value named twice (raw + its hash, or
            # twice raw) - possibly more often than it is subscribed -, values never subscribed
            batch = []
            for _i in range(rng.weighted([(1, 5), (2, 4), (3, 2)])):
                if subscribed and rng.chance(3, 4):
                    d = rng.choice(subscribed)
                    batch.append(key(d) if rng.chance(1, 2) else list(d))
                else:
                    d = rng.choice(datas)
                    key(d)
                    batch.append(list(d))
                if batch and rng.chance(1, 4):
                    d = batch[-1]
                    batch.append(key(d) if rng.chance(1, 2) else list(d))
            ops.append(["unsubscribe", batch])
        elif k == "rel":
            outs = [rand_script() for _ in range(rng.range(0, 3))]
            ins = [rand_script() for _ in range(rng.range(0, 2))]
            if contract_scripts and rng.chance(1, 3):
                # one to three Tokenized action outputs in any order (a message or transfer before / after a
                # contract formation or instrument creation), among ordinary outputs
                for _k in range(rng.weighted([(1, 3), (2, 4), (3, 2)])):
                    outs.insert(rng.below(len(outs) + 1), rng.choice(contract_scripts))
            ops.append(["isrelevant", outs, ins])
        elif k == "contracts":
            ops.append([rng.choice(["subcontracts", "subcontracts", "unsubcontracts"])])
        elif k == "dump":
            ops.append(["subscribed"])
        else:
            d = rng.choice(datas)
            htbl[tuple(d)] = hash160(d)
            ops.append(["hash160", list(d)])
    ops.append(["subscribed"])
    return ops, [[list(k), v] for k, v in htbl.items()]


def contract_lib(workdir):
    res, _ = vlib.run_harness("scriptlib", [{"cfg": {"test": 1}, "ops": [["mk", "cf"], ["mk", "ic"], ["mk", "transfer"], ["mk", "message"]]}],
                              workdir, tag="scriptlib")
    scripts = [r[1:] for r in res[0]]
    return scripts[:2], scripts[2:]


def suites(tier, rng, replay):
    workdir = os.path.join(vlib.WORK, "C08")
    cf, other = contract_lib(workdir)
    groups = []
    cases = []
    if replay:
        cases.append({"ops": replay["ops"], "cfg": replay.get("cfg", {}), "htbl": replay.get("htbl", []), "origin": "replay"})
    else:
        d = os.path.join(vlib.VERIF, "corpus", "C08")
        if os.path.isdir(d):
            for f in sorted(os.listdir(d)):
                if f.endswith(".json"):
                    j = json.load(open(os.path.join(d, f)))
                    htbl = {}
                    for o in j["ops"]:
                        if o[0] in ("subscribe", "unsubscribe"):
                            for x in o[1]:
                                if len(x) != 20:
                                    htbl[tuple(x)] = hash160(x)
                    cases.append({"ops": j["ops"], "htbl": [[list(k), v] for k, v in htbl.items()], "origin": "corpus/C08/" + f})
        n = 240 if tier == "quick" else 3000
        for i in range(n):
            r = rng.fork(i)
            ops, htbl = gen_case(r, cf + other)
            cases.append({"ops": ops, "htbl": htbl})
    # one group per case (each has its own oracle tables) would be slow; instead put the tables in the op list:
    # all cases share the union table (hash160 is a function, so the union is consistent)
    union = {}
    for c in cases:
        for k, v in c["htbl"]:
            union[tuple(k)] = v
    htbl_coq = "[" + "; ".join("(%s, %s)" % (zl(k), zl(v)) for k, v in sorted(union.items())) + "]"
    ctbl_coq = zll(cf)
    for c in cases:
        c["coq_ops"] = [coq_op(o) for o in c["ops"]]
    pre = ["From V.model Require Import Script ScriptSpec.",
           "Definition htbl : list (bytes * bytes) := %s." % htbl_coq,
           "Definition ctbl : list bytes := %s." % ctbl_coq]
    groups.append({"key": "filter", "cases": cases, "model": "cmp_run (run htbl ctbl)",
                   "monitors": {"c08": "c08_monitor htbl ctbl",
                                "hyp_keys": "fun ops _ => if keys20 htbl ops then None else Some (0, [900])"}})
    return [Suite("filter", "filter", pre, groups)]


def keyfn(rec):
    ops = rec.get("ops", [])
    step = rec.get("step", 0)
    opn = ops[step][0] if 0 <= step < len(ops) else "?"
    code = (rec.get("expected") or [0])[0] if rec.get("checker") != "model" else 0
    return "filter:%s:%s:%s" % (rec.get("checker"), code, opn)


def extra(tier, rng, workdir):
    """support for the assumption that Subscribe* / Unsubscribe* / IsRelevant are atomic under the subscription lock
    (the theorems are about sequential histories): a tx that matches every subscription set of a rotation must be
    relevant at every instant"""
    n = 20000 if tier == "quick" else 400000
    cases = [{"cfg": {}, "ops": [["rotate_race", n]]} for _ in range(4)]
    res, _ = vlib.run_harness("filter", cases, workdir, tag="rotate")
    failures = []
    for c, r in zip(cases, res):
        if list(r[0][:1]) != [0] or r[0][1] != 0:
            failures.append({"suite": "filter-race", "checker": "c08", "step": 0, "expected": [853], "observed": list(r[0]), "cfg": {},
                             "ops": c["ops"], "trace": r,
                             "what": "IsRelevant said 'not relevant' %s times for a tx that matches every subscription set of the concurrent rotation" % r[0][1:2]})
            break
    return {"failures": failures, "evaluations": len(cases), "coverage": {"rotation_race_isrelevant_calls": n * len(cases)}}


SPEC = {
    "pid": "C08",
    "extra": extra,
    "props_file": "props/C08.v",
    "suites": suites,
    "keyfn": keyfn,
    "trusted_base": [
        "Coq 8.16.1 kernel (coqc); vm_compute for evaluating the model on the cases; no native_compute",
        "axioms: none declared; Print Assumptions recorded under print_assumptions",
        "hand-written model coq/model/Script.v of Node.IsRelevant / Subscribe* and of bitcoin.ParsePushDataScript (dependency, modelled), tied to the code by the correspondence run on the real Node",
        "oracles (Section variables): RIPEMD160.SHA256 and the Tokenized action parser; the run supplies them as finite tables (hash160 computed independently in Python and cross-checked against bitcoin.Hash160; contract scripts built by protocol.Serialize)",
    ],
    "assumptions": ["hash160 of data outside the table never equals a subscribed value (second preimage resistance)",
                    "a 20-byte push is compared as is, any other push through RIPEMD160.SHA256 (the code's and the address convention)"],
    "rule": "scripts built from every push form (direct, PUSHDATA1/2/4, OP_0, OP_1..16, OP_1NEGATE), non-push opcodes, truncated tails, size-past-end, half size fields, garbage, pushes after the malformation; subscribe/unsubscribe sequences over 3-6 data items given raw or as hash; distinct = distinct op lists",
}

if __name__ == "__main__":
    checklib.run_check(SPEC)
