"""C09 - block store consistent across add / revert / save / reload."""
import json
import os
import sys

sys.path.insert(0, os.path.dirname(os.path.abspath(__file__)))
import checklib
import vlib
from checklib import Suite

K = 1000


def coq_op(o):
    n = o[0]
    a = [vlib.z(x) for x in o[1:]]
    table = {"add": "OAdd", "addn": "OAddN", "revert": "ORevert", "save": "OSave", "load": "OLoad", "reload": "OLoad",
             "lastheight": "OLastHeight", "lasthash": "OLastHash", "contains": "OContains", "height": "OHeight",
             "hash": "OHash", "blockhash": "OBlockHash", "time": "OTime", "header": "OHeaderAt",
             "getheaders": "OGetHeaders", "files": "OFiles"}
    return "(" + " ".join([table[n]] + a) + ")" if a else table[n]


class Mirror:
    """Generator-side bookkeeping only (never used as an oracle)."""

    def __init__(self):
        self.chain = [0]
        self.saved = 0
        self.next_id = 1
        self.dead = []   # ids removed by reverts (for contains/height queries)

    def tip(self):
        return len(self.chain) - 1


def interesting_heights(rng, tip):
    cands = [-5, -2, -1, 0, 1, tip - 1, tip, tip + 1, tip + 7]
    for k in range(1, tip // K + 2):
        cands += [k * K - 2, k * K - 1, k * K, k * K + 1]
    return cands


def gen_case(rng, nops, maxtip):
    m = Mirror()
    ops = []

    def addn(n):
        if n <= 0:
            return
        ops.append(["addn", m.next_id, n])
        for i in range(n):
            if len(m.chain) % K == 0:
                m.saved = len(m.chain)
            m.chain.append(m.next_id + i)
        m.next_id += n

    # bring the chain near an interesting height
    target = rng.choice([0, 1, 3, 7, K - 2, K - 1, K, K + 1, K + 2, 2 * K - 1, 2 * K, 2 * K + 1, 2 * K + 500, 3 * K, 3 * K + 1])
    target = min(target, maxtip)
    addn(target)
    for _ in range(nops):
        tip = m.tip()
        kind = rng.weighted([("addn", 14), ("add", 6), ("revert", 18), ("save", 10), ("load", 8), ("query", 40),
                             ("files", 4)])
        if kind == "addn":
            n = rng.choice([1, 1, 2, 3, 5, 17])
            # move to the next boundary sometimes
            if rng.chance(1, 3):
                nb = ((tip // K) + 1) * K
                n = nb - tip + rng.choice([-2, -1, 0, 1])
            if tip + n > maxtip:
                n = max(0, maxtip - tip)
            addn(n)
        elif kind == "add":
            if tip >= maxtip:
                continue
            prev = m.chain[-1] if rng.chance(4, 5) else rng.choice(m.chain)
            ops.append(["add", m.next_id, prev, 1300000000 + rng.below(100000)])
            if len(m.chain) % K == 0:
                m.saved = len(m.chain)
            m.chain.append(m.next_id)
            m.next_id += 1
        elif kind == "revert":
            cands = [tip, tip - 1, tip - 2, 0, 1]
            for k in range(0, tip // K + 1):
                cands += [k * K - 1, k * K, k * K + 1]
            cands = [c for c in cands if 0 <= c <= tip]
            t = rng.choice(cands)
            if rng.chance(1, 10):
                t = rng.choice([-1, -3, tip + 1, tip + 5])
            ops.append(["revert", t])
            if 0 <= t <= tip:
                m.dead += m.chain[t + 1:][-3:]
                m.chain = m.chain[:t + 1]
                m.saved = t + 1
        elif kind == "save":
            ops.append(["save"])
            m.saved = len(m.chain)
        elif kind == "load":
            ops.append(["reload" if rng.chance(1, 2) else "load"])
            dropped = m.chain[max(m.saved, 1):]
            if m.saved == 0:
                m.dead += m.chain[1:][-3:]
                m.chain = [0]
            else:
                m.dead += m.chain[m.saved:][-3:]
                m.chain = m.chain[:m.saved]
            if dropped and rng.chance(2, 3):
                # a header that was added but never saved is gone after the load: ask for it by hash
                ops.append([rng.choice(["contains", "height"]), rng.choice(dropped[-3:] + dropped[:1])])
        elif kind == "files":
            ops.append(["files"])
        else:
            q = rng.weighted([("hash", 8), ("header", 8), ("time", 5), ("height", 6), ("contains", 6), ("lasthash", 4),
                              ("lastheight", 4), ("getheaders", 8), ("blockhash", 4)])
            if q in ("hash", "header", "time", "blockhash"):
                ops.append([q, rng.choice(interesting_heights(rng, tip))])
            elif q in ("height", "contains"):
                pool = [m.chain[-1], m.chain[0], rng.choice(m.chain), m.next_id + 5]
                if m.dead:
                    pool.append(rng.choice(m.dead))
                for k in range(1, tip // K + 1):
                    pool += [m.chain[k * K - 1], m.chain[k * K]]
                ops.append([q, rng.choice(pool)])
            elif q == "getheaders":
                h = rng.choice(interesting_heights(rng, tip))
                mx = rng.choice([0, 1, 2, 3, 10, 50, tip, tip + 1, tip + 2])
                mx = min(mx, 60) if rng.chance(3, 4) else mx
                ops.append([q, h, mx])
            else:
                ops.append([q])
    # closing queries so that every state-changing suffix is observed
    ops += [["lastheight"], ["lasthash"], ["files"], ["hash", m.tip()], ["hash", max(0, m.tip() - K)], ["height", m.chain[-1]]]
    return ops


def corpus_cases():
    res = []
    d = os.path.join(vlib.VERIF, "corpus", "C09")
    if os.path.isdir(d):
        for f in sorted(os.listdir(d)):
            if f.endswith(".json"):
                j = json.load(open(os.path.join(d, f)))
                res.append({"cfg": j.get("cfg", {"rm_err": 1}), "ops": j["ops"], "origin": "corpus/C09/" + f})
    return res


def suites(tier, rng, replay):
    ncases = 120 if tier == "quick" else 1500
    cases = {0: [], 1: []}
    if replay:
        cases[int(replay.get("cfg", {}).get("rm_err", 1))].append({"cfg": replay.get("cfg", {}), "ops": replay["ops"], "origin": "replay"})
        ncases = 0
    else:
        for c in corpus_cases():
            cases[int(c["cfg"].get("rm_err", 1))].append(c)
            # every corpus history runs on both back ends
            c2 = dict(c)
            c2["cfg"] = dict(c["cfg"], rm_err=1 - int(c["cfg"].get("rm_err", 1)))
            cases[int(c2["cfg"]["rm_err"])].append(c2)
    for i in range(ncases):
        r = rng.fork(i)
        rm = i % 2
        maxtip = 3 * K + 50 if i % 5 == 0 else (2 * K + 50 if i % 3 == 0 else K + 50)
        ops = gen_case(r, r.range(8, 40), maxtip)
        # every seventh history on a node configured for a test network (its own genesis header and Load branch); the
        # first queries are about the genesis block, before anything was saved and loaded again
        if i % 7 == 3:
            cases[rm].append({"cfg": {"rm_err": rm, "testnet": 1}, "ops": [["height", 0], ["hash", 0], ["contains", 0], ["lastheight"]] + ops})
        else:
            cases[rm].append({"cfg": {"rm_err": rm}, "ops": ops})
    groups = []
    for rm in (0, 1):
        for c in cases[rm]:
            c["coq_ops"] = [coq_op(o) for o in c["ops"]]
        if cases[rm]:
            groups.append({"key": "rm_err=%d" % rm, "cases": cases[rm],
                           "model": "cmp_run (run blocksPerKey %s)" % ("true" if rm else "false"),
                           "monitors": {"spec": "c09_monitor blocksPerKey"}})
    return [Suite("blockrepo", "blockrepo",
                  ["From V.model Require Import BlockRepo BlockRepoSpec.", "From V.gen Require Import Consts."], groups)]


def keyfn(rec):
    # stable key of a failure: operation kind at the failing step + kind of the previous state change
    ops = rec.get("ops", [])
    step = rec.get("step", 0)
    opn = ops[step][0] if step < len(ops) else "?"
    prev = next((o[0] for o in reversed(ops[:step]) if o[0] in ("revert", "load", "reload", "save", "add", "addn")), "init")
    return "blockrepo:%s-after-%s" % (opn, prev)


SPEC = {
    "pid": "C09",
    "props_file": "props/C09.v",
    "suites": suites,
    "keyfn": keyfn,
    "trusted_base": [
        "Coq 8.16.1 kernel (coqc); vm_compute used for evaluating the model on the cases; no native_compute",
        "axioms: none declared; Print Assumptions of every theorem recorded under print_assumptions",
        "hand-written model coq/model/BlockRepo.v of internal/storage/blocks.go + Node.GetHeaders/BlockHash, tied to the code by the correspondence run (harness/overlay/internal/verifharness/blockrepo.go)",
        "translator: gen/Consts.v (blocksPerKey) regenerated from /repo on every run",
        "modelled, not verified: wire.BlockHeader 80-byte codec and double-SHA256 (a header is {id, prev, time}; a file is a list of headers), storage back end (per-key atomic map with the two remove-missing behaviours)",
    ],
    "assumptions": [
        "header ids stand for collision-free hashes: a header is only added when its id is not in the chain (valid ops)",
        "storage operations do not fail other than remove-of-a-missing-key (storage faults are property C10)",
    ],
    "rule": "op sequences over {add, addn, revert, save, load, 9 queries, files} on both remove-missing back ends, heights concentrated at 0, 1000k-1, 1000k, 1000k+1 and tip; distinct = distinct (cfg, ops); all have >= 8 ops",
}

if __name__ == "__main__":
    checklib.run_check(SPEC)
