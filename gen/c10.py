"""C10 - a crash at any storage write leaves a chain store the node can resume from; single faults."""
import json
import os
import sys

sys.path.insert(0, os.path.dirname(os.path.abspath(__file__)))
import checklib
import c09
import syncgen
import vlib
from checklib import Suite


def gen_history(rng):
    """Well-behaved sync / reorg / shutdown scenarios (the peer is the trusted peer): headers, blocks in order
       or not, processing, reorgs among processed blocks, restarts; small trees."""
    t = syncgen.Tree(rng, rng.range(3, 9), rng.range(1, 3))
    start = 0 if rng.chance(2, 3) else t.main[rng.below(min(3, len(t.main)))]
    ops = [["version"], ["check"]]
    order = [t.main] + t.branches[1:]
    for br in order:
        path = t.path_to(br[-1])
        ops.append(["headers", t.pairs(path)])
        for b in path:
            if rng.chance(9, 10):
                ops.append(["block", b, 1])
            if rng.chance(2, 3):
                ops.append(["process"])
        for _ in range(len(path)):
            ops.append(["process"])
        if rng.chance(1, 2):
            ops += [["headers", []], ["check"]]      # in sync: saves after every block from now on
        if rng.chance(1, 4):
            ops += [["restartnode"], ["version"], ["check"]]
    ops += [["restartnode"]]
    return {"cfg": {"parents": [[i, p] for i, p in sorted(t.parent.items())], "start": start}, "ops": ops}


def long_histories():
    """Header-only sync (the start block is not seen yet / is far up) crossing the 1000-header file boundary: the full
    file is written when the boundary is crossed; the peer repeats its headers after an error; then a reorg across
    the boundary, shutdown, restart."""
    res = []
    for start, n in ((5000, 1004), (1002, 1006)):
        main = list(range(1, n + 1))
        par = [[i, i - 1] for i in main] + [[3000, 998], [3001, 3000], [3002, 3001]] + [[i, i - 1] for i in range(n + 1, n + 7)]
        first = [[i, i - 1] for i in main]
        more = [[i, i - 1] for i in range(n + 1, n + 7)]
        ops = [["version"], ["check"], ["headers", first], ["headers", first], ["headers", more], ["check"],
               ["headers", first[990:] + more], ["headers", [[3000, 998], [3001, 3000], [3002, 3001]]], ["check"],
               ["restartnode"], ["version"], ["check"], ["headers", more], ["restartnode"]]
        res.append({"cfg": {"parents": par, "start": start}, "ops": ops})
    return res


def is_prefix(a, b):
    return len(a) <= len(b) and b[:len(a)] == a


def chains_of(trace):
    res = []
    for ob in trace:
        if len(ob) >= 10 and ob[0] != 2:
            L = ob[9]
            res.append(ob[10:10 + L])
    return res


def extra(tier, rng, workdir):
    nhist = 40 if tier == "quick" else 600
    cases = [gen_history(rng.fork(31000 + i)) for i in range(nhist)]
    cases += long_histories()[:1 if tier == "quick" else 2]
    for i, c in enumerate(cases):
        c["cfg"] = dict(c["cfg"], crash=1, rm_err=i % 2)
    res, ext = vlib.run_harness("sync", cases, workdir, tag="crash")
    failures = []
    images = 0
    distinct = set()
    fault_runs = []
    for ci, (c, tr, ex) in enumerate(zip(cases, res, ext)):
        observed = [[0]] + chains_of(tr)
        for i, img in enumerate(ex["images"]):
            images += 1
            distinct.add(json.dumps(img))
            bad = None
            if img[0] != 0:
                bad = "load fails on the image after mutation %d" % i
            elif img[1] != 1:
                bad = "loaded chain is not hash-linked after mutation %d" % i
            elif not any(is_prefix(img[2:], ch) for ch in observed):
                bad = "loaded chain is not a prefix of any chain the node held (mixture of branches) after mutation %d" % i
            if bad:
                failures.append({"suite": "crash", "checker": "crash_prefix", "step": i, "cfg": c["cfg"], "ops": c["ops"],
                                 "expected": None, "observed": img, "what": bad, "log": ex["log"][:i + 1][-6:], "trace": tr})
        # single faults: every storage operation after start-up (bounded per history in the quick tier)
        nops = ex["storage_ops"]
        js = list(range(1, nops + 1))
        cap = (40 if ci < nhist else 16) if tier == "quick" else 400
        if len(js) > cap:
            # every write / remove is tried; reads are sampled
            muts = sorted(set(ex.get("mutation_ops") or []))
            r = rng.fork(ci)
            if len(muts) > cap:
                muts = sorted(r.shuffle(muts)[:cap])
            rest = [j for j in js if j not in set(muts)]
            js = sorted(set(muts + r.shuffle(rest)[:max(0, cap - len(muts))]))
        for j in js:
            fault_runs.append((ci, j))
    fcases = [{"cfg": dict(cases[ci]["cfg"], crash=0, fail_at=j), "ops": cases[ci]["ops"]} for ci, j in fault_runs]
    fres, fext = vlib.run_harness("sync", fcases, workdir, tag="fault") if fcases else ([], [])
    hit = 0
    recheck = []
    for (ci, j), fc, tr, ex in zip(fault_runs, fcases, fres, fext):
        if not ex["fault_hit"]:
            continue
        hit += 1
        observed = [[0]] + chains_of(tr) + chains_of(res[ci])
        last = tr[-1]
        mem_ok = len(last) >= 10 and last[7] == 1 and last[8] == 1
        al = ex.get("after_fault_load") or [1]
        load_ok = al[0] == 0 and al[1] == 1 and any(is_prefix(al[2:], ch) for ch in observed)
        panicked = any(ob and ob[0] == 2 for ob in tr)
        # every state after the fault, not only the last one: an inconsistent chain in memory must be
        # recovered by a restart AT THAT POINT (checked by a second run below)
        bad_steps = [k for k, ob in enumerate(tr) if len(ob) >= 10 and ob[0] != 2 and (ob[7] != 1 or ob[8] != 1)]
        if bad_steps:
            recheck.append((ci, j, bad_steps[0], fc, tr))
        if panicked or not (mem_ok or load_ok) or not load_ok:
            what = "panic after fault" if panicked else ("restart after the fault does not load a linked single-branch chain" if not load_ok
                                                         else "inconsistent")
            failures.append({"suite": "fault", "checker": "single_fault", "step": j, "cfg": fc["cfg"], "ops": fc["ops"],
                             "expected": None, "observed": al, "what": what, "trace": tr})
    if recheck:
        rc_cases = [{"cfg": fc["cfg"], "ops": fc["ops"][:k + 1] + [["restartnode"]]} for (_, _, k, fc, _) in recheck]
        rc_res, _ = vlib.run_harness("sync", rc_cases, workdir, tag="fault_restart")
        for (ci, j, k, fc, tr), rtr in zip(recheck, rc_res):
            last = rtr[-1]
            if not (len(last) >= 10 and last[0] == 0 and last[7] == 1 and last[8] == 1):
                failures.append({"suite": "fault", "checker": "single_fault", "step": j, "cfg": fc["cfg"], "ops": rc_cases[0]["ops"] if False else fc["ops"][:k + 1] + [["restartnode"]],
                                 "expected": None, "observed": last[:12], "trace": rtr,
                                 "what": "after the fault the chain in memory is not hash-linked / not inverse (op %d) and a restart at that point does not recover a consistent chain" % k})
    # repository level with the real file size: histories crossing the 1000-header boundaries
    rcases = []
    for i in range(12 if tier == "quick" else 200):
        r = rng.fork(52000 + i)
        ops = [o for o in c09.gen_case(r, r.range(8, 24), 2050 if i % 3 else 3050) if o[0] in ("add", "addn", "revert", "save", "load", "reload")]
        rcases.append({"cfg": {"rm_err": i % 2, "crash": 1}, "ops": ops})
    rres, rext = vlib.run_harness("blockrepo", rcases, workdir, tag="repocrash")
    rimages = 0
    for c, ex in zip(rcases, rext):
        for i, img in enumerate(ex["images"]):
            rimages += 1
            if img[0] != 0 or img[1] != 1 or img[2] != 1:
                what = "load fails" if img[0] != 0 else ("not linked / inverse" if img[1] != 1 else "not a prefix of a chain the repository held")
                failures.append({"suite": "repocrash", "checker": "crash_prefix", "step": i, "cfg": c["cfg"], "ops": c["ops"],
                                 "expected": None, "observed": img, "what": "repository: " + what + " after mutation %d" % i,
                                 "log": ex["log"][:i + 1][-6:]})
    # a save whose storage write is in flight while another goroutine reverts (ProcessBlock / shutdown save vs the
    # headers handler's reorg): the repository must behave as "save, then revert" - also for a restart afterwards
    race_cases, twin_cases = [], []
    for tip, saved_at, t in ((2001, 1990, 1500), (2001, 0, 999), (2003, 2001, 1999), (2000, 1500, 1000), (1001, 1001, 998),
                             (1005, 0, 1001), (2002, 2000, 2000), (3001, 2500, 1700))[:4 if tier == "quick" else 8]:
        pre = []
        if saved_at > 0:
            pre += [["addn", 1, saved_at], ["save"], ["addn", saved_at + 1, tip - saved_at]]
        else:
            pre += [["addn", 1, tip]]
        post = [["files"], ["lastheight"], ["lasthash"], ["hash", t], ["hash", t + 1], ["load"], ["files"], ["lastheight"],
                ["lasthash"], ["addn", 5001, 3], ["save"], ["files"], ["load"], ["lastheight"], ["lasthash"]]
        race_cases.append({"cfg": {"rm_err": 1}, "ops": pre + [["save_race_revert", t]] + post})
        twin_cases.append({"cfg": {"rm_err": 1}, "ops": pre + [["save"], ["revert", t]] + post})
    race_res, _ = vlib.run_harness("blockrepo", race_cases + twin_cases, workdir, tag="saverace")
    n = len(race_cases)
    reached = 0
    for c, rr, tr in zip(race_cases, race_res[:n], race_res[n:]):
        k = len(c["ops"]) - 15
        reached += rr[k - 1][1] if len(rr[k - 1]) > 1 else 0
        tail_r, tail_t = rr[k:], tr[k + 1:]
        if tail_r != tail_t:
            d = next(i for i, (a, b) in enumerate(zip(tail_r, tail_t)) if a != b)
            failures.append({"suite": "saverace", "checker": "save_race", "step": k + d, "cfg": c["cfg"], "ops": c["ops"],
                             "expected": tail_t[d], "observed": tail_r[d], "trace": rr,
                             "what": "a revert that ran while a save's storage write was in flight left the store different from "
                                     "'save, then revert' (op %s: %s instead of %s)" % (c["ops"][k + d], tail_r[d][:8], tail_t[d][:8])})
    # a restart during which one storage read fails: either the load reports it (the process is started again), or
    # what it loaded is the whole stored chain - never a silently shorter chain under which later writes land
    lf_cases, lf_twins = [], []
    for tip, j in ((2500, 1), (2500, 2), (2500, 3), (2500, 4), (1500, 1), (1500, 2), (999, 1), (3000, 2))[:5 if tier == "quick" else 8]:
        pre = [["addn", 1, tip], ["save"]]
        post = [["lastheight"], ["lasthash"], ["addn", 7001, 230], ["save"], ["files"], ["load"], ["lastheight"], ["lasthash"],
                ["hash", min(tip, 2000)], ["hash", min(tip, 1999)], ["addn", 8001, 800], ["files"], ["load"], ["lastheight"]]
        lf_cases.append({"cfg": {"rm_err": 1}, "ops": pre + [["load_fault", j]] + post})
        lf_twins.append({"cfg": {"rm_err": 1}, "ops": pre + [["load"]] + post})
    lf_res, _ = vlib.run_harness("blockrepo", lf_cases + lf_twins, workdir, tag="loadfault")
    lf_fired = 0
    for c, rr, tr in zip(lf_cases, lf_res[:len(lf_cases)], lf_res[len(lf_cases):]):
        k = 3
        lf_fired += rr[2][1] if len(rr[2]) > 1 else 0
        if rr[2][0] != 0:
            failures.append({"suite": "loadfault", "checker": "load_fault", "step": 2, "cfg": c["cfg"], "ops": c["ops"], "expected": [0],
                             "observed": rr[2], "trace": rr, "what": "after a restart with one failing read the store cannot be loaded any more"})
        elif rr[k:] != tr[k:]:
            d = next(i for i, (a, b) in enumerate(zip(rr[k:], tr[k:])) if a != b)
            failures.append({"suite": "loadfault", "checker": "load_fault", "step": k + d, "cfg": c["cfg"], "ops": c["ops"],
                             "expected": tr[k + d], "observed": rr[k + d], "trace": rr,
                             "what": "a restart during which one storage read failed (load_fault %d: load %s) left the node with another chain "
                                     "than a restart without the fault (op %s: %s instead of %s)" % (
                                         c["ops"][2][1], "succeeded" if rr[2][2:] == [1] else "reported the error", c["ops"][k + d],
                                         rr[k + d][:8], tr[k + d][:8])})
    # a revert during which one storage operation fails (the delete of a higher file, the read or the truncating
    # rewrite of the lower one): either the revert reports it - and succeeds when tried again - or it is complete;
    # afterwards, and after a restart, the store is what a fault-free revert leaves
    rf_cases, rf_twins = [], []
    for tip, saved, t in ((2300, 2300, 1800), (2300, 2100, 1800), (3100, 3100, 1500), (1200, 1200, 700))[:3 if tier == "quick" else 4]:
        for j in ([1, 2, 3, -1, -2, -3, -4] if tier == "quick" else [1, 2, 3, 4, 5, -1, -2, -3, -4, -5]):
            # j > 0: the j-th storage operation (the first are reads); j < 0: the |j|-th write / delete of the revert
            pre = [["addn", 1, saved], ["save"]] + ([["addn", saved + 1, tip - saved]] if tip > saved else [])
            post = [["lastheight"], ["lasthash"], ["files"], ["hash", t], ["load"], ["lastheight"], ["lasthash"], ["addn", 9001, 300],
                    ["save"], ["files"], ["load"], ["lastheight"], ["lasthash"], ["hash", t + 200], ["hash", (t // 1000 + 1) * 1000]]
            rf_cases.append({"cfg": {"rm_err": 1}, "ops": pre + [["revert_fault", t, j]] + post})
            rf_twins.append({"cfg": {"rm_err": 1}, "ops": pre + [["revert", t]] + post})
    rf_res, _ = vlib.run_harness("blockrepo", rf_cases + rf_twins, workdir, tag="revertfault")
    rf_fired = 0
    for c, rr, tr in zip(rf_cases, rf_res[:len(rf_cases)], rf_res[len(rf_cases):]):
        k = len(c["ops"]) - 15
        ob = rr[k - 1]
        rf_fired += ob[1] if len(ob) > 1 else 0
        if ob[0] != 0:
            # the revert reported the fault and cannot be repeated in this process (the node keeps the chain it had until
            # it is restarted): the property then asks that a restart recovers a chain - every later restart, also after
            # further syncing and a clean save, must load, and what it loads must be linked (ids = heights below the
            # blocks added after the restart)
            bad = next((i for i in range(k, len(rr)) if c["ops"][i][0] == "load" and rr[i] != [0]), None)
            if bad is not None:
                failures.append({"suite": "revertfault", "checker": "revert_fault", "step": bad, "cfg": c["cfg"], "ops": c["ops"],
                                 "expected": [0], "observed": rr[bad], "trace": rr,
                                 "what": "a revert during which storage operation %d failed could not be repeated, and after a restart, "
                                         "further blocks and a clean save the store cannot be loaded any more (a file above the "
                                         "removed ones was written again from the stale in-memory chain)" % c["ops"][k - 1][2]})
        elif rr[k:] != tr[k:]:
            d = next(i for i, (a, b) in enumerate(zip(rr[k:], tr[k:])) if a != b)
            failures.append({"suite": "revertfault", "checker": "revert_fault", "step": k + d, "cfg": c["cfg"], "ops": c["ops"],
                             "expected": tr[k + d], "observed": rr[k + d], "trace": rr,
                             "what": "a revert during which storage operation %d failed (%s) left another store than a fault-free revert "
                                     "(op %s: %s instead of %s)" % (c["ops"][k - 1][2], "reported and repeated" if ob[2:] == [1] else "reported success",
                                                                  c["ops"][k + d], rr[k + d][:8], tr[k + d][:8])})
    cov = {"revert_fault_scenarios": len(rf_cases), "revert_faults_fired": rf_fired, "load_fault_scenarios": len(lf_cases), "load_faults_fired": lf_fired, "save_race_scenarios": n, "save_race_pause_point_reached": reached, "histories": nhist, "crash_images": images, "repository_histories_K1000": len(rcases), "repository_crash_images": rimages, "distinct_images": len(distinct), "single_fault_runs": len(fcases),
           "faults_that_fired": hit,
           "samples_crash": [{"ops": cases[0]["ops"][:12], "log": ext[0]["log"][:8], "images": ext[0]["images"][:8]}]}
    return {"failures": failures, "evaluations": images + rimages + len(fcases), "coverage": cov}


def suites(tier, rng, replay):
    # the repository-level model the crash theorem is about is tied to the code by C09's correspondence suite
    return c09.suites("quick", rng, replay) if not replay or replay.get("suite") == "blockrepo" else []


def keyfn(rec):
    if rec.get("suite") == "revertfault":
        ops = rec.get("ops", [])
        st = rec.get("step", 0)
        return "revertfault:%s" % (ops[st][0] if 0 <= st < len(ops) else "?")
    if rec.get("suite") == "loadfault":
        ops = rec.get("ops", [])
        st = rec.get("step", 0)
        return "loadfault:%s" % (ops[st][0] if 0 <= st < len(ops) else "?")
    if rec.get("suite") == "saverace":
        ops = rec.get("ops", [])
        st = rec.get("step", 0)
        return "saverace:%s" % (ops[st][0] if 0 <= st < len(ops) else "?")
    if rec.get("suite") in ("crash", "fault", "repocrash"):
        ops = rec.get("ops", [])
        return "%s:%s" % (rec.get("checker"), (rec.get("what") or "").split(" after mutation")[0])
    return c09.keyfn(rec)


SPEC = {
    "pid": "C10",
    "props_file": "props/C10.v",
    "suites": suites,
    "extra": extra,
    "keyfn": keyfn,
    "trusted_base": [
        "Coq 8.16.1 kernel (coqc); no native_compute; axioms: none declared (Print Assumptions recorded)",
        "theorem level: the block repository model (BlockRepo.v, tied to the code by the C09 correspondence suite, re-run here) with its storage mutations made explicit",
        "implementation level: exhaustive enumeration of every prefix of the real mutation log (recording storage wrapper) of generated sync / reorg / shutdown histories, a fresh real Node loaded on each image; every single-operation fault (j-th storage operation returns an error) per history (sampled to 40 per history in the quick tier)",
    ],
    "assumptions": ["per-key atomic writes: a crash inside one back-end Write (torn file) is outside /repo",
                    "convergence after the restart is property C01"],
    "rule": "histories: well-behaved sync of generated trees with forks (reorgs among processed blocks), in-sync saves, restarts; crash point = every prefix of the storage mutation log; fault = every j-th storage operation; distinct = distinct loaded images",
}

if __name__ == "__main__":
    checklib.run_check(SPEC)
