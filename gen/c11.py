"""C11 - checked through the transaction pipeline suite (gen/txflow.py)."""
import os
import sys

sys.path.insert(0, os.path.dirname(os.path.abspath(__file__)))
import checklib
import txflow

SPEC = txflow.make_spec("C11", "histories over 3-7 txs / 2-5 shared outpoints / 3 sources with inv, blocks (also refused ones), delay checks, clock advances, restarts, in-sync toggles; all arrival orders x sources of a 3-tx conflict pattern; confirmation of seen/unseen conflicting txs; restart at every position of a reference history; distinct = distinct (cfg, ops)")

# Stop while the node is NOT in sync, with a delivered relevant unconfirmed tx: the real Node.Run / Stop against a
# scripted peer (harness component "shutdown", scenarios and monitor of gen/c19.py / model/Shutdown.v): what a
# fresh process loads from the store equals the in-memory set, and a re-announcement after the restart is not
# delivered as a new tx again.
import c19

_race_extra = SPEC["extra"]
_flow_keyfn = SPEC["keyfn"]


def _extra(tier, rng, workdir):
    a = _race_extra(tier, rng, workdir)
    b = c19.persist_scenarios(tier, rng, workdir)
    out = {"failures": list(a.get("failures", [])) + list(b.get("failures", [])),
           "red": list(a.get("red", [])) + list(b.get("red", [])),
           "evaluations": a.get("evaluations", 0) + b.get("evaluations", 0),
           "coverage": dict(a.get("coverage", {}))}
    out["coverage"].update(b.get("coverage", {}))
    return out


SPEC["extra"] = _extra
SPEC["keyfn"] = lambda rc: c19.keyfn(rc) if rc.get("suite") == "shutdown_persist" else _flow_keyfn(rc)
SPEC["assumptions"] = list(SPEC["assumptions"]) + [
    "persistence across a clean Stop is checked end to end on the real run loop (gen/c19.py persist_scenarios): Stop while out of sync after a relevant tx was delivered (in sync cleared by a block inventory / tx fed through Node.HandleTx during the initial sync), stored unconfirmed set (ids and flags, fresh TxRepository.Load) = in-memory set, stored tip and peers likewise, restart on the same storage, re-announcement not delivered again"]

if __name__ == "__main__":
    checklib.run_check(SPEC)
