"""C12 - untrusted peers cannot alter the chain, vouch for transactions or stall syncing."""
import json
import os
import sys

sys.path.insert(0, os.path.dirname(os.path.abspath(__file__)))
import checklib
import syncgen
import txflow
import vlib

MON = {"c12": "c12_monitor", "c12gate": "c12_gate_monitor UntrustedHeaderDelta", "c02": "c02_monitor maxRequestedBlocks"}


def is_untrusted(o):
    return o[0] in ("ublock", "uheaders", "utx", "uinv")


def suites(tier, rng, replay):
    res = []
    if not replay or replay.get("suite") == "sync_u":
        res.append(syncgen.suite(tier, rng, replay, MON, untrusted=True, name="sync_u"))
    if not replay or replay.get("suite") == "txflow":
        res.append(txflow.suite(tier, rng, replay, txflow.make_spec("C12", "")["monitors"]))
    return res


def extra(tier, rng, workdir):
    """Two-run check on the implementation itself: the trusted part of the observations of T interleaved with U
       equals the observations of T alone."""
    cases = syncgen.make_cases(tier, rng.fork(77), None, untrusted=True)[:120 if tier == "quick" else 1500]
    with_u = [{"cfg": c["cfg"], "ops": c["ops"]} for c in cases]
    without = [{"cfg": c["cfg"], "ops": [o for o in c["ops"] if not is_untrusted(o)]} for c in cases]
    r1, _ = vlib.run_harness("sync", with_u, workdir, tag="tworun_u")
    r2, _ = vlib.run_harness("sync", without, workdir, tag="tworun_t")
    failures = []
    nu = 0
    for c, a, b in zip(cases, r1, r2):
        ta = [ob for o, ob in zip(c["ops"], a) if not is_untrusted(o)]
        nu += sum(1 for o in c["ops"] if is_untrusted(o))
        if ta != b:
            step = next((i for i, (x, y) in enumerate(zip(ta, b)) if x != y), min(len(ta), len(b)))
            failures.append({"suite": "tworun", "checker": "tworun", "step": step, "cfg": c["cfg"], "ops": c["ops"],
                             "expected": b[step] if step < len(b) else None, "observed": ta[step] if step < len(ta) else None,
                             "trace": a})
    vf, vn = txflow.vouch_failures(workdir)
    failures += vf
    vcases = [None] * vn
    # "cannot stall syncing": an untrusted peer that has stopped reading its socket (its outgoing channel is full) while its
    # connection's periodic check has transactions to ask for again: that check blocks in the transmit - and the trusted
    # peer's next block, whose clean-up visits every tracker, must still be processed
    scases = []
    for nconn, who, pre in ((3, 2, [["inv", 1, 1], ["inv", 2, 1], ["inv", 2, 1]]),
                            (3, 1, [["inv", 2, 1], ["inv", 1, 1], ["inv", 1, 2], ["inv", 2, 2], ["inv", 1, 2]]),
                            (2, 1, [["inv", 0, 1], ["inv", 1, 1]])):
        scases.append({"cfg": {"nconn": nconn, "txs": [[1, [9010], 0], [2, [9020], 0], [3, [9030], 0]]},
                       "ops": pre + [["advance", 3500], ["stall_confirm", who, [3]], ["tracked", who], ["confirm", [1]], ["tracked", who]]})
    sres, _ = vlib.run_harness("tracker", scases, workdir, tag="stall", timeout=300)
    for c, tr in zip(scases, sres):
        i = next(k for k, o in enumerate(c["ops"]) if o[0] == "stall_confirm")
        ob = tr[i]
        if list(ob[:1]) != [0] or (len(ob) > 2 and ob[2] != 1):
            failures.append({"suite": "stall", "checker": "stall", "step": i, "cfg": c["cfg"], "ops": c["ops"], "trace": tr,
                             "expected": [323], "observed": list(ob),
                             "what": "an untrusted peer that does not read its socket stalls the processing of the trusted peer's block: its "
                                     "connection's tracker check blocks in the transmit holding the tracker, the block's clean-up waits for it"})
    vcases += [None] * len(scases)
    # "cannot stall syncing": an untrusted peer's double spend arriving while the trusted peer's block is inside
    # ProcessBlock (pause point in the announcement): both threads must finish.  From the pipeline's race replays only
    # the ones in which the injected tx comes from the untrusted peer count here.
    rx = txflow.race_extra(tier, rng, workdir)
    for f in rx["failures"]:
        ops, st = f.get("ops", []), f.get("step", 0)
        if 0 <= st < len(ops) and ops[st][0] == "race_block_conflict" and ops[st][5] == 1 and (f.get("expected") or [0])[0] in (105, 107):
            failures.append(f)
    rcov = {k: v for k, v in rx["coverage"].items() if k.startswith("block_conflict_race")}
    return {"failures": failures, "evaluations": 2 * len(cases) + len(vcases) + 4,
            "coverage": {**rcov, "two_run_pairs": len(cases), "untrusted_steps_interleaved": nu, "vouching_scenarios": len(vcases),
                         "reannounced_with_orphaned_proof_not_judged": txflow.stale_coverage()}}


def accept(rec):
    if txflow.note_stale(rec):
        return False
    if rec.get("suite") == "txflow" and rec.get("checker") == "flow":
        code = (rec.get("expected") or [0])[0]
        ops, st = rec.get("ops", []), rec.get("step", 0)
        # vouching: safe needs the trusted mark (122); a tx an untrusted peer sends is never safe on arrival (126),
        # in particular not from the state stored when a block that was orphaned since confirmed it; the trusted
        # peer's traffic is not processed before in sync (131)
        untrusted_tx = 0 <= st < len(ops) and ops[st][0] == "tx" and ops[st][2] == 1
        return code in (122, 131) or (code == 126 and untrusted_tx) or code >= 197
    if rec.get("checker") == "c02":
        return False                                  # reported by C02
    return True


def keyfn(rec):
    if rec.get("suite") == "txflow-race":
        return txflow.race_key(rec)
    ops = rec.get("ops", [])
    step = rec.get("step", 0)
    opn = ops[step][0] if 0 <= step < len(ops) else "?"
    code = (rec.get("expected") or [0])[0] if rec.get("checker") not in ("model", "tworun") else 0
    return "%s:%s:%s:%s" % (rec.get("suite"), rec.get("checker"), code, opn)


SPEC = {
    "pid": "C12",
    "props_file": "props/C12.v",
    "suites": suites,
    "extra": extra,
    "accept_failure": accept,
    "keyfn": keyfn,
    "trusted_base": [
        "Coq 8.16.1 kernel (coqc); vm_compute for evaluating model and monitors on the cases; no native_compute",
        "axioms: none declared; Print Assumptions recorded under print_assumptions",
        "hand-written models Sync.v (untrusted block / headers / tx / inv steps, header verification) and TxFlow.v (untrusted source), tied to the code by the correspondence runs through the real untrusted handler map (NewUntrustedMessageHandlers) sharing the real trusted State / MemPool / tx channel",
        "the two-run comparison (with / without untrusted traffic) is additionally executed on the implementation itself",
    ],
    "assumptions": ["untrusted traffic reaches the node only through the untrusted handler map (UntrustedNode.handleMessage)",
                    "transaction-level effects of a verified untrusted peer (unconfirmed, not safe deliveries and double-spend evidence) are those of source SUntrusted in the transaction pipeline model (C03/C05/C07)"],
    "rule": "sync histories as for C02 interleaved with untrusted block (valid / forged, for outstanding requests), headers (linked, unlinked, empty, low), tx and inv messages; each history is also run without its untrusted steps; distinct = distinct (cfg, ops)",
}

if __name__ == "__main__":
    checklib.run_check(SPEC)
