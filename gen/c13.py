"""C13 - block request window: bounded, in order, accounted."""
import json
import os
import sys

sys.path.insert(0, os.path.dirname(os.path.abspath(__file__)))
import checklib
import vlib
from checklib import Suite

TABLE = {"announce": "OAnnounce", "deliver": "ODeliver", "pop": "OPop", "next": "ONext", "clearall": "OClearAll",
         "clearafter": "OClearAfter", "setlast": "OSetLast", "reset": "OReset", "lasthash": "OLastHash",
         "reqhash": "OReqHash", "isrequested": "OIsRequested", "istoberequested": "OIsToBeRequested"}


def coq_op(o):
    a = [vlib.z(x) for x in o[1:]]
    return "(" + " ".join([TABLE[o[0]]] + a) + ")" if a else TABLE[o[0]]


def gen_case(rng, nops, big):
    """Block tree: id -> parent.  Ids grow along branches; forks reuse a parent."""
    parent = {}
    next_id = 1
    tail = 0          # generator's idea of the last announced hash
    announced = []    # ids in the generator's idea of the window
    ops = []
    sizes = [1, 1000, 250000, 40000000, 60000000] if big else [1, 100, 1000, 999999]
    for _ in range(nops):
        k = rng.weighted([("announce", 30), ("deliver", 25), ("pop", 14), ("next", 10), ("clearafter", 5),
                          ("clearall", 2), ("query", 8), ("setlast", 1), ("reset", 1), ("wrong", 4)])
        if k == "announce":
            n = rng.choice([1, 1, 2, 3, 12])
            for _i in range(n):
                h = next_id
                next_id += 1
                parent[h] = tail
                ops.append(["announce", tail, h])
                announced.append(h)
                tail = h
        elif k == "wrong":
            # announcement that does not link to the tail (fork without clear, or unknown parent)
            h = next_id
            next_id += 1
            p = rng.choice(announced[:-1]) if len(announced) > 1 and rng.chance(1, 2) else next_id + 50
            parent[h] = p
            ops.append(["announce", p, h])
        elif k == "deliver":
            pool = announced[:12] if announced else [next_id + 7]
            h = rng.choice(pool) if rng.chance(5, 6) else rng.choice([next_id + 9, 0] + announced[-2:])
            ops.append(["deliver", h, rng.choice(sizes)])
        elif k == "pop":
            ops.append(["pop"])
            # we do not know whether it popped; keep the generator's list approximately right
            if announced and rng.chance(1, 2):
                announced.pop(0)
        elif k == "next":
            ops.append(["next"])
        elif k == "clearafter":
            if announced and rng.chance(4, 5):
                i = rng.below(len(announced))
                h = announced[i]
                ops.append(["clearafter", h])
                announced = announced[:i + 1]
                tail = h
            else:
                ops.append(["clearafter", next_id + 3])
        elif k == "clearall":
            ops.append(["clearall"])
            announced = []
            ops.append(["lasthash"])
            tail = rng.choice([0, tail])
            if rng.chance(1, 2):
                ops.append(["setlast", tail])
        elif k == "setlast":
            h = rng.choice([0, tail] + announced[:1])
            ops.append(["setlast", h])
        elif k == "reset":
            ops.append(["reset"])
            announced = []
            tail = 0 if not ops else tail
        else:
            q = rng.choice(["lasthash", "reqhash", "isrequested", "istoberequested"])
            if q == "lasthash":
                ops.append([q])
            elif q == "reqhash":
                ops.append([q, rng.choice([0, 0, 1, 1, 2, 5, 11, -1])])
            else:
                ops.append([q, rng.choice(announced + [0, next_id + 1])])
    ops += [["lasthash"], ["pop"], ["next"], ["lasthash"]]
    return ops


def exhaustive_cases(depth):
    """All sequences of the given depth over a small alphabet on a 5-block tree with one fork
       (0 -> 1 -> 2 -> 3, 1 -> 4 -> 5)."""
    alphabet = [["announce", 0, 1], ["announce", 1, 2], ["announce", 2, 3], ["announce", 1, 4], ["announce", 4, 5],
                ["deliver", 1, 10], ["deliver", 2, 20], ["deliver", 4, 40], ["deliver", 9, 5],
                ["pop"], ["next"], ["clearafter", 1], ["clearall"]]
    seqs = [[]]
    for _ in range(depth):
        seqs = [s + [a] for s in seqs for a in alphabet]
    return seqs


def suites(tier, rng, replay):
    cases = []
    if replay:
        cases.append({"ops": replay["ops"], "origin": "replay"})
    else:
        d = os.path.join(vlib.VERIF, "corpus", "C13")
        if os.path.isdir(d):
            for f in sorted(os.listdir(d)):
                if f.endswith(".json"):
                    cases.append({"ops": json.load(open(os.path.join(d, f)))["ops"], "origin": "corpus/C13/" + f})
        n = 250 if tier == "quick" else 3000
        for i in range(n):
            r = rng.fork(i)
            cases.append({"ops": gen_case(r, r.range(10, 60), i % 3 == 0)})
        depth = 3 if tier == "quick" else 4
        for s in exhaustive_cases(depth):
            cases.append({"ops": s + [["pop"], ["next"]], "origin": "exhaustive-depth-%d" % depth})
    for c in cases:
        c["coq_ops"] = [coq_op(o) for o in c["ops"]]
    groups = [{"key": "requests", "cases": cases,
               "model": "cmp_run (run maxRequestedBlocks maxPendingBlockSize)",
               "monitors": {"refqueue": "c13_monitor maxRequestedBlocks maxPendingBlockSize"}}]
    return [Suite("requests", "requests",
                  ["From V.model Require Import Requests RequestsSpec.", "From V.gen Require Import Consts."], groups)]


def keyfn(rec):
    ops = rec.get("ops", [])
    step = rec.get("step", 0)
    opn = ops[step][0] if step < len(ops) else "?"
    exp, obs = rec.get("expected") or [], rec.get("observed") or []
    what = "digest" if exp[:len(exp) - 3] == obs[:len(obs) - 3] else "result"
    return "requests:%s:%s" % (opn, what)


SPEC = {
    "pid": "C13",
    "props_file": "props/C13.v",
    "suites": suites,
    "keyfn": keyfn,
    "trusted_base": [
        "Coq 8.16.1 kernel (coqc); vm_compute for evaluating model and reference queue on the cases; no native_compute",
        "axioms: none declared; Print Assumptions recorded under print_assumptions",
        "hand-written model coq/model/Requests.v of internal/state/requests.go (+ Reset), tied to the code by the correspondence run on the real state.State (harness requests.go; pendingBlockSize read through a verif-tagged accessor)",
        "translator: gen/Consts.v (maxRequestedBlocks, maxPendingBlockSize) regenerated from /repo on every run",
        "modelled, not verified: a block body is its SerializeSize; hashes are ids",
    ],
    "assumptions": ["every State method is atomic (they all hold state.lock)",
                    "wire-level part (which getdata goes out) is covered through the sync model (C02/C01)"],
    "rule": "random sequences over the 12 operations on generated block trees (length 14..64) plus every sequence of depth 3 (quick) / 4 (thorough) over a 13-letter alphabet on a 5-block tree with one fork; distinct = distinct op lists",
}

if __name__ == "__main__":
    checklib.run_check(SPEC)
