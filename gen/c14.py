"""C14 - announced transactions are requested from one peer at a time, then re-requested."""
import json
import os
import sys

sys.path.insert(0, os.path.dirname(os.path.abspath(__file__)))
import checklib
import vlib
from checklib import Suite


def zl(xs):
    return "[" + "; ".join(vlib.z(x) for x in xs) + "]"


def coq_op(o, bodies):
    n = o[0]
    if n == "inv":
        return "(OInv %d %s)" % (o[1], vlib.z(o[2]))
    if n == "check":
        return "(OCheck %d)" % o[1]
    if n == "body":
        return "(OBody %s %s %s)" % (vlib.z(o[1]), zl(bodies[o[1]]), "true" if o[2] else "false")
    if n == "confirm":
        return "(OConfirm %s)" % zl(o[1])
    if n == "advance":
        return "(OAdvance %s)" % vlib.z(o[1])
    if n == "tracked":
        return "(OTracked %d)" % o[1]
    if n == "setinsync":
        return "(OAdvance 0)"      # not an operation of the tracker model: what a block confirms does not depend on it
    raise KeyError(n)


def gen_case(rng, nops):
    nconn = rng.range(2, 4)
    ntx = rng.range(2, 5)
    bodies = {t: [9000 + t * 10 + k for k in range(rng.range(1, 2))] for t in range(1, ntx + 1)}
    ops = []
    nadv = 0
    confirmed = set()
    for _ in range(nops):
        k = rng.weighted([("inv", 40), ("check", 22), ("body", 10), ("confirm", 5), ("advance", 14), ("tracked", 9)])
        t = rng.range(1, ntx)
        if k == "inv":
            ops.append(["inv", rng.below(nconn), t])
        elif k == "check":
            ops.append(["check", rng.below(nconn)])
        elif k == "body":
            if t not in confirmed:
                ops.append(["body", t, int(rng.chance(1, 2))])
        elif k == "confirm":
            if t not in confirmed:
                confirmed.add(t)
                ops.append(["confirm", [t]])
        elif k == "advance":
            if nadv < 9:
                nadv += 1
                ops.append(["advance", rng.choice([11000, 41000, 1100, 1100, 0])])   # real drift << 1 s; window is 3 s
        else:
            ops.append(["tracked", rng.below(nconn)])
    for c in range(nconn):
        ops.append(["tracked", c])
    return {"cfg": {"nconn": nconn, "txs": [[t, bodies[t], 0] for t in sorted(bodies)]}, "ops": ops, "bodies": bodies}


def suites(tier, rng, replay):
    cases = []
    if replay:
        bodies = {t: b for t, b, _ in replay["cfg"]["txs"]}
        cases.append({"cfg": replay["cfg"], "ops": replay["ops"], "bodies": bodies, "origin": "replay"})
    else:
        d = os.path.join(vlib.VERIF, "corpus", "C14")
        if os.path.isdir(d):
            for f in sorted(os.listdir(d)):
                if f.endswith(".json"):
                    j = json.load(open(os.path.join(d, f)))
                    cases.append({"cfg": j["cfg"], "ops": j["ops"], "bodies": {t: b for t, b, _ in j["cfg"]["txs"]},
                                  "origin": "corpus/C14/" + f})
        # one tracker check with more due txids than fit one getdata batch (the tracker flushes every 100 items)
        for ntx, nconn in ((102, 2), (205, 3)) if tier == "quick" else ((101, 2), (102, 2), (205, 3), (310, 2)):
            bodies = {t: [9000 + t * 10] for t in range(1, ntx + 1)}
            ops = [["inv", 1, t] for t in range(1, ntx + 1)] + [["inv", nconn - 1 if nconn > 2 else 0, t] for t in range(1, ntx + 1)]
            ops += [["advance", 4100], ["check", nconn - 1 if nconn > 2 else 0], ["tracked", 0], ["tracked", 1],
                    ["advance", 1100], ["check", 1], ["check", 0]]
            cases.append({"cfg": {"nconn": nconn, "txs": [[t, bodies[t], 0] for t in sorted(bodies)]}, "ops": ops,
                          "bodies": bodies, "origin": "scripted-bulk"})
        # blocks processed while the node is out of sync (after a block inventory / a reorg header) confirm their
        # transactions all the same: the announcements are forgotten on every connection
        for nconn, asked, other in ((3, 1, 2), (3, 0, 1), (2, 1, 0), (3, 2, 0)):
            bodies = {t: [9000 + t * 10] for t in range(1, 4)}
            ops = [["inv", asked, 1], ["inv", other, 1], ["inv", other, 2], ["advance", 1100], ["setinsync", 0],
                   ["confirm", [1]], ["confirm", [3]], ["setinsync", 1]] + [["tracked", c] for c in range(nconn)]
            ops += [["advance", 4100], ["check", other], ["check", asked]] + [["tracked", c] for c in range(nconn)]
            cases.append({"cfg": {"nconn": nconn, "txs": [[t, bodies[t], 0] for t in sorted(bodies)]}, "ops": ops,
                          "bodies": bodies, "origin": "scripted-out-of-sync-confirm"})
        n = 250 if tier == "quick" else 4000
        for i in range(n):
            r = rng.fork(14000 + i)
            cases.append(gen_case(r, r.range(8, 40)))
    for c in cases:
        c["coq_ops"] = [coq_op(o, c["bodies"]) for o in c["ops"]]
        c["model"] = "cmp_run (run %d)" % c["cfg"]["nconn"]
        c.pop("bodies")
    return [Suite("tracker", "tracker", ["From V.model Require Import MemPool Tracker."],
                  [{"key": "tracker", "cases": cases, "per_case_model": True,
                    "monitors": {"c14": "c14_monitor",
                                 "hyp_valid": "fun ops _ => if c14_valid 4 ops then None else Some (0, [900])"}}])]


def keyfn(rec):
    ops = rec.get("ops", [])
    step = rec.get("step", 0)
    opn = ops[step][0] if 0 <= step < len(ops) else "?"
    code = (rec.get("expected") or [0])[0] if rec.get("checker") != "model" else 0
    return "tracker:%s:%s:%s" % (rec.get("checker"), code, opn)


SPEC = {
    "pid": "C14",
    "props_file": "props/C14.v",
    "suites": suites,
    "keyfn": keyfn,
    "trusted_base": [
        "Coq 8.16.1 kernel (coqc); vm_compute for evaluating model and monitor on the cases; no native_compute",
        "axioms: none declared; Print Assumptions recorded under print_assumptions",
        "hand-written model coq/model/Tracker.v (+ MemPool.v AddRequest) of the inv handlers, TxTracker and the tracker checks, tied to the code by the correspondence run: real Node (trusted inv handler, Node.check) plus real UntrustedNode objects registered with the node (real handleMessage / check / CleanupBlock), shared real MemPool, ageing hooks for the clock",
    ],
    "assumptions": ["every MemPool / TxTracker method is atomic under its mutex, so an interleaving of connection goroutines is a sequence of these steps (a -race stress run supports it in the thorough tier)",
                    "'at its next activity' is a runtime liveness: a connection's check runs when its peer sends something",
                    "a transaction body has at least one input (a zero-input body is never recognised as held)",
                    "the set of connections is fixed per history: every untrusted connection is one the node lists (block clean-up reaches its tracker); how untrusted connections are dialled, monitored and dropped (monitorUntrustedNodes, dial timing) is not modelled - a seeded change there (seeded/C14_5: a peer dropped from the list while its slow dial is in progress keeps running unlisted) is not caught"],
    "rule": "interleavings of inv announcements of overlapping txid sets from the trusted and 1-3 untrusted connections, tracker checks, body arrivals (trusted / untrusted), confirmations, clock advances around the 3 s window; distinct = distinct (cfg, ops)",
}

# The same on the real run loop (harness component "shutdown", scenarios and monitor of gen/c19.py / model/Shutdown.v):
# the trusted peer announces a tx twice and does not deliver it; after the window its next activity must bring a second
# request - on the first trusted connection and after the connection was lost and made again in the same process.
# And with the REAL monitor of the untrusted nodes (monitorUntrustedNodes dials scripted untrusted peers, one of them
# slowly): every connected untrusted peer is in the node's list and is never asked for a tx a processed block confirmed.
import c19

_tracker_keyfn = SPEC["keyfn"]


def _run_loop_scenarios(tier, rng, workdir):
    a = c19.tracker_reconnect_scenarios(tier, rng, workdir)
    b = c19.untrusted_list_scenarios(tier, rng, workdir)
    cov = dict(a.get("coverage", {}))
    cov.update(b.get("coverage", {}))
    return {"failures": a["failures"] + b["failures"], "red": a["red"] + b["red"],
            "evaluations": a["evaluations"] + b["evaluations"], "coverage": cov}


SPEC["extra"] = _run_loop_scenarios
SPEC["keyfn"] = lambda rc: c19.keyfn(rc) if rc.get("suite") in ("shutdown_tracker", "shutdown_ulist") else _tracker_keyfn(rc)
SPEC["assumptions"] = [a for a in SPEC["assumptions"] if "the set of connections is fixed per history" not in a] + [
    "the tracker histories run on Node / UntrustedNode objects without a run loop and with a fixed set of listed connections; that the trusted connection's tracker still works after Node.Run has lost and re-made the trusted connection is checked separately on the real run loop (gen/c19.py tracker_reconnect_scenarios)",
    "how untrusted connections are dialled, monitored, listed and dropped is modelled in coq/model/Shutdown.v (`mstep`: monitorUntrustedNodes with untrustedLock, the list, IsActive waiting for a dialling node, CleanupBlock over the list; C19_untrusted_running_listed, C19_untrusted_no_confirmed_request, witness C19_dial_unlocked_refuted) and exercised on the real run loop by gen/c19.py untrusted_list_scenarios (slow dial over a listen socket with backlog 0, peer dropped and another connected; monitor codes 913 / 914); the random choice among stored addresses is not modelled (scenarios keep it immaterial)"]

if __name__ == "__main__":
    checklib.run_check(SPEC)
