"""C15 - client wire messages round-trip exactly and preserve stream framing.

Proof side: props/C15.v (meta-theorems of the codec DSL instantiated on the formats the translator
regenerates from pkg/client/messages.go on every run).  Tie to the code: the real Serialize /
Deserialize are run by the harness component "codec" on generated values, on every strict prefix and on
mutations of each encoding, and on concatenations of messages; real bytes / outcome class / bytes
consumed / decoded value are compared with encode / decode on the generated formats inside Coq
(vm_compute).  The property itself is also evaluated directly on the real results (monitors below), so
that a failure comes with a concrete input."""
import json
import os
import sys
import time

sys.path.insert(0, os.path.dirname(os.path.abspath(__file__)))
import checklib
import codeclib as cl
import vlib

REPLAY = None
OPAQUE_KINDS = ["PublicKey", "Signature", "merkle_proof.MerkleProof", "ExpandedTx", "AncestorTxs"]
MAX_PREDICTED_ALLOC = 32 << 20      # inputs predicted to reserve more belong to C20's memory-limited child


def suites(tier, rng, replay):
    global REPLAY
    REPLAY = replay
    return []


def chunks(xs, n):
    return [xs[i:i + n] for i in range(0, len(xs), n)]


def harness_ops(ops, workdir, tag, per_case=60):
    """runs a flat list of ops (split into cases so that the harness parallelises) -> (obs list, extra list)"""
    cases = [{"cfg": {}, "ops": c} for c in chunks(ops, per_case)]
    if not cases:
        return [], []
    res, extra = vlib.run_harness("codec", cases, workdir, tag=tag)
    obs, ex = [], []
    for r, e in zip(res, extra):
        obs += r
        ex += (e or [None] * len(r))
    return obs, ex


def sample_pool(workdir, n):
    ops = [["sample", k, s] for k in OPAQUE_KINDS for s in range(n)]
    obs, _ = harness_ops(ops, workdir, "samples")
    pool = {k: [] for k in OPAQUE_KINDS}
    for (_, k, s), o in zip(ops, obs):
        if o and o[0] == 0:
            b = bytes(o[1:])
            if b not in pool[k]:
                pool[k].append(b)
    return pool


def mutations(rng, b, n):
    out = []
    for _ in range(n):
        m = bytearray(b)
        kind = rng.weighted([("set", 5), ("flip", 3), ("ins", 2), ("del", 2), ("trunc_ext", 1)])
        if not m:
            kind = "ins"
        if kind == "set":
            m[rng.below(len(m))] = rng.choice([0, 1, 2, 0x7f, 0x80, 0xfc, 0xfd, 0xfe, 0xff, rng.below(256)])
        elif kind == "flip":
            i = rng.below(len(m))
            m[i] ^= 1 << rng.below(8)
        elif kind == "ins":
            m.insert(rng.below(len(m) + 1), rng.below(256))
        elif kind == "del":
            del m[rng.below(len(m))]
        else:
            m += bytes(rng.below(256) for _ in range(rng.range(1, 4)))
        out.append(bytes(m))
    return out


def opaque_entries(f, v, oracle, acc):
    """oracle-table entries that wf needs for the opaque blobs of a value (measured by 'odec')"""
    k = f["k"]
    if k == "opaque":
        acc.append((f["name"], v[1]))
    elif k == "varbytes" and f.get("chk"):
        acc.append((f["chk"], v[1]))
    elif k in ("list", "listof"):
        for x in v[1]:
            opaque_entries(f["elem"], x, oracle, acc)
    elif k == "opt" and v[1] is not None:
        opaque_entries(f["elem"], v[1], oracle, acc)
    elif k == "struct":
        d = dict(v[1])
        for n, ff in f["fields"]:
            opaque_entries(ff, d[n], oracle, acc)


def stored_pairs(tier, rng, workdir):
    """The stored transaction record through the real SaveTxState / FetchTxState with SEVERAL records in one store, on a
    store that copies what it is given and on one that keeps the caller's slice (storage.MockStorage does; the interface
    does not forbid it): every record fetched back is the one saved under that txid."""
    cases = []
    for alias in (0, 1):
        for n in ((2, 3) if tier == "quick" else (2, 3, 5, 8)):
            ids = list(range(1, n + 1))
            ops = [["save", t] for t in ids] + [["fetch", t] for t in ids] + [["save", ids[0]], ["fetch", ids[-1]], ["fetch", ids[0]]]
            cases.append({"cfg": {"alias": alias}, "ops": ops})
    res, _ = vlib.run_harness("storedtx", cases, workdir, tag="storedtx")
    failures = []
    for c, tr in zip(cases, res):
        for i, (o, ob) in enumerate(zip(c["ops"], tr)):
            t = o[1]
            want = [0] if o[0] == "save" else [0, t, 1 + t % 2, 100 * t, 1 if t % 3 == 0 else 0, t % 2]
            if list(ob) != want:
                failures.append({"key0": "storedtx:%s" % ("keeping-store" if c["cfg"]["alias"] else "copying-store"), "suite": "storedtx", "checker": "storedtx", "step": i, "cfg": c["cfg"], "ops": c["ops"], "trace": tr,
                                 "expected": want, "observed": list(ob),
                                 "what": "stored tx record %d fetched back after other records were saved is not what was saved "
                                         "(store %s the written slice)" % (t, "keeps" if c["cfg"]["alias"] else "copies")})
                break
    return failures, len(cases)


def extra(tier, rng, workdir):
    T, J = cl.load_schemas()
    failures, red = [], []
    cov = {"samples": []}
    sp_fail, sp_n = stored_pairs(tier, rng, workdir)
    failures += sp_fail
    cov["stored_record_sequences"] = sp_n
    quick = tier == "quick"
    nvals = 6 if quick else 40
    nmut = 8 if quick else 30
    names = [n for n in T if n not in cl.HARNESS_TYPES_SKIP]

    # type codes from the real PayloadForType
    obs, ex = harness_ops([["types"]], workdir, "types")
    codes = {n: int(c) for n, c in ex[0]}

    if REPLAY:
        return replay_one(T, codes, workdir)

    pool = sample_pool(workdir, 6 if quick else 24)
    if any(not pool[k] for k in OPAQUE_KINDS):
        red.append({"what": "harness-samples", "detail": {k: len(v) for k, v in pool.items()}})
        return {"failures": failures, "red": red, "coverage": cov, "evaluations": 0}

    # 1 values ------------------------------------------------------------------------------------
    vals = []
    for ti, name in enumerate(names):
        for i in range(nvals):
            r = rng.fork(ti * 1000 + i)
            vals.append({"T": name, "v": cl.gen_value(T[name]["r"], r, pool)})
        if cl.has_list(T[name]["r"]):
            # one list just over 1024 elements (readers pre-allocate at most that many): complete valid bytes must
            # still round-trip.  Run on the real code only (tens of kilobytes: too long for a Coq literal).
            for i in range(1 if quick else 3):
                vals.append({"T": name, "v": cl.gen_value(T[name]["r"], rng.fork(ti * 1000 + 950 + i), pool, longlist={"left": 1}),
                             "big": True, "long": True})
        if cl.has_free_varbytes(T[name]["r"]):
            # long byte blocks (around 1 KiB - 3 KiB): most sampled cuts of such an encoding fall inside the block
            for i in range(2 if quick else 6):
                vals.append({"T": name, "v": cl.gen_value(T[name]["r"], rng.fork(ti * 1000 + 900 + i), pool, big=True), "big": True})
    t0 = time.time()
    # 2 real serialisation --------------------------------------------------------------------------
    obs, _ = harness_ops([["ser", x["T"], cl.to_json(x["v"])] for x in vals], workdir, "ser")
    oracle = {}
    enc_rows, enc_idx = [], []
    pre_items = []
    for x, o in zip(vals, obs):
        x["real"] = bytes(o[1:]) if o and o[0] == 0 else None
        if x["real"] is None:
            red.append({"what": "correspondence", "suite": "ser", "detail": "Serialize failed (class %s) on a generated value of %s"
                        % (o[:1], x["T"]), "value": cl.summarize(x["v"])})
            continue
        try:
            pyb, sites = cl.encode(T[x["T"]]["w"], x["v"])
        except Exception as e:   # the translated writer format does not fit the value universe any more: fails closed
            pyb, sites = None, []
            if not any(r.get("suite") == "python-encoder-format" and r.get("type") == x["T"] for r in red):
                red.append({"what": "correspondence", "suite": "python-encoder-format", "type": x["T"],
                            "detail": "the writer format regenerated from the source cannot encode a generated value: %r" % (e,)})
        x["sites"] = sites
        if pyb is not None and pyb != x["real"]:
            red.append({"what": "correspondence", "suite": "python-encoder", "type": x["T"], "value": cl.summarize(x["v"]),
                        "real": x["real"].hex(), "python": pyb.hex()})
        acc = []
        opaque_entries(T[x["T"]]["r"], x["v"], oracle, acc)
        x["opaque"] = acc
        for n, b in acc:
            pre_items.append({"f": {"k": "opaque", "name": n} if n in ("PublicKey", "Signature", "merkle_proof.MerkleProof")
                              else {"k": "varbytes", "shape": "grow", "chk": n, "lim": ""},
                              "bs": b if n in ("PublicKey", "Signature", "merkle_proof.MerkleProof") else cl.varint(len(b)) + b})
    cl.resolve_oracles(pre_items, workdir, "pool", oracle)
    vals = [x for x in vals if x["real"] is not None]
    for x in vals:
        used = []
        for n, b in x["opaque"]:
            c, k = oracle.get((n, b), (1, 0))
            used.append((n, len(b), c, k))
        if x.get("long") or len(x["real"]) > 4000:
            continue
        enc_rows.append('("%s", %s, %s, %s)' % (x["T"], cl.otable_coq(used), cl.to_coq(x["v"]), cl.zl(x["real"])))
        enc_idx.append(x)

    vlib.log('C15 ser+pool %.1fs' % (time.time() - t0))
    # 3 decode inputs -------------------------------------------------------------------------------
    inputs = []
    for vi, x in enumerate(vals):
        b = x["real"]
        r = rng.fork(500000 + vi)
        inputs.append({"T": x["T"], "bs": b + b"\x2a\x2b", "kind": "full", "src": vi})
        inputs.append({"T": x["T"], "bs": b, "kind": "exact", "src": vi})
        if len(b) <= (40 if quick else 120):
            cuts = list(range(len(b)))
        else:
            cuts = sorted(set([0, 1, len(b) - 1, len(b) - 2] + [r.below(len(b)) for _ in range(14 if quick else 40)]))
        for c in cuts:
            inputs.append({"T": x["T"], "bs": b[:c], "kind": "prefix", "src": vi})
        for m in mutations(r, b, nmut):
            inputs.append({"T": x["T"], "bs": m, "kind": "mutation", "src": vi})
    for it in inputs:
        it["f"] = T[it["T"]]["r"]
    cl.resolve_oracles(inputs, workdir, "dec", oracle)
    kept, skipped_alloc = [], 0
    for it in inputs:
        p = it["pred"]
        if p is None:
            red.append({"what": "correspondence", "suite": "oracle", "detail": "oracle rounds exhausted", "type": it["T"], "input": it["bs"].hex()})
            continue
        if (p["alloc"] > MAX_PREDICTED_ALLOC or p.get("unsafe")) and it["kind"] == "mutation":
            # (unsafe: the mutation reaches a dependency decoder with a blob on which that decoder, run alone in a
            # child process, was killed by the address-space limit - decoding it in-process would kill the harness)
            skipped_alloc += 1
            continue
        kept.append(it)
    inputs = kept
    vlib.log('C15 inputs+oracles %.1fs (%d inputs)' % (time.time() - t0, len(inputs)))
    # 4 real deserialisation ------------------------------------------------------------------------
    obs, ex = harness_ops([["de", it["T"], it["bs"].hex()] for it in inputs], workdir, "de", per_case=200)
    dec_rows, dec_idx = [], []
    hist = {"full": 0, "exact": 0, "prefix": 0, "mutation": 0}
    classes = {0: 0, 1: 0, 2: 0}
    py_disagree = 0
    for it, o, e in zip(inputs, obs, ex):
        it["cls"], it["consumed"] = o[0], o[1]
        it["val"] = cl.from_json(e, it["f"]) if o[0] == 0 and e is not None else None
        hist[it["kind"]] += 1
        classes[o[0]] = classes.get(o[0], 0) + 1
        x = vals[it["src"]]
        # monitors: the property evaluated on the real results
        if it["kind"] in ("full", "exact"):
            if o[0] != 0 or o[1] != len(x["real"]) or it["val"] != x["v"]:
                what = "class %d" % o[0] if o[0] != 0 else ("consumed %d of %d" % (o[1], len(x["real"])) if o[1] != len(x["real"]) else "value differs")
                failures.append(fail("roundtrip:%s" % it["T"], it, x, what))
        elif it["kind"] == "prefix":
            if o[0] != 1:
                failures.append(fail("prefix:%s:%s" % (it["T"], {0: "accepted", 2: "panic"}.get(o[0], o[0])), it, x,
                                     "strict prefix of length %d of a %d-byte encoding: class %d" % (len(it["bs"]), len(x["real"]), o[0])))
        p = it["pred"]
        if p["cls"] != o[0] or (o[0] == 0 and p["consumed"] != o[1]):
            py_disagree += 1
        # the model is evaluated on every input of the ordinary values; of the long-block values (the cost in Coq is
        # the length of the input) on the exact encoding and a few cuts - the real decoders see all of them above
        if x.get("long") or len(it["bs"]) > 4000:
            continue
        if x.get("big"):
            nbig = x["nbig"] = x.get("nbig", 0) + 1
            if it["kind"] not in ("exact",) and nbig > 5:
                continue
        dec_idx.append(it)
        dec_rows.append('("%s", %s, %s, %d, %d, %s)' % (it["T"], cl.otable_coq(p["used"]), cl.zl(it["bs"]), o[0], o[1],
                                                       "Some " + cl.to_coq(it["val"]) if it["val"] is not None else "None"))

    vlib.log('C15 de %.1fs' % (time.time() - t0))
    # 5 streams --------------------------------------------------------------------------------------
    payload_names = [n for n in names if n in codes]
    byT = {}
    for x in vals:
        if not x.get("long") and len(x["real"]) <= 4000:
            byT.setdefault(x["T"], []).append(x)
    streams = []
    for si in range(60 if quick else 600):
        r = rng.fork(900000 + si)
        k = r.range(1, 5)
        msgs = []
        for _ in range(k):
            n = r.choice(payload_names)
            msgs.append(r.choice(byT[n]))
        bs = b"".join(cl.varint(codes[m["T"]]) + m["real"] for m in msgs)
        cut = None
        if r.chance(1, 4) and len(bs) > 1:
            cut = r.range(1, len(bs) - 1)
        streams.append({"msgs": msgs, "bs": bs if cut is None else bs[:cut], "cut": cut, "full": bs})
    sitems = []
    for s in streams:
        # oracle entries: decode message by message with the Python decoder
        s["used"] = []
        pos = 0
        for m in s["msgs"]:
            hdr = len(cl.varint(codes[m["T"]]))
            sitems.append({"f": T[m["T"]]["r"], "bs": s["bs"][pos + hdr:], "stream": s})
            pos += hdr + len(m["real"])
            if pos >= len(s["bs"]):
                break
    cl.resolve_oracles(sitems, workdir, "stream", oracle)
    for it in sitems:
        if it["pred"]:
            it["stream"]["used"] += it["pred"]["used"]
    obs, ex = harness_ops([["stream", s["bs"].hex()] for s in streams], workdir, "stream", per_case=20)
    stream_rows = []
    for s, o, e in zip(streams, obs, ex):
        real_msgs = []
        for m in (e or []):
            d = {n: x for n, x in m["s"]}
            code = int(d["Type"])
            tn = next((n for n, c in codes.items() if c == code), None)
            real_msgs.append((code, cl.from_json(d["Payload"], T[tn]["r"])))
        want = [(codes[m["T"]], m["v"]) for m in s["msgs"]]
        if s["cut"] is None:
            if o[0] != 0 or real_msgs != want or o[2] != len(s["bs"]):
                failures.append({"key0": "stream:concat", "what": "concatenation of %d messages decoded to class %d, %d messages, %d of %d bytes"
                                 % (len(want), o[0], o[1], o[2], len(s["bs"])), "types": [m["T"] for m in s["msgs"]],
                                 "input": s["bs"].hex(), "ops": [["stream", s["bs"].hex()]]})
        else:
            # a truncated stream: the complete messages before the cut decode, then an error (never a panic, never extra messages)
            if o[0] == 2 or real_msgs != want[:len(real_msgs)] or o[1] > len(want):
                failures.append({"key0": "stream:truncated", "what": "truncated stream: class %d, %d messages" % (o[0], o[1]),
                                 "types": [m["T"] for m in s["msgs"]], "input": s["bs"].hex(), "ops": [["stream", s["bs"].hex()]]})
        cls = o[0]
        # a stream cut exactly at a message boundary is a valid shorter stream
        stream_rows.append('(%s, %s, %d, [%s])' % (cl.otable_coq(s["used"]), cl.zl(s["bs"]), cls,
                                                  "; ".join("(%d, %s)" % (c, cl.to_coq(v)) for c, v in real_msgs)))

    vlib.log('C15 streams %.1fs' % (time.time() - t0))
    # 6 model vs implementation inside Coq ------------------------------------------------------------
    r1, e1 = cl.coq_eval(workdir, "enc", "string * otable * value * bytes", enc_rows,
                         "collect (check_enc types) nonzero 0 cases", shard=120)
    r2, e2 = cl.coq_eval(workdir, "dec", "string * otable * bytes * Z * Z * option value", dec_rows,
                         "collect (check_dec types) nonempty 0 cases", shard=400)
    r3, e3 = cl.coq_eval(workdir, "stream", "otable * bytes * Z * list (Z * value)", stream_rows,
                         "collect (check_stream types payload_for_type) nonzero 0 cases", shard=40)
    vlib.log('C15 coq %.1fs' % (time.time() - t0))
    for e in e1 + e2 + e3:
        red.append({"what": "model-evaluation", "detail": e})
    for idx, code in r1:
        x = enc_idx[idx]
        red.append({"what": "correspondence", "suite": "encode", "type": x["T"], "code": {1: "bytes differ", 2: "value not well-formed in the model"}.get(code, code),
                    "value": cl.summarize(x["v"]), "real": x["real"].hex()})
    for idx, info in r2:
        it = dec_idx[idx]
        red.append({"what": "correspondence", "suite": "decode", "type": it["T"], "kind": it["kind"], "input": it["bs"].hex(),
                    "real": [it["cls"], it["consumed"]], "model": info,
                    "code": {1: "outcome class", 2: "bytes consumed", 3: "decoded value", 4: "no value reported"}.get(info[0], info[0])})
    for idx, code in r3:
        s = streams[idx]
        red.append({"what": "correspondence", "suite": "stream", "input": s["bs"].hex(), "types": [m["T"] for m in s["msgs"]], "code": code})
    # keep the report small
    if len(red) > 12:
        red = red[:12] + [{"what": "correspondence", "suite": "more", "count": len(red) - 12}]

    distinct = len(set((it["T"], it["bs"]) for it in inputs)) + len(set(s["bs"] for s in streams))
    cov.update({
        "values": len(vals), "types": len(names), "decode_inputs": hist, "real_outcome_classes": classes,
        "streams": len(streams), "mutations_left_to_C20_predicted_alloc": skipped_alloc,
        "python_decoder_disagreements": py_disagree,
        "model_mismatches": {"encode": len(r1), "decode": len(r2), "stream": len(r3)},
        "distinct_nontrivial": distinct,
        "rule": "per type %d generated well-formed values (empty/long lists, nil/present optionals, boundary integers at every varint "
                "width, sampled keys/signatures/merkle proofs/BSOR blobs); per encoding: the encoding followed by 2 extra bytes, all strict "
                "prefixes (sampled above %d bytes), %d mutations; concatenations of 1-5 messages (a quarter truncated); distinct = distinct "
                "(type, input bytes)" % (nvals, 40 if quick else 120, nmut),
        "samples": [{"type": x["T"], "value": cl.summarize(x["v"]), "real_bytes": x["real"].hex()[:200]} for x in vals[7:400:97]],
        "traces_validated_against_impl": len(inputs) + len(vals) + len(streams),
    })
    return {"failures": failures, "red": red, "coverage": cov, "evaluations": len(inputs) + len(vals) + len(streams)}


def fail(key, it, x, what):
    return {"key0": key, "what": what, "type": it["T"], "input": it["bs"].hex(), "value": cl.summarize(x["v"]),
            "observed": [it["cls"], it["consumed"]], "ops": [["de", it["T"], it["bs"].hex()]]}


def replay_one(T, codes, workdir):
    """--replay: run the recorded ops on the real code again and re-evaluate the monitor"""
    failures = []
    ops = REPLAY.get("ops", [])
    obs, ex = harness_ops(ops, workdir, "replay")
    key = REPLAY.get("key", "")
    for op, o in zip(ops, obs):
        bad = False
        if key.startswith("roundtrip"):
            bad = o[0] != 0 or o[1] != len(bytes.fromhex(op[2])) - (2 if bytes.fromhex(op[2]).endswith(b"\x2a\x2b") else 0)
        elif key.startswith("prefix"):
            bad = o[0] != 1
        elif key.startswith("stream:concat"):
            bad = o[0] != 0 or o[2] != len(bytes.fromhex(op[1]))
        elif key.startswith("stream"):
            bad = o[0] == 2
        if bad:
            rec = dict(REPLAY)
            rec["key0"] = key
            rec["observed"] = o
            failures.append(rec)
    return {"failures": failures, "red": [], "coverage": {"samples": [{"replay": ops, "observed": obs}], "distinct_nontrivial": len(ops),
                                                          "rule": "replay of a recorded input"}, "evaluations": len(ops)}


def keyfn(rec):
    return rec.get("key0") or rec.get("key") or "codec"


SPEC = {
    "pid": "C15",
    "props_file": "props/C15.v",
    "suites": suites,
    "extra": extra,
    "keyfn": keyfn,
    "trusted_base": [
        "Coq 8.16.1 kernel (coqc); vm_compute for the reflection obligations and for evaluating encode/decode on the cases; no native_compute",
        "axioms: none declared; Print Assumptions recorded under print_assumptions (premises about opaque dependency decoders are explicit hypotheses of the theorems)",
        "translator/codec.go (go/parser, syntactic): reads w_T off T.Serialize and r_T off T.Deserialize of pkg/client/messages.go on every run; unrecognised statements become FUnsupported (fail closed); cross-checked by the correspondence run (real bytes = model bytes, real decode = model decode on prefixes/mutations)",
        "hand-written formats of the pinned dependency tokenized/pkg (wire.MsgTx, TxIn, TxOut, OutPoint; Hash32/Hash20/BlockHeader as fixed blocks), validated by the same run",
        "opaque dependency codecs (bitcoin.PublicKey, bitcoin.Signature, merkle_proof.MerkleProof, BSOR content of ExpandedTx/AncestorTxs): oracle functions; assumed: an accepted blob is accepted with the same length when followed by more input, and none of its strict prefixes is accepted; the run measures the real decoders (harness op odec) and feeds the measurements to the model",
        "harness canonicalisation: a nil Go slice and an empty Go slice are the same value (VList []); opaque values are compared through their own re-serialisation",
    ],
    "assumptions": ["values with a nil pointer where Serialize dereferences (Tx.Tx, SendTx.Tx, list elements) are not representable and not generated",
                    "the stored tx record (internal/storage/tx.go) is client.Tx.Serialize/Deserialize itself (entry Tx)"],
    "rule": "see coverage.rule",
}

if __name__ == "__main__":
    checklib.run_check(SPEC)
