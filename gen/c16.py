"""C16 - remote client calls return the response to their own request."""
import os
import sys

sys.path.insert(0, os.path.dirname(os.path.abspath(__file__)))
import checklib
import clientgen
import clientnet
import vlib


def suites(tier, rng, replay):
    return [clientgen.build_suite(tier, rng, replay, ["router", "router", "router", "idgate"], "C16",
                                  {"c16": "c16_monitor",
                                   "hyp_valid": "fun ops _ => if c16_valid ops then None else Some (0, [900])"},
                                  260, 4000, 16000, sweep=True)]


def extra(tier, rng, workdir):
    """the registration / response race of runRequests' select: both queued, the response must still reach the request"""
    trials = 40 if tier == "quick" else 400
    cases = [{"cfg": {"qcap": 10, "full": 1}, "ops": [["race", 4, 1, trials], ["race", 5, 20, trials]]}]
    results, _ = vlib.run_harness("client", cases, workdir, tag="race")
    fails = []
    for o, ob in zip(cases[0]["ops"], results[0]):
        if ob[0] != 0 or ob[1] != ob[2]:
            fails.append({"suite": "client-race", "checker": "c16", "step": 0, "expected": [608], "observed": ob,
                          "cfg": cases[0]["cfg"], "ops": [o], "trace": [ob],
                          "what": "a response queued together with the registration it answers was served first and dropped "
                                  "(%d of %d trials delivered)" % (ob[1], ob[2])})
    net = clientnet.evaluate("C16", tier, rng, workdir)
    cov = {"select_race_trials": 2 * trials, "select_race_lost": sum(ob[2] - ob[1] for ob in results[0])}
    cov.update(net["coverage"])
    return {"failures": fails + net["failures"], "evaluations": 2 * trials + net["evaluations"], "coverage": cov}


SPEC = {
    "pid": "C16",
    "props_file": "props/C16.v",
    "suites": suites,
    "extra": extra,
    "keyfn": lambda rec: clientnet.key_for(rec) if rec.get("suite") == "clientnet" else clientgen.keyfn(rec),
    "trusted_base": [
        "Coq 8.16.1 kernel (coqc); vm_compute for evaluating model and monitor on the cases; no native_compute",
        "axioms: none declared; Print Assumptions recorded under print_assumptions",
        "translator translator/router.go (go/parser + go/ast, no type checker): handleRequestResponse of pkg/client/remote_client.go is regenerated on every run as gen/RouterGen.v, a term of the routing language model/RouterDSL.v (search loops with their type / key comparison and deliver-remove-return body, hash-less branch, message-type switch; any statement shape it does not know becomes SUnknown, which makes the agreement theorem fail); trusted: the translator's reading of those shapes and the interpreter exec_router as the meaning of that Go code",
        "hand-written model coq/model/Client.v of runRequests / handleRequestResponse / the public calls / GetOutputs and the independent protocol meaning `answers` (model/ClientSpec.v), tied to the code by the correspondence run: real RemoteClient in-package (overlay pkg/client/verif_export.go), real runRequests goroutine, real handleMessage for every server message, real public calls (SendTx, GetTx, GetHeaders, GetHeader, GetFeeQuotes, ReprocessTx, MarkHeaderInvalid, MarkHeaderNotInvalid, GetOutputs) whose outgoing message is captured by a stand-in for the per-connection send loop",
    ],
    "assumptions": ["hashes are ids (txid / block hash of generated transactions and headers); the server is the harness",
                    "a call's time-out is the op 'await' on a call started with a 60 ms request time-out; wall-clock accuracy of the production time-out and TCP are outside the model",
                    "a reject of a headers-by-height request carries no key in this protocol (no hash): it cannot be matched to a request and is not part of 'the response that answers that request's key'"],
    "rule": "interleavings of direct registrations and public calls of all kinds with distinct and (for the correspondence only) occasionally repeated keys, server messages of every kind (answers, duplicates, unsolicited, for other kinds with the same hash, hash-less accepts / rejects), time-outs, deregistrations, outputs lookups with repeated txids / unknown txs / out-of-range indexes; plus the select race (registration and response both queued); distinct = distinct (cfg, ops)",
}

if __name__ == "__main__":
    checklib.run_check(SPEC)
