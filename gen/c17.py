"""C17 - the remote client delivers tx notifications in message-id order exactly once."""
import os
import sys

sys.path.insert(0, os.path.dirname(os.path.abspath(__file__)))
import checklib
import clientgen
import clientnet


def suites(tier, rng, replay):
    return [clientgen.build_suite(tier, rng, replay, ["idgate", "idgate", "idgate", "auth", "router"], "C17",
                                  {"c17": "c17_monitor @QCAP@"}, 260, 4000, 17000)]


def extra(tier, rng, workdir):
    return clientnet.evaluate("C17", tier, rng, workdir)


SPEC = {
    "pid": "C17",
    "extra": extra,
    "props_file": "props/C17.v",
    "suites": suites,
    "keyfn": lambda rec: clientnet.key_for(rec) if rec.get("suite") == "clientnet" else clientgen.keyfn(rec),
    "trusted_base": [
        "Coq 8.16.1 kernel (coqc); vm_compute for evaluating model and monitor on the cases; no native_compute",
        "axioms: none declared; Print Assumptions recorded under print_assumptions",
        "hand-written model coq/model/Client.v of RemoteClient.handleMessage / addHandlerMessage / processHandler / Ready, tied to the code by the correspondence run: the real functions are called in-package (overlay pkg/client/verif_export.go) on a real RemoteClient with real keys, a handler channel of the case's capacity and a recording handler; reconnects are the real generateSession + the flag reset of runConnection",
    ],
    "assumptions": ["handleMessage calls are sequential (one handleMessages goroutine) and the handler channel has a single consumer (runHandler); a full handler channel for longer than MessageChannelTimeout is the op 'queue full' (capacity is a case parameter, 100 in production)",
                    "TCP delivery, the server's behaviour and timer accuracy are outside the model"],
    "rule": "server streams of tx / update / headers / in-sync / chain-tip messages with expected, duplicated, skipped, old and out-of-order ids, handler dequeues anywhere, small handler-queue capacities (2..5, 100), reconnects (new session, accept, ready with the reported next id or another value); distinct = distinct (cfg, ops)",
}

if __name__ == "__main__":
    checklib.run_check(SPEC)
