"""C18 - the remote client authenticates the server and gates traffic on the handshake."""
import json
import os
import sys

sys.path.insert(0, os.path.dirname(os.path.abspath(__file__)))
import checklib
import clientgen
import clientnet
import vlib
from checklib import Suite


def sm_coq(o):
    n = o[0]
    if n == "connect":
        return "SConnect"
    if n == "complete":
        return "SComplete"
    if n == "send":
        return "(SSend (Req %d %s))" % (o[1], "true" if o[1] % 2 else "false")
    if n == "break":
        return "SBreak"
    if n == "drop":
        return "SDrop"
    if n in ("writes", "pinger", "sleep"):
        return "SWrites"          # pinger / sleep answer [OK]: an observation with nothing written
    raise KeyError(n)


def auth_coq(o):
    n = o[0]
    if n == "gensession":
        return "ASession"
    if n == "srv_accept":
        return "(AAccept %d)" % o[1]
    if n == "flags":
        return "AFlags"
    if n == "srv_data":
        return "AData"
    return "(ABase %s)" % sm_coq(o)


def gen_auth(rng, nops):
    """connections, new sessions, accepts made for the current / an earlier / no session handled at any moment (also
    after the connection they were sent on was torn down: the handler goroutine lags), data, flag observations"""
    ops, running, nsess = [], False, 0
    while len(ops) < nops:
        k = rng.weighted([("connect", 16), ("drop", 14), ("accept", 24), ("flags", 12), ("data", 18), ("session", 8), ("send", 4)])
        if k == "connect":
            if running:
                continue
            # connect(): a fresh session, then the connection (sometimes the old session is kept: a dial that reuses it)
            if nsess == 0 or rng.chance(4, 5):
                ops.append(["gensession"])
                nsess += 1
            ops.append(["connect"])
            running = True
        elif k == "drop":
            if not running:
                continue
            ops.append(["drop"])
            running = False
        elif k == "accept":
            ops.append(["srv_accept", rng.weighted([(nsess, 6), (max(nsess - 1, 0), 3), (0, 2)])])
        elif k == "flags":
            ops.append(["flags"])
        elif k == "data":
            ops.append(["srv_data"])
        elif k == "session":
            if running:
                continue
            ops.append(["gensession"])
            nsess += 1
        else:
            ops.append(["send", 2 * len(ops) + 1])
    if running:
        ops.append(["drop"])
    ops.append(["flags"])
    return {"cfg": {}, "ops": ops}


AUTH_SCRIPTED = [
    # the accept of connection 1 handled after its tear-down, within the retry delay (session not yet replaced): the next
    # connection must not start accepted and its peer's data must not reach the handlers
    [["gensession"], ["connect"], ["drop"], ["srv_accept", 1], ["flags"], ["gensession"], ["connect"], ["flags"], ["srv_data"],
     ["srv_accept", 1], ["flags"], ["srv_data"], ["srv_accept", 2], ["srv_data"], ["drop"], ["flags"]],
    # the same with the session kept for the next dial
    [["gensession"], ["connect"], ["srv_accept", 1], ["srv_data"], ["drop"], ["srv_accept", 1], ["connect"], ["flags"], ["srv_data"],
     ["drop"], ["flags"]],
    [["gensession"], ["connect"], ["srv_accept", 0], ["flags"], ["srv_data"], ["srv_accept", 1], ["srv_data"], ["drop"], ["connect"],
     ["srv_data"], ["flags"], ["drop"]],
]


def send_sites_changed():
    """has the source another set of sendDirect call sites than the send machine model (props/C18.v, C18_source_send_direct_sites)"""
    try:
        t = open(os.path.join(vlib.COQ, "gen", "SendSites.v")).read()
    except OSError:
        return True
    return '[("Ready", "ready-message"); ("sendMessage", "handshake-guard")]' not in t


def gen_sm(rng, nops):
    ops = []
    running = False
    complete = False
    broken = False
    nid = 0
    while len(ops) < nops:
        k = rng.weighted([("connect", 14), ("complete", 14), ("send", 34), ("break", 8), ("drop", 14), ("writes", 16)])
        if k == "connect":
            if running:
                continue
            ops.append(["connect"])
            running, complete, broken = True, False, False
        elif k == "complete":
            ops.append(["complete"])
            if running and not broken:
                complete = True
        elif k == "send":
            nid += 1
            hs = rng.chance(1, 3)
            rid = 2 * nid + (1 if hs else 0)
            ops.append(["send", rid])
        elif k == "break":
            if not running or broken:
                continue
            ops.append(["break"])
            broken = True
        elif k == "drop":
            if not running:
                continue
            ops.append(["drop"])
            running, complete, broken = False, False, False
        else:
            ops.append(["writes"])
    if running:
        ops.append(["drop"])
    ops.append(["writes"])
    return {"cfg": {}, "ops": ops}


def sm_suite(tier, rng, replay):
    cases = []
    is_auth = bool(replay) and any(o[0] in ("gensession", "srv_accept", "flags", "srv_data", "pinger") for o in replay.get("ops", []))
    if replay and replay.get("suite") == "sendmachine" and replay.get("cfg", {}).get("hs_timeout_ms") is None and not is_auth:
        cases.append({"cfg": replay["cfg"], "ops": replay["ops"], "origin": "replay"})
    elif not replay:
        d = os.path.join(vlib.VERIF, "corpus", "C18sm")
        if os.path.isdir(d):
            for f in sorted(os.listdir(d)):
                if f.endswith(".json"):
                    j = json.load(open(os.path.join(d, f)))
                    cases.append({"cfg": j["cfg"], "ops": j["ops"], "origin": "corpus/C18sm/" + f})
        n = 48 if tier == "quick" else 600
        for i in range(n):
            r = rng.fork(18500 + i)
            cases.append(gen_sm(r, r.range(6, 16)))
    for c in cases:
        c["coq_ops"] = [sm_coq(o) for o in c["ops"]]
    groups = [{"key": "sendmachine", "optype": "sop", "cases": cases, "model": "cmp_run srun",
               "monitors": {"c18sm": "sm_monitor"}}]
    if not replay or (replay.get("cfg", {}).get("hs_timeout_ms") is not None and not is_auth and not any(o[0] == "pinger" for o in replay.get("ops", []))):
        # a handshake time-out configured as zero / very short: the sender's wait for the handshake ends at once;
        # whatever the connection then does, nothing but handshake-type messages may be written and nothing may be
        # acknowledged without having been written.  Monitor only (the model has no zero-length wait).
        zcases = []
        if replay:
            zcases.append({"cfg": replay["cfg"], "ops": replay["ops"], "origin": "replay"})
        else:
            for ms in (0, 1):
                for ops in ([["send", 2], ["connect"], ["writes"], ["send", 4], ["send", 7], ["writes"], ["drop"], ["writes"]],
                            [["connect"], ["send", 2], ["send", 3], ["writes"], ["drop"], ["connect"], ["writes"], ["drop"], ["writes"]]):
                    zcases.append({"cfg": {"hs_timeout_ms": ms}, "ops": ops, "origin": "scripted-zero-handshake-timeout"})
        for c in zcases:
            c["coq_ops"] = [sm_coq(o) for o in c["ops"]]
        groups.append({"key": "sendmachine-hs0", "optype": "sop", "cases": zcases, "monitors": {"c18sm": "sm_monitor"}})
    if not replay or (is_auth and not any(o[0] == "pinger" for o in replay.get("ops", []))):
        acases = []
        if replay:
            acases.append({"cfg": replay["cfg"], "ops": replay["ops"], "origin": "replay"})
        else:
            acases += [{"cfg": {}, "ops": ops, "origin": "scripted-late-accept"} for ops in AUTH_SCRIPTED]
            for i in range(40 if tier == "quick" else 500):
                r = rng.fork(18900 + i)
                acases.append(gen_auth(r, r.range(6, 18)))
        for c in acases:
            c["coq_ops"] = [auth_coq(o) for o in c["ops"]]
        groups.append({"key": "sendmachine-auth", "optype": "aop", "cases": acases, "model": "cmp_run arun",
                       "monitors": {"c18auth": "auth_monitor"}})
    is_ping = bool(replay) and any(o[0] == "pinger" for o in replay.get("ops", []))
    if (not replay and (tier != "quick" or send_sites_changed())) or is_ping:
        # the keep-alive goroutine (a ping every two minutes, counted from Run) ticking while a connection's handshake is
        # not complete: the ping is a request and must wait in the gated queue.  Takes two minutes: thorough tier, and
        # the quick tier when the source's list of sendDirect callers (gen/SendSites.v) is not the model's any more.
        pops = replay["ops"] if is_ping else [["pinger"], ["connect"], ["sleep", 122500], ["writes"], ["drop"], ["writes"]]
        pc = {"cfg": replay["cfg"] if is_ping else {"hs_timeout_ms": 300000}, "ops": pops, "origin": "scripted-keepalive"}
        pc["coq_ops"] = [sm_coq(o) for o in pc["ops"]]
        groups.append({"key": "sendmachine-ping", "optype": "sop", "cases": [pc], "monitors": {"c18sm": "sm_monitor"}})
    for g in groups:
        for c in g["cases"]:
            if "coq_ops" not in c:
                c["coq_ops"] = [sm_coq(o) for o in c["ops"]]
    return Suite("sendmachine", "sendmachine", ["From V.model Require Import SendMachine SendAuth."], groups)


def suites(tier, rng, replay):
    res = []
    if not replay or replay.get("suite") != "sendmachine":
        res.append(clientgen.build_suite(tier, rng, replay, ["auth", "auth", "auth", "idgate", "router"], "C18",
                                         {"c18": "c18_monitor @FULL@"}, 240, 4000, 18000))
    res.append(sm_suite(tier, rng, replay))
    return res


def keyfn(rec):
    if rec.get("suite") == "clientnet":
        return clientnet.key_for(rec)
    if rec.get("suite") == "sendmachine":
        ops = rec.get("ops", [])
        step = rec.get("step", 0)
        opn = ops[step][0] if 0 <= step < len(ops) else "?"
        code = (rec.get("expected") or [0])[0] if rec.get("checker") != "model" else 0
        return "sendmachine:%s:%s:%s" % (rec.get("checker"), code, opn)
    return clientgen.keyfn(rec)


def extra(tier, rng, workdir):
    return clientnet.evaluate("C18", tier, rng, workdir)


SPEC = {
    "pid": "C18",
    "extra": extra,
    "props_file": "props/C18.v",
    "suites": suites,
    "keyfn": keyfn,
    "trusted_base": [
        "Coq 8.16.1 kernel (coqc); vm_compute for evaluating model and monitor on the cases; no native_compute",
        "axioms: none declared; Print Assumptions recorded under print_assumptions",
        "symbolic cryptography: keys are root keys or keys derived from (root, session hash), a signature records signer and content, verification is equality (ECDSA unforgeability, injectivity of the key derivation and of the sig-hash preimage are idealised)",
        "hand-written models coq/model/Client.v (handleMessage: accept verification, gating on accepted; Ready) and coq/model/SendMachine.v (sendMessage, sendMessages, runConnection teardown, carried message), tied to the code by two correspondence runs: (1) real handleMessage in-package with real keys and really forged AcceptRegister messages (wrong key, key for another hash, signature by another key, altered counts, signature for another session hash, root key); (2) real runConnection / sendMessages / sendMessage / Ready over an in-memory connection that records writes, can break, can end its read side and closes slowly",
    ],
    "assumptions": ["the send-machine scenarios are deterministic schedules (the sends goroutine is left to run to quiescence after every operation; 25 ms settle time); the theorems quantify over ALL interleavings of the model's atomic steps",
                    "the application declares ready only on a connection it was told is accepted (the repository's own client does so from HandleMessage(AcceptRegister)); Ready before accept marks the handshake complete - reported by monitor code 804 only when neither happened",
                    "socket buffering, TCP and the real server are outside the model"],
    "rule": "(1) server streams with data before accept, forged accepts of 7 kinds, genuine accepts, both connection types, ready before / after accept, reconnects; (2) schedules of connect / ready / sendMessage of handshake-type and other messages / write failure / connection drop with and without a completed handshake, including a carried message crossing a connection that never completes its handshake; distinct = distinct (cfg, ops)",
}

if __name__ == "__main__":
    checklib.run_check(SPEC)
