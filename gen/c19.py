"""C19 - Stop always terminates, persists, silences handlers; a lost trusted connection is followed by
reconnection and resumption from the stored tip.

Proof side: props/C19.v over the transition system model/Shutdown.v (all interleavings).
Correspondence side: the REAL Node.Run against a scripted trusted peer on a loopback TCP listener
(harness component "shutdown"); every scenario is compared with the scenario model `srun` (built on the
same transition system) and checked by the executable monitor `c19_monitor`."""
import json
import os
import sys

sys.path.insert(0, os.path.dirname(os.path.abspath(__file__)))
import checklib
import vlib
from checklib import Suite


def zlit(v):
    return "(%d)" % v if v < 0 else "%d" % v


def coq_op(o):
    n = o[0]
    simple = {"start": "SStart", "listen": "SListen", "unlisten": "SUnlisten", "peer_accept": "SAccept",
              "peer_version": "SVersion", "peer_sync": "SSync", "peer_ping": "SPing", "peer_close": "SClose",
              "peer_reset": "SClose", "peer_silence": "SSilence", "age": "SAge", "wait_restart": "SWaitRestart",
              "stop": "SStop", "stop_async": "SStopAsync", "stop_wait": "SStopWait", "quiet": "SQuiet",
              "stored": "SStored", "announced": "SAnnounced", "counts": "SCounts", "drain": "SDrain", "sleep": "SSleep"}
    if n in simple:
        return simple[n]
    if n == "peer_close_stop":
        return "SCloseStop"
    if n == "api_tx":
        return "(SApiTx %d %s)" % (o[1], "true" if o[2] else "false")
    if n == "api_fill":
        return "(SApiFill %d)" % o[1]
    if n == "api_result":
        return "SApiResult"
    if n == "peer_blockinv":
        return "SBlockInv"
    if n == "restart":
        return "SRestart"
    if n == "peer_txblock":
        return "(STxBlock %d %s)" % (o[1], "true" if o[2] else "false")
    if n == "peer_burst_rel":
        return "(SBurstRel %d)" % o[1]
    if n == "wait_delivered":
        return "(SDelivered %d)" % o[1]
    if n == "peer_inv":
        return "(SInv %d)" % o[1]
    if n == "tx_age":
        return "STxAge"
    if n == "peer_getdata":
        return "(SGetData %d)" % o[1]
    if n == "peer_headers":
        return "(SHeaders %d)" % o[1]
    if n == "peer_blocks":
        return "(SBlocks %d)" % o[1]
    if n == "peer_tx":
        return "(STx %d %s)" % (o[1], "true" if o[2] else "false")
    if n == "peer_burst":
        return "(SBurst %d)" % o[1]
    if n == "peer_addr":
        return "(SAddr %d)" % o[1]
    if n in ("u_count", "u_peer", "u_addr", "u_wait_conn", "u_wait_seen", "u_conns", "u_listed", "u_release", "u_close"):
        return "(%s %s)" % ({"u_count": "SUCount", "u_peer": "SUPeer", "u_addr": "SUAddr", "u_wait_conn": "SUWaitConn",
                             "u_wait_seen": "SUWaitSeen", "u_conns": "SUConns", "u_listed": "SUListed",
                             "u_release": "SURelease", "u_close": "SUClose"}[n], zlit(o[1]))
    if n in ("u_inv", "u_getdata"):
        return "(%s %s %d)" % ("SUInv" if n == "u_inv" else "SUGetData", zlit(o[1]), o[2])
    if n == "wait_scanning":
        return "(SWaitScan %s)" % ("true" if o[1] else "false")
    if n == "broadcast":
        return "(SBroadcast %d)" % o[1]
    if n == "counts_u":
        return "SCountsU"
    if n == "hold":
        return "(SHold %d)" % o[1]
    if n == "release":
        return "(SRelease %s)" % ("true" if o[1] else "false")
    raise KeyError(n)


TAIL = [["quiet", 250], ["stored"], ["announced"]]


class Gen:
    """Builds one scenario; keeps the bookkeeping needed to stay inside what the scripted peer can do."""

    def __init__(self, rng):
        self.r = rng
        self.ops = []
        self.ntx = 0
        self.sent = 0      # headers sent on this connection beyond the tip
        self.tip = 0       # blocks served
        self.ready = False
        self.rel = []      # relevant txs delivered so far
        self.untrusted = False   # UntrustedCount > 0: the monitor goroutine runs too (not in the thread counts of the model)

    def add(self, *o):
        self.ops.append(list(o))

    def handshake(self):
        self.add("peer_accept")
        self.add("peer_version")
        self.sent = 0
        self.ready = False
        if self.r.chance(1, 4) and not self.untrusted:
            self.add("counts")

    def headers(self, n):
        self.add("peer_headers", n)
        self.sent += n

    def blocks(self, k):
        self.add("peer_blocks", k)
        self.sent -= k
        self.tip += k

    def sync_some(self, maxn=4):
        n = self.r.range(1, maxn)
        self.headers(n)
        k = self.r.range(1, n)
        # in one or two messages
        if k > 1 and self.r.chance(1, 2):
            a = self.r.range(1, k - 1)
            self.blocks(a)
            self.blocks(k - a)
        else:
            self.blocks(k)
        return n - k

    def finish_blocks(self):
        if self.sent > 0:
            self.blocks(self.sent)

    def insync(self):
        self.finish_blocks()
        self.add("peer_sync")
        self.ready = True

    def tx(self, rel):
        self.ntx += 1
        self.add("peer_tx", self.ntx, 1 if rel else 0)
        if rel:
            self.rel.append(self.ntx)

    def api_tx(self, rel):
        self.ntx += 1
        self.add("api_tx", self.ntx, 1 if rel else 0)
        if rel:
            self.rel.append(self.ntx)

    def restart(self):
        self.add("restart")
        self.add("peer_accept")
        self.add("peer_version")
        self.sent = 0
        self.ready = False

    def traffic(self):
        for _ in range(self.r.range(1, 4)):
            k = self.r.weighted([("rel", 4), ("irr", 3), ("ping", 1), ("addr", 2)])
            if k == "rel":
                self.tx(True)
            elif k == "irr":
                self.tx(False)
            elif k == "ping":
                self.add("peer_ping")
            else:
                self.add("peer_addr", self.r.range(1, 3))

    def stop_tail(self):
        self.add("stop")
        self.ops += [list(x) for x in TAIL]


def scenario(rng, kind):
    g = Gen(rng)
    r = rng
    if kind == "connecting":
        g.add("unlisten")
        g.add("start")
        g.add("sleep", r.choice([0, 30, 150, 260, 420]))
        g.stop_tail()
    elif kind == "handshake":
        g.add("start")
        stage = r.range(0, 2)
        if stage >= 1:
            g.add("peer_accept")
        if stage >= 2:
            g.add("peer_version")
        g.add("sleep", r.choice([0, 0, 40, 120]))
        g.stop_tail()
    elif kind == "headers":
        g.add("start")
        g.handshake()
        g.headers(r.range(1, 5))
        if r.chance(1, 2):
            g.add("sleep", r.choice([0, 60, 130]))
        g.stop_tail()
    elif kind == "midblocks":
        g.add("start")
        g.handshake()
        left = g.sync_some(5)
        if left == 0:
            g.headers(r.range(1, 3))
        g.stop_tail()
    elif kind == "heldblock":
        g.add("start")
        g.handshake()
        if r.chance(1, 2):
            g.sync_some(3)
            g.finish_blocks()
        g.headers(r.range(1, 3))
        g.add("hold", 3)
        g.blocks(1)
        g.add("stop_async")
        g.add("release", 0)
        g.add("stop_wait")
        g.ops += [list(x) for x in TAIL]
    elif kind == "insync":
        g.add("start")
        g.handshake()
        if r.chance(2, 3):
            g.sync_some(4)
        g.insync()
        g.traffic()
        g.stop_tail()
    elif kind == "heldtx":
        g.add("start")
        g.handshake()
        g.insync()
        if r.chance(1, 2):
            g.traffic()
        g.add("hold", r.choice([1, 100]))
        g.tx(True)
        if r.chance(1, 2):
            g.add("peer_burst", r.range(3, 40))
        g.add("stop_async")
        g.add("release", 0)
        g.add("stop_wait")
        g.ops += [list(x) for x in TAIL]
    elif kind == "heldtx_blockloss":
        # in sync; the tx thread is inside a relevant tx (output fetch held: it holds the block lock); a block is
        # announced and delivered (the block thread pops it and waits behind the tx); the trusted connection is lost in
        # exactly that window; the fetch returns; reconnect: the node must resume from its stored tip and deliver that
        # block and what follows
        g.add("start")
        g.handshake()
        g.sync_some(3)
        g.insync()
        g.add("hold", 100)
        g.tx(True)
        g.headers(1)
        g.blocks(1)
        g.add("sleep", 300)
        g.add(r.choice(["peer_close", "peer_reset"]))
        g.add("sleep", 150)
        g.add("release", 0)
        g.add("sleep", 400)
        g.add("announced")
        g.add("peer_accept")
        g.sent = 0
        g.ready = False
        g.add("peer_version")
        g.sync_some(3)
        g.insync()
        g.traffic()
        g.stop_tail()
    elif kind == "abort":
        # the consumer of the tx channel fails while the channel is NOT full: the node stops by itself
        g.add("start")
        g.handshake()
        g.insync()
        g.add("hold", 100)
        g.tx(True)
        if r.chance(1, 2):
            g.add("peer_burst", r.range(1, 30))
        g.add("release", 1)
        g.stop_tail()
    elif kind == "afterloss":
        g.add("start")
        g.handshake()
        stage = r.range(0, 2)
        if stage >= 1:
            g.sync_some(4)
        if stage >= 2:
            g.insync()
            g.traffic()
        g.add(r.choice(["peer_close", "peer_reset"]))
        g.add("sleep", r.choice([0, 0, 50, 150, 320, 500, 750]))
        g.stop_tail()
    elif kind == "stoprestarting":
        # Stop lands inside the shutdown that precedes the reconnect (deterministically: the harness polls
        # needsRestart && stopping && connection == nil and calls Stop at that moment)
        g.add("start")
        g.handshake()
        stage = r.range(0, 2)
        if stage >= 1:
            g.sync_some(4)
        if stage >= 2:
            g.insync()
            g.traffic()
        g.add("peer_close_stop", r.range(0, 1))
        g.ops += [list(x) for x in TAIL]
    elif kind == "blockfail":
        # a block with a NEW relevant tx whose spent output cannot be fetched: ProcessBlock fails in the middle
        # (it holds the tx repository's unconfirmed lock there), processBlocks leaves; then Stop, or first a lost
        # connection (the restart saves too) and then Stop
        g.add("start")
        g.handshake()
        if r.chance(1, 2):
            g.sync_some(3)
            g.finish_blocks()
        if r.chance(1, 2):
            g.insync()
        g.add("hold", 100)
        g.ntx += 1
        g.add("peer_txblock", g.ntx, 1)
        g.tip += 1
        g.add("release", 1)
        if r.chance(1, 2):
            g.add(r.choice(["peer_close", "peer_reset"]))
            g.add("peer_accept")
        g.stop_tail()
    elif kind == "txblocks":
        # blocks carrying relevant / other txs, processed normally
        g.add("start")
        g.handshake()
        for _ in range(r.range(1, 3)):
            g.ntx += 1
            g.add("peer_txblock", g.ntx, r.range(0, 1))
            g.tip += 1
        g.stop_tail()
    elif kind == "backpressure":
        # in sync, a relevant tx sits in a held handler, the peer sends 150 more DISTINCT relevant txs (100 fill the
        # channel, monitorIncoming waits inside Add), the handler returns: every one of the 151 is delivered
        g.add("start")
        g.handshake()
        g.insync()
        g.add("hold", r.choice([1, 100]))
        g.tx(True)
        n = r.choice([150, 150, 120, 101])
        g.add("peer_burst_rel", n)
        g.add("release", 0)
        g.add("wait_delivered", n + len(g.rel))
        g.stop_tail()
    elif kind in ("tracker_first", "tracker_reconnect"):
        # C14 on the trusted connection: the peer announces a tx (the node asks for it), does not deliver, announces it
        # again inside the window (only remembered), the window passes, the peer shows activity: asked again.
        # tracker_reconnect: the same after the trusted connection was lost and made again in the same process.
        g.add("start")
        g.handshake()
        g.insync()

        def cycle():
            g.ntx += 1
            t = g.ntx
            g.add("peer_inv", t)
            g.add("peer_inv", t)
            g.add("tx_age", r.choice([4, 5, 10]))
            g.add("peer_getdata", t)
            return t
        if kind == "tracker_first" or r.chance(1, 2):
            cycle()
        if kind == "tracker_reconnect":
            g.add(r.choice(["peer_close", "peer_reset"]))
            g.add("peer_accept")
            g.add("peer_version")
            g.sent = 0
            g.insync()
            t = cycle()
            g.add("peer_getdata", t)
        g.add("stop")
    elif kind in ("scanstop", "scanclose", "scanquiet", "scanlong"):
        # the monitor of the untrusted nodes (UntrustedCount > 0).  scanstop / scanclose: one never-checked address
        # is stored, so scan() dials it and keeps its ~10 s handshake window open; Stop, or the loss of the trusted
        # connection (restart) and then Stop, at several offsets INSIDE the window.  scanquiet: no unchecked address
        # (scan returns at once).  scanlong: the window is waited out (also with a broadcast tx made pending inside
        # it, which keeps later passes from scanning; also with an address told by the trusted peer right after the
        # scan, which the next pass scans), Stop / loss OUTSIDE the window.
        g.untrusted = True
        g.add("u_count", r.range(1, 2))
        if kind != "scanquiet":
            g.add("u_peer", 2)
        told = kind == "scanlong" and r.chance(1, 3)
        if told:
            g.add("u_peer", 5)
        g.add("start")
        g.handshake()
        if r.chance(1, 3):
            g.sync_some(3)
        g.insync()
        if kind == "scanquiet":
            g.add("sleep", r.choice([0, 200, 700, 1200]))
        else:
            g.add("wait_scanning", 1, 3000)
            if r.chance(1, 2):
                g.add("u_wait_seen", 0, 3000)
            if kind == "scanlong":
                pending = (not told) and r.chance(1, 2)
                if pending:
                    g.ntx += 1
                    g.add("broadcast", g.ntx)
                g.add("wait_scanning", 0, 13000)
                if told:
                    g.add("u_addr", 1)
                    g.add("u_wait_seen", 1, 6000)
                elif not pending:
                    g.add("u_wait_conn", 0, 4000)
                    g.add("u_listed", 0)
                g.add("sleep", r.choice([0, 300, 2300]))
            else:
                g.add("sleep", r.choice([0, 150, 400, 900, 1800]))
        if kind == "scanclose" or (kind in ("scanquiet", "scanlong") and r.chance(1, 3)):
            g.add(r.choice(["peer_close", "peer_reset"]))
            stage = r.range(0, 3)
            if stage >= 1:
                g.add("peer_accept")
                g.sent = 0
            if stage >= 2:
                g.add("peer_version")
            if stage >= 3:
                g.insync()
        g.stop_tail()
        g.add("counts_u")
    elif kind in ("ulist", "slowdial", "udrop", "udialdrop"):
        # untrusted peers the monitor connects: every connected one is in the node's list, so the clean-up after a
        # block reaches its tracker.  The trusted peer announces t (asked, not delivered), the untrusted peer
        # announces it too (remembered); either the window passes (the untrusted peer is asked at its next
        # activity) or a block confirms t first (it is never asked).
        # slowdial: the peer's dial takes ~3 s (listen backlog 0), longer than the monitor's 2 s period.
        # udrop: two good peers, one wanted: the connected one closes, the other one is connected.
        # udialdrop: two wanted; the slow one closes its listener while the node is still dialling.
        g.untrusted = True
        if kind == "udialdrop":
            g.add("u_count", 2)
            g.add("u_peer", 3)
            g.add("u_peer", 1)
        else:
            g.add("u_count", 1)
            g.add("u_peer", 3 if kind == "slowdial" else 1)
            if kind == "udrop":
                g.add("u_peer", 1)
        g.add("start")
        g.handshake()
        if r.chance(1, 3):
            g.sync_some(3)
        g.insync()
        who = 0
        if kind == "slowdial":
            # the node's SYNs: at the dial (<= 0.5 s after in sync), 1 s later, 3 s later: releasing the listener between
            # the second and the third makes the dial take 3 s, so the monitor's next pass (2 s) falls inside it
            g.add("sleep", r.choice([1700, 2000, 2300]))
            g.add("u_release", 0)
            g.add("u_wait_conn", 0, 7000)
        elif kind == "udrop":
            who = -1
            g.add("u_wait_conn", -1, 4000)
            g.add("u_listed", -1)
            g.add("u_close", -1)
            g.add("u_wait_conn", -1, 7000)
        elif kind == "udialdrop":
            who = 1
            g.add("u_wait_conn", 1, 4000)
            g.add("sleep", r.choice([100, 500]))
            g.add("u_close", 0)
            g.add("sleep", 2600)
            g.add("u_wait_conn", 1, 1000)
            g.add("u_listed", 0)
        else:
            g.add("u_wait_conn", 0, 4000)
        g.add("u_listed", who)
        for _ in range(r.range(1, 2)):
            g.ntx += 1
            t = g.ntx
            g.add("peer_inv", t)
            g.add("u_inv", who, t)
            if r.chance(1, 2) or kind == "slowdial":
                g.add("peer_txblock", t, 1)      # (the announcement made it a relevant tx of the scripted universe)
                g.tip += 1
                g.add("tx_age", r.choice([4, 60]))
                g.add("u_getdata", who, t)
            else:
                g.add("tx_age", r.choice([4, 10]))
                g.add("u_getdata", who, t)
                g.add("u_getdata", who, t)
        g.stop_tail()
        g.add("counts_u")
    elif kind == "apifill":
        # a concurrent caller of the public API: a relevant tx sits in a held handler / fetcher call (nothing is
        # taken off the tx channel), the application fills the 100 slots through Node.HandleTx, call 101 waits for
        # room; Stop is requested while it waits; then the held call returns
        g.add("start")
        g.handshake()
        g.insync()
        if r.chance(1, 2):
            g.traffic()
        g.add("hold", r.choice([1, 100]))
        g.tx(True)
        g.add("api_fill", 101)
        g.add("stop_async")
        g.add("release", 0)
        g.add("stop_wait")
        g.add("api_result")
        g.ops += [list(x) for x in TAIL]
    elif kind == "apicalls":
        # API calls that all return (with and without the node being in sync), then Stop
        g.add("start")
        g.handshake()
        if r.chance(1, 2):
            g.insync()
        else:
            g.headers(r.range(1, 3))
        g.add("api_fill", r.range(3, 60))
        g.add("api_result")
        if r.chance(1, 2):
            g.api_tx(True)
        g.stop_tail()
    elif kind == "persist_inv":
        # a relevant tx delivered while in sync, in sync cleared by a block announced by inventory, Stop while out
        # of sync; what a fresh process loads from the store; the re-announced tx is not delivered again
        g.add("start")
        g.handshake()
        if r.chance(1, 2):
            g.sync_some(3)
        g.insync()
        g.tx(True)
        if r.chance(1, 2):
            g.traffic()
        g.add("peer_blockinv", r.range(1, 50))
        g.stop_tail()
        g.restart()
        if r.chance(1, 2):
            g.sync_some(2)
        g.insync()
        g.add("peer_tx", r.choice(g.rel), 1)
        g.tx(True)
        g.stop_tail()
    elif kind == "persist_api":
        # a relevant tx fed through Node.HandleTx during the initial sync (never in sync), Stop, restart
        g.add("start")
        g.handshake()
        stage = r.range(0, 2)
        if stage >= 1:
            g.headers(r.range(1, 3))
        if stage >= 2:
            g.blocks(1)
        g.api_tx(True)
        if r.chance(1, 2):
            g.api_tx(False)
        if r.chance(1, 3):
            g.api_tx(True)
        g.stop_tail()
        g.restart()
        g.sent = 0
        if r.chance(1, 2):
            g.sync_some(2)
        g.insync()
        g.add("peer_tx", r.choice(g.rel), 1)
        if r.chance(1, 2):
            g.tx(True)
        g.stop_tail()
    elif kind == "reconnecting":
        g.add("start")
        g.handshake()
        g.sync_some(4)
        g.add("unlisten")
        g.add(r.choice(["peer_close", "peer_reset"]))
        g.add("wait_restart")
        g.add("sleep", r.choice([0, 100, 250]))
        g.stop_tail()
    elif kind == "reconnected":
        g.add("start")
        g.handshake()
        g.sync_some(4)
        if r.chance(1, 2):
            g.insync()
            g.traffic()
        g.add(r.choice(["peer_close", "peer_reset"]))
        stage = r.range(0, 3)
        g.add("peer_accept")
        g.sent = 0
        g.ready = False
        if stage >= 1:
            g.add("peer_version")
        if stage >= 2:
            g.sync_some(3)
        if stage >= 3:
            g.insync()
            g.traffic()
        g.stop_tail()
    elif kind == "silence":
        g.add("start")
        stage = r.range(0, 2)
        g.add("peer_accept")
        if stage >= 1:
            g.add("peer_version")
        if stage >= 2:
            g.sync_some(3)
            if g.sent == 0:
                g.headers(1)
        g.add("peer_silence")
        g.add("age", 700)
        if r.chance(1, 2):
            g.add("peer_accept")
            g.sent = 0
            g.add("peer_version")
            if r.chance(1, 2):
                g.sync_some(3)
        g.stop_tail()
    else:
        raise KeyError(kind)
    c = {"cfg": {}, "ops": g.ops, "kind": kind}
    if kind == "heldtx_blockloss":
        c["skip_model"] = True     # the model hands a block to the block thread and processes it in one step: monitor only
    return c


KINDS_QUICK = ["connecting", "connecting", "handshake", "handshake", "handshake", "headers", "headers", "midblocks",
               "midblocks", "heldblock", "heldblock", "insync", "insync", "insync", "heldtx", "heldtx", "abort",
               "afterloss", "afterloss", "afterloss", "reconnecting", "reconnected", "reconnected", "silence",
               "stoprestarting", "stoprestarting", "stoprestarting", "apifill", "apifill", "apicalls",
               "persist_inv", "persist_inv", "persist_api", "persist_api", "blockfail", "blockfail", "blockfail",
               "txblocks", "backpressure", "heldtx_blockloss", "heldtx_blockloss",
               "scanstop", "scanclose", "scanquiet", "ulist", "slowdial", "udrop", "udialdrop"]
WEIGHTS = [("connecting", 2), ("handshake", 3), ("headers", 3), ("midblocks", 4), ("heldblock", 3), ("insync", 5),
           ("heldtx", 3), ("heldtx_blockloss", 2), ("abort", 2), ("afterloss", 5), ("reconnecting", 2), ("reconnected", 5), ("silence", 1), ("stoprestarting", 4), ("apifill", 3),
           ("apicalls", 2), ("persist_inv", 3), ("persist_api", 3), ("blockfail", 4),
           ("txblocks", 2), ("backpressure", 2),
           ("scanstop", 3), ("scanclose", 3), ("scanquiet", 1), ("scanlong", 2), ("ulist", 2), ("slowdial", 2), ("udrop", 2),
           ("udialdrop", 1)]


UOPS = {"ustart": "UStart", "ufill": "UFill", "ureset": "UReset", "ustop": "UStop", "ucounts": "UCounts",
        "udrain": "UDrain"}


def untrusted_suite(tier, rng, replay):
    """A real UntrustedNode against a peer that never reads and keeps pinging (component "untrusted")."""
    cases = []
    if replay:
        cases.append({"cfg": replay.get("cfg", {}), "ops": replay["ops"], "origin": "replay"})
    else:
        d = os.path.join(vlib.VERIF, "corpus", "C19u")
        if os.path.isdir(d):
            for f in sorted(os.listdir(d)):
                if f.endswith(".json"):
                    j = json.load(open(os.path.join(d, f)))
                    cases.append({"cfg": j.get("cfg", {}), "ops": j["ops"], "origin": "corpus/C19u/" + f})
        n = 4 if tier == "quick" else 12
        for i in range(n):
            r = rng.fork(19900 + i)
            ops = [["ustart"]]
            if r.chance(1, 3):
                ops.append(["ucounts"])
            k = i % 4 if tier == "quick" else r.range(0, 3)
            if k <= 1:
                ops.append(["ufill"])
                if k == 1:
                    ops.append(["ureset"])
            elif k == 2:
                ops.append(["ureset"])
            ops.append(["ustop", 3000])
            ops.append(["ucounts"])
            cases.append({"cfg": {}, "ops": ops})
    for c in cases:
        c["coq_ops"] = [UOPS[o[0]] for o in c["ops"]]
    return Suite("untrusted", "untrusted", ["From V.model Require Import Shutdown."],
                 [{"key": "untrusted", "optype": "uop", "cases": cases, "model": "cmp_run urun",
                   "monitors": {"c19u": "c19u_monitor"}}])


def suites(tier, rng, replay):
    if replay and replay.get("suite") == "untrusted":
        return [untrusted_suite(tier, rng, replay)]
    res = [shutdown_suite(tier, rng, replay)]
    if not replay:
        res.append(untrusted_suite(tier, rng, None))
    return res


def shutdown_suite(tier, rng, replay):
    cases = []
    if replay:
        cases.append({"cfg": replay.get("cfg", {}), "ops": replay["ops"], "origin": "replay"})
    else:
        d = os.path.join(vlib.VERIF, "corpus", "C19")
        if os.path.isdir(d):
            for f in sorted(os.listdir(d)):
                if f.endswith(".json"):
                    j = json.load(open(os.path.join(d, f)))
                    cases.append({"cfg": j.get("cfg", {}), "ops": j["ops"], "origin": "corpus/C19/" + f})
        if tier == "quick":
            for i, k in enumerate(KINDS_QUICK):
                c = scenario(rng.fork(19000 + i), k)
                cases.append(c)
        else:
            for i in range(300):
                r = rng.fork(19500 + i)
                cases.append(scenario(r, r.weighted(WEIGHTS)))
    for c in cases:
        c["coq_ops"] = [coq_op(o) for o in c["ops"]]
        c["model"] = "cmp_run srun"
        if any(o[0] == "hold" and o[1] == 100 for o in c["ops"]) and any(o[0] in ("peer_close", "peer_reset") for o in c["ops"]) \
                and c.get("origin") == "replay":
            c["skip_model"] = True
    return Suite("shutdown", "shutdown", ["From V.model Require Import Shutdown."],
                 [{"key": "shutdown", "optype": "sop", "cases": cases, "per_case_model": True,
                   "monitors": {"c19": "c19_monitor"}}])


def persist_scenarios(tier, rng, workdir):
    """The persistence scenarios alone (Stop while NOT in sync with a delivered relevant tx; what a fresh process
    loads; re-announcement after the restart), for the `extra` hook of another property's check (C11).
    Returns {"failures", "red", "evaluations", "coverage"}; failure records carry suite = "shutdown_persist"."""
    n = 4 if tier == "quick" else 24
    cases = []
    for i in range(n):
        r = rng.fork(19700 + i)
        cases.append(scenario(r, "persist_inv" if i % 2 == 0 else "persist_api"))
    for c in cases:
        c["coq_ops"] = [coq_op(o) for o in c["ops"]]
    su = Suite("shutdown_persist", "shutdown", ["From V.model Require Import Shutdown."],
               [{"key": "shutdown_persist", "optype": "sop", "cases": cases, "model": "cmp_run srun",
                 "monitors": {"c19": "c19_monitor"}}])
    r = checklib.eval_suite(su, os.path.join(workdir, "persist"))
    red = []
    if r["coq_errors"]:
        red.append({"what": "model-evaluation", "suite": su.name, "detail": r["coq_errors"][0]})
    if r["model_fail"]:
        red.append({"what": "correspondence", "suite": su.name, "count": len(r["model_fail"]),
                    "first": checklib.slim(r["model_fail"][0])})
    hist = {}
    for c in cases:
        for o in c["ops"]:
            hist[o[0]] = hist.get(o[0], 0) + 1
    return {"failures": r["monitor_fail"], "red": red, "evaluations": r["evaluations"],
            "coverage": {"persist_scenarios": {"cases": r["evaluations"], "steps": r["steps"], "op_histogram": hist,
                                               "model_mismatches": len(r["model_fail"]),
                                               "monitor_failures": len(r["monitor_fail"])}}}


def _side_suite(name, kinds, tier, rng, workdir, salt, nquick, nthorough):
    n = nquick if tier == "quick" else nthorough
    cases = []
    for i in range(n):
        r = rng.fork(salt + i)
        cases.append(scenario(r, kinds[i % len(kinds)]))
    for c in cases:
        c["coq_ops"] = [coq_op(o) for o in c["ops"]]
    su = Suite(name, "shutdown", ["From V.model Require Import Shutdown."],
               [{"key": name, "optype": "sop", "cases": cases, "model": "cmp_run srun",
                 "monitors": {"c19": "c19_monitor"}}])
    r = checklib.eval_suite(su, os.path.join(workdir, name))
    red = []
    if r["coq_errors"]:
        red.append({"what": "model-evaluation", "suite": su.name, "detail": r["coq_errors"][0]})
    if r["model_fail"]:
        red.append({"what": "correspondence", "suite": su.name, "count": len(r["model_fail"]),
                    "first": checklib.slim(r["model_fail"][0])})
    hist = {}
    for c in cases:
        for o in c["ops"]:
            hist[o[0]] = hist.get(o[0], 0) + 1
    return {"failures": r["monitor_fail"], "red": red, "evaluations": r["evaluations"],
            "coverage": {name: {"cases": r["evaluations"], "steps": r["steps"], "op_histogram": hist,
                                "model_mismatches": len(r["model_fail"]),
                                "monitor_failures": len(r["monitor_fail"])}}}


def completeness_scenarios(tier, rng, workdir):
    """Delivery under back-pressure on the real run loop, for the `extra` hook of C03: a relevant tx sits in a held
    handler / fetcher call, the peer sends 101-150 more distinct relevant txs while in sync, the call returns;
    monitor code 911: fewer distinct new-tx notifications than relevant txs received in sync.
    Failure records carry suite = "shutdown_complete"."""
    return _side_suite("shutdown_complete", ["backpressure"], tier, rng, workdir, 19800, 2, 10)


def tracker_reconnect_scenarios(tier, rng, workdir):
    """C14 on the real run loop, for the `extra` hook of gen/c14.py: re-request of an announced, undelivered tx at
    the trusted peer's next activity after the window - on the first connection and after a reconnect in the same
    process.  Monitor code 912.  Failure records carry suite = "shutdown_tracker"."""
    return _side_suite("shutdown_tracker", ["tracker_first", "tracker_reconnect", "tracker_reconnect"], tier, rng, workdir,
                       19850, 3, 12)


def untrusted_list_scenarios(tier, rng, workdir):
    """C14 on the real run loop with the REAL monitor of the untrusted nodes, for the `extra` hook of gen/c14.py: the
    monitor dials scripted untrusted peers (one of them slowly: the dial outlasts the monitor's 2 s period; one dropped
    and another one connected); every connected peer must be in the node's list (914) and must not be asked for an
    announced tx that a processed block confirmed (913).  Failure records carry suite = "shutdown_ulist"."""
    return _side_suite("shutdown_ulist", ["slowdial", "ulist", "udrop", "slowdial", "udialdrop"], tier, rng, workdir, 19870, 2, 10)


def keyfn(rec):
    if rec.get("suite") == "untrusted":
        ops = rec.get("ops", [])
        step = rec.get("step", 0)
        opn = ops[step][0] if 0 <= step < len(ops) else "?"
        if rec.get("checker") == "model":
            return "untrusted:model:%s" % opn
        shape = "queue-full" if any(o[0] == "ufill" for o in ops[:max(step, 0)]) else "plain"
        return "untrusted:%s:%s:%s:%s" % (rec.get("checker"), (rec.get("expected") or [0])[0], opn, shape)
    ops = rec.get("ops", [])
    step = rec.get("step", 0)
    opn = ops[step][0] if 0 <= step < len(ops) else "?"
    if rec.get("checker") == "model":
        return "shutdown:model:%s" % opn
    code = (rec.get("expected") or [0])[0]
    before = [o for o in ops[:max(step, 0)]]
    aborted = any(o[0] == "release" and len(o) > 1 and o[1] for o in before)
    full = any(o[0] == "peer_burst" for o in before)
    shape = "consumer-abort-full-channel" if (aborted and full) else ("consumer-abort" if aborted else "plain")
    if any(o[0] == "api_fill" for o in before):
        shape = "api-caller-" + shape
    if any(o[0] == "restart" for o in before):
        shape = "after-restart-" + shape
    insync = None
    for o in before:
        if o[0] == "peer_sync":
            insync = True
        elif o[0] in ("peer_blockinv", "restart", "peer_close", "peer_reset"):
            insync = False
    if opn == "peer_getdata":
        shape = "after-reconnect" if any(o[0] in ("peer_close", "peer_reset") for o in before) else "first-connection"
    if any(o[0] == "peer_burst_rel" for o in before):
        shape = "backpressure-" + shape
    if any(o[0] == "peer_txblock" for o in before):
        shape = "txblock-" + shape
    if opn == "stored" and not insync:
        shape = "not-in-sync-" + shape
    kinds = [o[1] for o in ops if o[0] == "u_peer"]
    if any(o[0] == "u_count" for o in ops):
        shape = "untrusted-%s%s" % ("slow-dial-" if 3 in kinds else ("scan-window-" if any(o[0] == "wait_scanning" and o[1] for o in before) else ""), shape)
    return "shutdown:%s:%s:%s:%s" % (rec.get("checker"), code, opn, shape)


def resume_extra(tier, rng, workdir):
    """"A lost trusted connection is followed by reconnection and resumption from the stored tip": the connection is lost
    while a delivered block waits behind a held relevant tx; after the reconnect the node must end with EVERY block the
    peer delivered on a live connection processed and announced (915 otherwise)."""
    cases = [scenario(rng.fork(19800 + i), "heldtx_blockloss") for i in range(2 if tier == "quick" else 12)]
    res, _ = vlib.run_harness("shutdown", [{"cfg": c["cfg"], "ops": c["ops"]} for c in cases], workdir, tag="resume", timeout=900)
    failures = []
    for c, tr in zip(cases, res):
        served = sum(o[1] for o in c["ops"] if o[0] == "peer_blocks")
        last = max(i for i, o in enumerate(c["ops"]) if o[0] == "announced")
        want = [0] + [x for h in range(1, served + 1) for x in (h, h)]
        if list(tr[last]) != want:
            failures.append({"suite": "shutdown_resume", "checker": "c19", "step": last, "cfg": c["cfg"], "ops": c["ops"], "trace": tr,
                             "expected": [915], "observed": list(tr[last]),
                             "what": "after the trusted connection was lost and made again the node did not process every block the peer "
                                     "delivered (%d served, announced %s)" % (served, list(tr[last])[1::2])})
    return {"failures": failures, "evaluations": len(cases), "coverage": {"resume_scenarios": len(cases)}}


SPEC = {
    "pid": "C19",
    "props_file": "props/C19.v",
    "suites": suites,
    "extra": resume_extra,
    "keyfn": keyfn,
    "trusted_base": [
        "Coq 8.16.1 kernel (coqc); vm_compute for the two concrete witnesses (D26, D27), the non-vacuity examples and for evaluating scenario model and monitor on the cases; no native_compute",
        "axioms: none declared; Print Assumptions recorded under print_assumptions",
        "hand-written model coq/model/Shutdown.v of Node.Run's phased shutdown (run loop, goroutine kinds with their blocking points, channels with mutex, counters incremented inside the goroutines, save phase, restart loop); tied to the code by the correspondence run: the real Node.Run against a scripted peer on a loopback TCP socket, every scenario's observations equal the scenario model's (which drives the same transition system) - a coarse tie: scenarios are deterministic schedules, the theorems quantify over all interleavings",
        "the link to C02 (announce contiguous after reconnect) reuses coq/model/Sync.v and its correspondence (bin/check C02)",
        "harness: recording client.Handler with a gate, output fetcher with a gate, copying store, scripted trusted peer and scripted untrusted peers (shutdown_upeers.go) using tokenized/pkg wire; a slow dial is a raw listen socket with backlog 0 filled by a dummy connection (Linux)",
    ],
    "assumptions": [
        "Go scheduler, TCP and timers are not in the model; fairness hypothesis of stop_terminates: every enabled step of the run loop or of a goroutine eventually happens, and handler callbacks, storage calls, fetcher calls and conn.Close return",
        "hypothesis `prompt` of the safety theorems (D27): a thread counter is never read as zero while a goroutine started for that class has not yet executed its first statement (the increment); needs a goroutine unscheduled for > 100 ms; not reproducible without a scheduler hook, not claimed as a finding (C19_d27_refuted is the model witness)",
        "D26 (processUnconfirmedTxs left its loop on an error while monitorIncoming waited on the full tx channel: Stop never returned) was replayed against the real code and repaired in /repo 99e17c5; the termination theorems are for the repaired consumer (model parameter daf = true) without a hypothesis about it; C19_d26_refuted is the theorem about the old consumer (daf = false); corpus/C19/d26_consumer_abort_full_channel.json is the regression test",
        "in the system of all interleavings one untrusted node stands for all and monitorUntrustedNodes is one thread; its inside (untrustedLock, the list, scan window and flag, dialling / active / done nodes, CleanupBlock over the list) is the second transition system `mstep` of the same file with its own theorems (C19_untrusted_*) - the two are not composed: the run loop waits for MU in the first, MU ends in the second; application calls other than Stop and HandleTx (SendTx; BroadcastTx only as 'a broadcast tx is pending') are outside the model; most Node.Run scenarios run with UntrustedCount = 0, the untrusted-monitor scenarios with 1-2 and scripted untrusted peers on loopback listeners whose addresses are stored in the peer repository beforehand (good / never checked / slow dial over a listen socket with backlog 0 / told later by an addr message); the random choice among stored addresses is not modelled (scenarios keep it immaterial); a single UntrustedNode is also tied separately: a real UntrustedNode (real Run / monitorIncoming / sendOutgoing / Stop) over loopback TCP against a peer that never reads and keeps pinging until the 100-slot outgoing queue is full and the reader waits inside Add (component untrusted); its Run is the same phased protocol in small, so its scenarios are run on the same transition system (MI, RT, SO and the outgoing channel)",
        "bounded time is checked as: Stop returns within 4 s (the phase loops poll every 100 ms; typical 0.4 - 0.7 s); net.Dial to a blackholed address is outside (connect is a step that returns) - this includes the dial of an untrusted node (15 s time-out): scenarios do not call Stop while a slow dial is still hanging",
        "a goroutine started for an untrusted node takes the node's lock before the monitor's next pass 2 s later (otherwise IsActive would report a node that has not started yet as inactive): scheduling hypothesis of the same kind as `prompt`, not exercised",
    ],
    "rule": "scenarios: stop while connecting (peer not listening), during the handshake (before accept / before version / after version), during header sync, in the middle of the block download (also with the HandleHeaders callback of a block held across the stop request), in sync with tx / addr / ping traffic (also with HandleTx or the output fetcher held), right after close / reset of the trusted connection at 0-750 ms, Stop placed exactly inside the shutdown that precedes the reconnect (flags polled: needsRestart, stopping, connection cleared), during the reconnect loop, after reconnection at each handshake stage, peer silence with aged time-outs, consumer abort with and without a full channel; a block with a new relevant tx whose output fetch fails in the middle of ProcessBlock, then Stop or a lost connection and Stop; 101-150 distinct relevant txs under back-pressure (a handler held) all delivered; a concurrent caller of the public API (Node.HandleTx) filling the tx channel while a handler is held, the 101st call waiting for room across the stop request; Stop while NOT in sync with a delivered relevant tx (in sync cleared by a block inventory; tx fed through HandleTx during the initial sync) followed by a restart on the same storage and re-announcement; untrusted node with its outgoing queue full / after a reset by the peer, then Stop; the real monitor of the untrusted nodes (UntrustedCount 1-2): Stop, or loss of the trusted connection and Stop, at 0-1.8 s inside scan()'s ~10 s handshake window (one never-checked address stored), with no unchecked address, and (thorough) after the window was waited out - also with a broadcast tx made pending inside the window and with an address told by the trusted peer right after the scan; untrusted peers connected by the monitor (a good one; one whose dial takes 3 s, longer than the monitor's period; the connected one of two closing so that the other is connected; a slow one closing its listener during the dial): each connected peer is listed (914), announces a tx the trusted peer announced first, and is asked for it after the window / never asked once a block confirmed it (913), then Stop and no untrusted goroutine left; each Node.Run scenario ends with quiet (no callback after Stop returned), stored (fresh repositories loaded from the store vs final in-memory data vs announcements), announced (heights contiguous, none twice); distinct = distinct (cfg, ops)",
}

if __name__ == "__main__":
    checklib.run_check(SPEC)
