"""C20 - decoding hostile bytes fails cleanly (no panic, no allocation out of proportion to the input).

Proof side: props/C20.v - meta-theorem `bounded f -> forall bytes, no panic /\\ alloc <= A*|bytes|+B`,
the refutation witnesses computed from the generated reader formats, and the obligation
`Forall bounded readers`, which does not check while messages.go pre-allocates from wire counts.
Implementation side (this file): hostile inputs - valid encodings with every count / length field
overwritten by 2^63, 2^32, 2^64-1, 0xfffffffe; the witnesses computed in Coq; random bytes behind every
type code; hostile stored records - are decoded by the REAL decoders in a memory-limited child process
(harness component codec_hostile).  A panic, a killed child, a time-out or an allocation above
1 MiB + 1024 * |input| is a concrete failing input, reported once per decoder site (stable key)."""
import json
import os
import re
import struct
import sys
import time

sys.path.insert(0, os.path.dirname(os.path.abspath(__file__)))
import checklib
import codeclib as cl
import vlib
from c15 import harness_ops, sample_pool, OPAQUE_KINDS

REPLAY = None
HOSTILE = [2 ** 63, 2 ** 32, 2 ** 64 - 1, 0xfffffffe]
ALLOC_A, ALLOC_B = 1024, 1 << 20
CFG = {"aslimit_mb": 1024, "timeout_ms": 10000}
CLASS_NAMES = {0: "value", 1: "error", 2: "panic", 3: "killed (out of memory)", 4: "time-out"}


def suites(tier, rng, replay):
    global REPLAY
    REPLAY = replay
    return []


def limit(n):
    return ALLOC_A * n + ALLOC_B


def real_bad(o, n):
    return o[0] >= 2 or (len(o) > 2 and o[2] > limit(n))


def run_hostile(items, workdir, tag):
    """items: dict(T, bs) -> sets it['obs'], it['why']"""
    per = 12
    cases = [{"cfg": CFG, "ops": [["de", it["T"], it["bs"].hex()] for it in items[i:i + per]]} for i in range(0, len(items), per)]
    if not cases:
        return
    res, extra = vlib.run_harness("codec_hostile", cases, workdir, tag=tag, timeout=1800)
    k = 0
    for r, e in zip(res, extra):
        for j, o in enumerate(r):
            items[k]["obs"] = o
            items[k]["why"] = (e or [None] * len(r))[j]
            k += 1


def coq_witnesses(workdir, names):
    """the hostile inputs computed by CodecDSL.witness for the unbounded readers (props/C20.v), as bytes"""
    os.makedirs(workdir, exist_ok=True)
    vf = os.path.join(workdir, "witness.v")
    with open(vf, "w") as fh:
        fh.write(cl.PRELUDE)
        fh.write("Definition R := Eval vm_compute in (map (fun e => let '(_, _, r) := e in\n"
                 "  (if bounded r then 1 else 0, if snd (witness r) then 1 else 0, fst (witness r))) (all_types real_deps)).\nPrint R.\n")
    rc, so, se = vlib.coq_run(vf, workdir)
    if rc != 0:
        return None, se[-1500:]
    m = re.search(r"R =\s*(.*?)\n\s*: ", so, re.S)
    val = vlib.parse_coq_value("= " + m.group(1) + "\n : x")
    out = {}
    for n, (b, found, bs) in zip(names, val):
        out[n] = {"bounded": bool(b), "found": bool(found), "bs": bytes(bs)}
    return out, None


def storage_inputs(rng):
    """hostile stored records: (harness type, bytes, site key)"""
    i32 = lambda x: struct.pack("<i", x)
    u32 = lambda x: struct.pack("<I", x)
    hdr = bytes(80)
    peer = i32(9) + b"127.0.0.1" + i32(5) + u32(1600000000)
    out = []
    for c in (-1, -2 ** 31, 0x7fffffff, 0x10000000):
        out.append(("storage.Peers", i32(2) + i32(c) + peer, "peers.go:PeerRepository.Load:count"))
    for c in (-1, -2 ** 31, 0x7fffffff):
        out.append(("storage.Peers", i32(2) + i32(1) + i32(c) + b"x" * 8, "peers.go:readPeer:addressSize"))
    # mid-range sizes (valid by the record format's own limit), with and without the claimed bytes present, and
    # honest long records
    for c in (255, 256, 257, 300, 4096, 65535, 65536):
        out.append(("storage.Peers", i32(2) + i32(1) + i32(c) + b"x" * 8, "peers.go:readPeer:addressSize"))
        if c <= 65535:
            out.append(("storage.Peers", i32(2) + i32(1) + i32(c) + b"a" * c + i32(5) + u32(1600000000), "peers.go:readPeer:addressSize"))
    for n in (1, 1023, 1024, 1025, 5000):
        out.append(("storage.Peers", i32(2) + i32(n) + peer * n, "peers.go:PeerRepository.Load:count"))
    out.append(("storage.Peers", i32(2) + i32(1) + peer, "peers.go:valid"))
    for c in (0xffffffff, 0x80000000, 0x10000000):
        out.append(("storage.Reorg", u32(5) + u32(c), "reorgs.go:Reorg.Read:count"))
        out.append(("storage.ReorgActive", u32(5) + u32(c), "reorgs.go:Reorg.Read:count"))
        out.append(("storage.ReorgBlock", hdr + u32(c), "reorgs.go:ReorgBlock.Read:count"))
        out.append(("storage.Reorg", u32(5) + u32(1) + hdr + u32(c), "reorgs.go:ReorgBlock.Read:count"))
    valid_reorg = u32(5) + u32(1) + hdr + u32(1) + bytes(range(32))
    out.append(("storage.Reorg", valid_reorg, "reorgs.go:valid"))
    out.append(("storage.ReorgList", valid_reorg, "reorgs.go:ReorgRepository.List:nil-element"))
    out.append(("storage.ReorgList", u32(5) + u32(0), "reorgs.go:ReorgRepository.List:nil-element"))
    for n in (1, 31, 33, 63):
        out.append(("storage.TxBlock", bytes(rng.below(256) for _ in range(n)), "transactions.go:readBlock:size"))
    for n in (0, 1, 31, 32, 40, 43, 44, 45, 90):
        out.append(("storage.Unconfirmed", bytes(rng.below(256) for _ in range(n)), "unconfirmed.go:readUnconfirmedTx"))
        out.append(("storage.UnconfirmedTx", bytes(rng.below(256) for _ in range(n)), "unconfirmed.go:readUnconfirmedTx"))
    for _ in range(12):
        n = rng.range(0, 60)
        b = bytes(rng.choice([0, 0xff, 0x7f, 0x80, rng.below(256)]) for _ in range(n))
        for t, k in (("storage.Peers", "peers.go:random"), ("storage.Reorg", "reorgs.go:random"), ("storage.ReorgActive", "reorgs.go:random"),
                     ("storage.Unconfirmed", "unconfirmed.go:random"), ("storage.TxBlock", "transactions.go:random")):
            out.append((t, b, k))
    return out


def site_key(T_name, label):
    """stable key of a decoder site: the innermost translated type that owns the allocation"""
    label = label or "unattributed"
    if "dep:" in label:
        return "dep:" + label[label.rindex("dep:") + 4:]
    if "@" in label:
        _, T_name, label = label.rsplit("@", 2)
    return "messages.go:%s.Deserialize:%s" % (T_name, label)


SIMPLE_ELEMS = ("bytes", "uint", "sint", "varint", "varbytes", "bool")


def list_paths(f, prefix=()):
    """paths (field names) of the list fields with simple elements inside a format"""
    k = f["k"]
    res = []
    if k == "struct":
        for name, ff in f["fields"]:
            res += list_paths(ff, prefix + (name,))
    elif k == "opt":
        res += list_paths(f["elem"], prefix)
    elif k == "list" and f["elem"]["k"] in SIMPLE_ELEMS and not (f["elem"]["k"] == "varbytes" and f["elem"].get("chk")):
        res.append(prefix)
    return res


def set_list_len(f, v, path, N, rng, pool):
    """a copy of value v whose list at `path` has N elements; None if the path is absent (nil optional)"""
    k = f["k"]
    if k == "struct":
        out = []
        hit = False
        for (name, ff), (vn, vv) in zip(f["fields"], v[1]):
            if path and name == path[0]:
                nv = set_list_len(ff, vv, path[1:], N, rng, pool)
                if nv is None:
                    return None
                out.append((vn, nv))
                hit = True
            else:
                out.append((vn, vv))
        return ("s", out) if hit else None
    if k == "opt":
        if v[1] is None:
            return None
        nv = set_list_len(f["elem"], v[1], path, N, rng, pool)
        return None if nv is None else ("o", nv)
    if k == "list" and not path:
        return ("l", [cl.gen_value(f["elem"], rng.fork(i), pool, small=True) for i in range(N)])
    return None


def extra(tier, rng, workdir):
    T, J = cl.load_schemas()
    failures, red = [], []
    quick = tier == "quick"
    names_all = list(T)
    names = [n for n in T if n not in cl.HARNESS_TYPES_SKIP]
    obs, ex = harness_ops([["types"]], workdir, "types")
    codes = {n: int(c) for n, c in ex[0]}
    t0 = time.time()

    if REPLAY:
        items = [{"T": op[1], "bs": bytes.fromhex(op[2])} for op in REPLAY.get("ops", [])]
        run_hostile(items, workdir, "replay")
        for it in items:
            if real_bad(it["obs"], len(it["bs"])):
                rec = dict(REPLAY)
                rec["key0"] = REPLAY.get("key")
                rec["observed"] = it["obs"]
                failures.append(rec)
        return {"failures": failures, "red": [], "evaluations": len(items),
                "coverage": {"samples": [{"replay": REPLAY.get("ops"), "observed": [it["obs"] for it in items]}],
                             "distinct_nontrivial": len(items), "rule": "replay of a recorded input"}}

    pool = sample_pool(workdir, 4 if quick else 16)
    items = []
    # 1 valid encodings with every count / length field overwritten -----------------------------------
    vals = []
    for ti, name in enumerate(names):
        for i in range(3 if quick else 12):
            vals.append({"T": name, "v": cl.gen_value(T[name]["r"], rng.fork(ti * 1000 + i), pool, small=True)})
    obs, _ = harness_ops([["ser", x["T"], cl.to_json(x["v"])] for x in vals], workdir, "ser")
    nsites = 0
    for x, o in zip(vals, obs):
        if not o or o[0] != 0:
            continue
        b = bytes(o[1:])
        pyb, sites = cl.encode(T[x["T"]]["w"], x["v"])
        items.append({"T": x["T"], "bs": b, "origin": "valid", "site": None})
        if pyb != b:
            continue
        for off, ln, label, kind in sites:
            if kind.startswith("opaque:"):
                # hostile bytes in place of a dependency-decoded value (key, signature, merkle proof)
                blob = b[off:off + ln]
                r = rng.fork(len(items))
                reps = [b"\x30\x00", b"\x30\x01\x02", b"\x30\x02\x02\x01", blob[:1], blob[:2], blob[:len(blob) // 2], b"\xff" * 9, b""]
                for _ in range(3):
                    m = bytearray(blob)
                    m[r.below(len(m))] = r.choice([0, 0xff, 0x80, r.below(256)])
                    reps.append(bytes(m))
                for rep in reps:
                    items.append({"T": x["T"], "bs": b[:off] + rep + b[off + ln:], "origin": "opaque-overwrite", "site": "dep:" + kind[7:]})
                continue
            nsites += 1
            for h in HOSTILE:
                items.append({"T": x["T"], "bs": b[:off] + cl.varint(h) + b[off + ln:], "origin": "overwrite", "site": label + ":" + kind, "claimed": h})
    # 1b honest long lists: every list site once with more elements than any pre-allocation clamp (1024) ------
    long_vals = []
    for ti, name in enumerate(names):
        for path in list_paths(T[name]["r"]):
            for N in ((1025,) if quick else (1024, 1025, 1500, 3000)):
                v = None
                for attempt in range(12):
                    cand = cl.gen_value(T[name]["r"], rng.fork(880000 + ti * 1000 + attempt), pool, small=True)
                    v = set_list_len(T[name]["r"], cand, path, N, rng.fork(881000 + ti), pool)
                    if v is not None:
                        break
                if v is not None:
                    long_vals.append({"T": name, "v": v, "path": "/".join(path), "N": N})
    if long_vals:
        lobs, _ = harness_ops([["ser", x["T"], cl.to_json(x["v"])] for x in long_vals], workdir, "serlong")
        for x, o in zip(long_vals, lobs):
            if o and o[0] == 0:
                items.append({"T": x["T"], "bs": bytes(o[1:]), "origin": "long-list", "site": "%s:len%d" % (x["path"], x["N"])})
    # 2 the witnesses of props/C20.v --------------------------------------------------------------------
    wit, err = coq_witnesses(workdir, names_all)
    if wit is None:
        red.append({"what": "model-evaluation", "detail": err})
        wit = {}
    for n, w in wit.items():
        if n in names and not w["bounded"] and w["found"]:
            items.append({"T": n, "bs": w["bs"], "origin": "coq-witness", "site": None})
    # 3 random bytes behind every type code ---------------------------------------------------------------
    for ti, n in enumerate(sorted(codes)):
        for i in range(6 if quick else 60):
            r = rng.fork(700000 + ti * 100 + i)
            body = bytes(r.choice([0, 1, 0xfd, 0xfe, 0xff, 0x80, r.below(256), r.below(256)]) for _ in range(r.range(0, 48)))
            items.append({"T": n, "bs": body, "origin": "random", "site": None, "code": codes[n]})
    # predictions (site attribution) ------------------------------------------------------------------------
    for it in items:
        it["f"] = T[it["T"]]["r"]
    cl.resolve_oracles(items, workdir, "hostile", {})
    vlib.log("C20 generation %.1fs (%d inputs, %d sites)" % (time.time() - t0, len(items), nsites))
    # random inputs go through Message.Deserialize (type code in front)
    real_items = []
    for it in items:
        if it["origin"] == "random":
            real_items.append({"T": "Message", "bs": cl.varint(it["code"]) + it["bs"], "src": it})
        else:
            real_items.append({"T": it["T"], "bs": it["bs"], "src": it})
    # 4 stored records -----------------------------------------------------------------------------------------
    stor = storage_inputs(rng.fork(424242))
    stor_items = [{"T": t, "bs": b, "key": k} for t, b, k in stor]
    run_hostile(real_items + stor_items, workdir, "hostile")
    vlib.log("C20 real decoders %.1fs" % (time.time() - t0))

    classes, by_origin = {}, {}
    model_rows, model_idx = [], []
    for ri in real_items:
        it = ri["src"]
        o = ri["obs"]
        classes[o[0]] = classes.get(o[0], 0) + 1
        by_origin[it["origin"]] = by_origin.get(it["origin"], 0) + 1
        p = it.get("pred")
        n = len(ri["bs"])
        if real_bad(o, n):
            label = None
            if p and (p["cls"] == 2 or p["alloc"] > limit(n) // 4):
                label = p["hot"]
            elif it["site"]:
                label = it["site"]
            elif p and o[0] < 2 and p["alloc"] <= limit(n) // 4:
                # the translated readers of this repository account for a small allocation only: the excess was
                # allocated inside a dependency decoder the message reaches
                deps = cl.dep_decoders(T[it["T"]]["r"]) if it["T"] in T else []
                if len(deps) == 1:
                    label = "dep:" + deps[0] + ":alloc"
            ri["dep_alloc"] = bool(label and label.startswith("dep:") and label.endswith(":alloc"))
            failures.append({"key0": site_key(it["T"], label), "what": "%s.Deserialize on %d hostile bytes: %s%s" % (
                it["T"], n, CLASS_NAMES.get(o[0], o[0]), ", allocated %d bytes" % o[2] if len(o) > 2 and o[2] > 0 else ""),
                "type": ri["T"], "input": ri["bs"].hex(), "observed": o, "child": ri.get("why"), "origin": it["origin"],
                "claimed_count": it.get("claimed"), "ops": [["de", ri["T"], ri["bs"].hex()]]})
        if p is not None and len(it["bs"]) <= 4000:      # long honest inputs are checked on the real decoders only
            model_rows.append('("%s", %s, %s)' % (it["T"], cl.otable_coq(p["used"]), cl.zl(it["bs"])))
            model_idx.append(ri)
    for si in stor_items:
        o = si["obs"]
        classes[o[0]] = classes.get(o[0], 0) + 1
        by_origin["stored-record"] = by_origin.get("stored-record", 0) + 1
        if real_bad(o, len(si["bs"])):
            failures.append({"key0": si["key"], "what": "%s on %d hostile bytes: %s%s" % (si["T"], len(si["bs"]), CLASS_NAMES.get(o[0], o[0]),
                             ", allocated %d bytes" % o[2] if len(o) > 2 and o[2] > 0 else ""), "type": si["T"], "input": si["bs"].hex(),
                             "observed": o, "child": si.get("why"), "origin": "stored-record", "ops": [["de", si["T"], si["bs"].hex()]]})

    # 5 the model's verdict on the same inputs (inside Coq) ------------------------------------------------------
    res, errs = cl.coq_eval(workdir, "verdict", "string * otable * bytes", model_rows,
                            "collect (hostile_verdict types) (fun _ => true) 0 cases", shard=500)
    for e in errs:
        red.append({"what": "model-evaluation", "detail": e})
    disagree = 0
    for idx, (mc, ma) in [(i, v) for i, v in res]:
        ri = model_idx[idx]
        o = ri["obs"]
        n = len(ri["bs"])
        lim = limit(n)
        model_bad = mc == 2 or ma > lim
        grey = mc != 2 and lim // 8 < ma < lim * 8
        rb = real_bad(o, n)
        # random inputs are decoded behind the type code: same payload decoder
        if grey:
            continue
        if ri.get("dep_alloc"):
            # reported above as an allocation inside a dependency decoder: the model of the repository's own
            # readers does not (and is not meant to) predict what tokenized/pkg allocates
            continue
        if model_bad != rb or (mc == 2) != (o[0] == 2) and not (o[0] in (3, 4)):
            disagree += 1
            if disagree <= 6:
                red.append({"what": "correspondence", "suite": "hostile", "type": ri["src"]["T"], "input": ri["bs"].hex(),
                            "model": [mc, ma], "real": o, "child": ri.get("why")})
    vlib.log("C20 model verdicts %.1fs" % (time.time() - t0))

    unb = sorted(n for n, w in wit.items() if not w["bounded"])
    cov = {
        "hostile_inputs": by_origin, "count_fields_overwritten": nsites, "real_outcome_classes": {CLASS_NAMES.get(k, k): v for k, v in classes.items()},
        "unbounded_readers_in_model": unb, "model_vs_real_disagreements": disagree,
        "failing_sites": sorted(set(f["key0"] for f in failures)),
        "allocation_limit": "%d * len + %d bytes (runtime.MemStats.TotalAlloc delta in the child)" % (ALLOC_A, ALLOC_B),
        "child_limits": CFG,
        "distinct_nontrivial": len(set((r["T"], r["bs"]) for r in real_items + stor_items)),
        "rule": "valid encodings of generated values with each count/length varint overwritten by 2^63, 2^32, 2^64-1, 0xfffffffe; the witnesses "
                "computed by CodecDSL.witness; random strings (0-48 bytes, biased to ff/fe/fd/80) behind every valid type code through "
                "Message.Deserialize; hand-made hostile stored records (peers, reorgs, unconfirmed, per-block txid files); distinct = distinct (decoder, bytes)",
        "samples": [{"decoder": r["T"], "input": r["bs"].hex()[:160], "observed": r["obs"], "origin": r["src"]["origin"]} for r in real_items[5:2000:211]]
                   + [{"decoder": s["T"], "input": s["bs"].hex()[:160], "observed": s["obs"]} for s in stor_items[:3]],
        "traces_validated_against_impl": len(real_items) + len(stor_items),
    }
    return {"failures": failures, "red": red, "coverage": cov, "evaluations": len(real_items) + len(stor_items)}


def keyfn(rec):
    return rec.get("key0") or rec.get("key") or "codec"


SPEC = {
    "pid": "C20",
    "props_file": "props/C20.v",
    "suites": suites,
    "extra": extra,
    "keyfn": keyfn,
    "trusted_base": [
        "Coq 8.16.1 kernel (coqc); vm_compute for the reflection obligations, the witnesses and the model's verdicts; no native_compute",
        "axioms: none declared; Print Assumptions recorded under print_assumptions",
        "translator/codec.go: reader formats r_T with allocation annotations (make([]T, count) = LPre, capped capacity + append = LApp, "
        "make([]byte, size)+ReadFull = BPre, readBytes = BGrow after checking the helper's body); unrecognised statements are FUnsupported (never bounded)",
        "allocation model: Σ n*sizeof(T) over executed make(T, n) + bytes of values built (+ amortised append); makeslice limit 2^48 (Go 1.23 linux/amd64); "
        "a make([]T, len(x)) from an already decoded list is charged per element",
        "dependency decoders: wire.MsgTx/TxOut hand-written (real and idealised); bitcoin.PublicKey/Signature, merkle_proof.MerkleProof, BSOR parsers are "
        "oracles assumed to return a value or an error - the hostile run tests that assumption on the real code and reports what contradicts it under dep:* keys",
        "harness component codec_hostile: child process with RLIMIT_AS headroom and time-out; TotalAlloc delta from runtime.MemStats",
        "stored-record parsers of internal/storage (peers, reorgs, unconfirmed, per-block txid files) are NOT translated: they are covered by the hostile run only",
    ],
    "assumptions": ["Go 1.23 linux/amd64 runtime limits", "an allocation above 1 KiB per input byte + 1 MiB is out of proportion"],
    "rule": "see coverage.rule",
}

if __name__ == "__main__":
    checklib.run_check(SPEC)
