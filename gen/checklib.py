"""Generic flow of a property check (DESIGN.md 3.4).

A property module provides a PropertySpec; run_check() does:
  1 build the harness from /repo's working tree (+ translator output when used)
  2 build the Coq development (full .vo) and find out whether this property's theorems check
  3 correspondence: implementation traces vs model (evaluated inside Coq by vm_compute)
  4 monitors: the property's executable statement evaluated on the implementation traces
  5 verdict: green -> exit 0 ; monitor failure -> VIOLATION with the failing history as replay
             (KNOWN-FINDING when listed) ; proof/correspondence broken without a failing input ->
             VIOLATION ... no-failing-input-found
"""
import json
import os
import re
import subprocess
import sys
import time

import vlib
from vlib import log


class Suite:
    """One correspondence suite: a harness component, a Coq op type, evaluators."""

    def __init__(self, name, component, imports, groups):
        self.name = name
        self.component = component          # harness component name
        self.imports = imports              # Coq Require lines
        # groups: list of dict(key, cases=[{cfg, ops, coq_ops}], model=<coq checker expr or None>,
        #                      monitors={name: coq checker expr})
        self.groups = groups
        self.serial = False


def op_sample(case):
    return {"cfg": case.get("cfg", {}), "ops": case["ops"][:40]}


def eval_suite(suite, workdir, shard_size=150, timeout=1800):
    """Runs the harness on all cases, evaluates model + monitors inside Coq.
    Returns dict(evaluations, steps, model_fail=[...], monitor_fail=[...], traces)."""
    os.makedirs(workdir, exist_ok=True)
    all_cases = []
    for gi, g in enumerate(suite.groups):
        for ci, c in enumerate(g["cases"]):
            all_cases.append((gi, ci, c))
    results, extra = vlib.run_harness(suite.component, [{"cfg": c.get("cfg", {}), "ops": c["ops"]} for _, _, c in all_cases],
                                      workdir, tag=suite.name)
    for (gi, ci, c), r in zip(all_cases, results):
        c["trace"] = r
        if len(r) != len(c["ops"]):
            raise vlib.BuildError("harness returned %d observations for %d ops (%s)" % (len(r), len(c["ops"]), suite.name))
    # write shards
    shards = []
    for gi, g in enumerate(suite.groups):
        cs = g["cases"]
        for s0 in range(0, len(cs), shard_size):
            shards.append((gi, s0, cs[s0:s0 + shard_size]))
    procs = []
    for si, (gi, s0, cs) in enumerate(shards):
        g = suite.groups[gi]
        name = "%s_cases_%d" % (suite.name, si)
        vf = os.path.join(workdir, name + ".v")
        with open(vf, "w") as f:
            f.write("From V.lib Require Import Base.\n")
            for imp in suite.imports:
                f.write(imp + "\n")
            f.write("Definition cases : list (list %s * list obs) := [\n" % g.get("optype", "op"))
            rows = []
            for c in cs:
                ops = "[" + "; ".join(c["coq_ops"]) + "]"
                tr = "[" + "; ".join(vlib.zlist(o) for o in c["trace"]) + "]"
                rows.append("  (%s,\n   %s)" % (ops, tr))
            f.write(";\n".join(rows))
            f.write("].\n")
            if g.get("per_case_model"):
                f.write("From V.lib Require Import Eval.\n")
                f.write("Definition R_model := Eval vm_compute in failures_pc [\n")
                # a case flagged "skip_model" is monitor-only: it stays in the list (indices are case numbers)
                # with a checker that accepts everything
                f.write(";\n".join("  (%s, nth %d cases ([], []))" %
                                   ("(fun _ _ => None)" if c.get("skip_model") else c["model"], i) for i, c in enumerate(cs)))
                f.write("].\nPrint R_model.\n")
            elif g.get("model"):
                f.write("Definition R_model := Eval vm_compute in failures (%s) cases.\nPrint R_model.\n" % g["model"])
            for mn, me in g.get("monitors", {}).items():
                f.write("Definition R_mon_%s := Eval vm_compute in failures (%s) cases.\nPrint R_mon_%s.\n" % (mn, me, mn))
        procs.append((si, gi, s0, vf))
    # run coqc in parallel (bounded)
    out = {"evaluations": len(all_cases), "steps": sum(len(c["ops"]) for _, _, c in all_cases),
           "model_fail": [], "monitor_fail": [], "coq_errors": [],
           "monitor_only": sum(1 for _, _, c in all_cases if c.get("skip_model"))}
    running = []
    maxpar = 8
    pending = list(procs)
    done = []
    while pending or running:
        while pending and len(running) < maxpar:
            si, gi, s0, vf = pending.pop(0)
            p = subprocess.Popen(["timeout", str(timeout), "coqc"] + vlib.coq_flags() + [vf], cwd=workdir,
                                 stdout=subprocess.PIPE, stderr=subprocess.PIPE, text=True)
            running.append((p, si, gi, s0, vf))
        p, si, gi, s0, vf = running.pop(0)
        so, se = p.communicate()
        done.append((p.returncode, so, se, si, gi, s0, vf))
    for rc, so, se, si, gi, s0, vf in done:
        if rc != 0:
            out["coq_errors"].append({"file": vf, "stderr": se[-2000:]})
            continue
        # split per Print
        for m in re.finditer(r"(R_model|R_mon_\w+) =\s*(.*?)\n\s*: list", so, re.S):
            which, body = m.group(1), m.group(2)
            val = vlib.parse_coq_value("= " + body + "\n : x")
            for item in val:
                n, step, info = item
                case = suite.groups[gi]["cases"][s0 + n]
                rec = {"suite": suite.name, "group": suite.groups[gi].get("key", gi), "case_index": s0 + n, "step": step,
                       "expected": info, "observed": case["trace"][step] if step < len(case["trace"]) else None,
                       "cfg": case.get("cfg", {}), "ops": case["ops"], "trace": case["trace"],
                       "origin": case.get("origin", "generated")}
                if which == "R_model":
                    rec["checker"] = "model"
                    out["model_fail"].append(rec)
                else:
                    rec["checker"] = which[len("R_mon_"):]
                    out["monitor_fail"].append(rec)
    return out


# ------------------------------------------------------------------------------------------------
# Coq proof status

def dep_closure(target_v):
    """Transitive .v dependencies of a file inside coq/, from coqdep."""
    p = subprocess.run(["coqdep"] + sum([["-Q", d, ns] for d, ns in vlib.COQ_DIRS], []) +
                       [os.path.join(d, f) for d, _ in vlib.COQ_DIRS if os.path.isdir(os.path.join(vlib.COQ, d))
                        for f in sorted(os.listdir(os.path.join(vlib.COQ, d))) if f.endswith(".v")],
                       cwd=vlib.COQ, capture_output=True, text=True)
    deps = {}
    for line in p.stdout.splitlines():
        if ":" not in line:
            continue
        lhs, rhs = line.split(":", 1)
        tgt = [t for t in lhs.split() if t.endswith(".vo")]
        if not tgt:
            continue
        src = tgt[0][:-1]
        deps[src] = [d[:-1] for d in rhs.split() if d.endswith(".vo")]
    seen = set()
    stack = [target_v]
    while stack:
        x = stack.pop()
        if x in seen:
            continue
        seen.add(x)
        stack.extend(deps.get(x, []))
    return sorted(seen)


FORBIDDEN = re.compile(r"\b(Admitted|admit|Axiom|Parameter|Conjecture|Admit Obligations|Unset Guard Checking|bypass_check|Unset Positivity Checking|Unset Universe Checking)\b")


def scan_forbidden(files):
    bad = []
    for f in files:
        path = os.path.join(vlib.COQ, f)
        txt = open(path).read()
        # strip comments (non-nested is enough for our style)
        txt2 = re.sub(r"\(\*.*?\*\)", "", txt, flags=re.S)
        for m in FORBIDDEN.finditer(txt2):
            bad.append("%s: %s" % (f, m.group(1)))
        # Variable/Hypothesis outside a Section
        depth = 0
        for line in txt2.splitlines():
            s = line.strip()
            if re.match(r"Section\s+\w+", s):
                depth += 1
            elif re.match(r"End\s+\w+", s) and depth > 0:
                depth -= 1
            elif depth == 0 and re.match(r"(Variables?|Hypothes[ie]s|Context)\b", s):
                bad.append("%s: %s outside a section" % (f, s.split()[0]))
    return bad


def theorem_names(props_file):
    txt = open(os.path.join(vlib.COQ, props_file)).read()
    txt = re.sub(r"\(\*.*?\*\)", "", txt, flags=re.S)
    return re.findall(r"^\s*(?:Theorem|Lemma|Corollary)\s+(\w+)", txt, re.M)


def coqchk_status(props_files, workdir, timeout=3000):
    """Thorough tier: re-check the compiled property modules and everything they depend on with the independent
    checker and report the axioms it finds (`coqchk -silent -o`)."""
    if isinstance(props_files, str):
        props_files = [props_files]
    mods = ["V.props." + os.path.splitext(os.path.basename(f))[0] for f in props_files]
    cmd = ["timeout", str(timeout), "coqchk", "-silent", "-o"] + vlib.coq_flags() + mods
    t0 = time.time()
    p = subprocess.run(cmd, cwd=vlib.COQ, capture_output=True, text=True)
    out = p.stdout + p.stderr
    m = re.search(r"\* Axioms:(.*?)\n\s*\n\* Constants/Inductives relying on type-in-type:(.*?)\n\s*\n"
                  r"\* Constants/Inductives relying on unsafe \(co\)fixpoints:(.*?)\n\s*\n"
                  r"\* Inductives whose positivity is assumed:(.*?)\n", out, re.S)
    res = {"rc": p.returncode, "wall_s": round(time.time() - t0, 1), "modules": mods}
    if m:
        res.update({"axioms": re.sub(r"\s+", " ", m.group(1)).strip(), "type_in_type": re.sub(r"\s+", " ", m.group(2)).strip(),
                    "unsafe_fixpoints": re.sub(r"\s+", " ", m.group(3)).strip(), "assumed_positivity": re.sub(r"\s+", " ", m.group(4)).strip()})
    else:
        res["raw"] = out[-1500:]
    res["ok"] = p.returncode == 0 and m is not None and all(res[k] == "<none>" for k in ("axioms", "type_in_type", "unsafe_fixpoints", "assumed_positivity"))
    return res


def proof_status(pid, props_file, workdir):
    """Builds the development; returns dict(ok, obligations, discharged, failed_files, assumptions, detail).
    props_file may be a list of files; results are merged."""
    if isinstance(props_file, (list, tuple)):
        res = None
        for i, pf in enumerate(props_file):
            r = proof_status1(pid + ("_%d" % i if i else ""), pf, workdir, make=(i == 0))
            if res is None:
                res = r
            else:
                res["ok"] = res["ok"] and r["ok"]
                for k in ("obligations", "discharged"):
                    res[k] += r[k]
                for k in ("failed_files", "forbidden", "theorems"):
                    res[k] = res[k] + r[k]
                res["assumptions"].update(r["assumptions"])
                res["closure"] = sorted(set(res["closure"]) | set(r["closure"]))
                res["detail"] = (res["detail"] + "\n" + r["detail"]).strip()
                res["closed"] = res.get("closed", 0) + r.get("closed", 0)
        return res
    return proof_status1(pid, props_file, workdir)


def proof_status1(pid, props_file, workdir, make=True):
    if make:
        ok_all, out = vlib.coq_make()
        proof_status1.last_out = out
    out = getattr(proof_status1, "last_out", "")
    closure = dep_closure(props_file)
    failed = [f for f in vlib.coq_failed_files(out)]
    missing = [f for f in closure if not os.path.exists(os.path.join(vlib.COQ, f + "o"))]
    stale = []
    for f in closure:
        vo = os.path.join(vlib.COQ, f + "o")
        if os.path.exists(vo) and os.path.getmtime(vo) < os.path.getmtime(os.path.join(vlib.COQ, f)):
            stale.append(f)
    relevant_failed = sorted(set(f for f in failed if f in closure) | set(missing) | set(stale))
    forb = scan_forbidden(closure)
    names = theorem_names(props_file) if os.path.exists(os.path.join(vlib.COQ, props_file)) else []
    res = {"ok": not relevant_failed and not forb, "obligations": len(names), "discharged": 0,
           "failed_files": relevant_failed, "forbidden": forb, "assumptions": {}, "theorems": names,
           "closure": closure, "detail": ""}
    if relevant_failed:
        # keep the error text of the relevant files
        det = []
        for m in re.finditer(r'File "\./([^"]+)", line (\d+), characters [\d-]+:\n(.*?)(?=\nmake|\nFile |\Z)', out, re.S):
            if m.group(1) in closure:
                det.append("%s:%s: %s" % (m.group(1), m.group(2), m.group(3).strip()[:600]))
        res["detail"] = "\n".join(det)[:4000]
        return res
    # Print Assumptions of every theorem of the property file
    os.makedirs(workdir, exist_ok=True)
    mod = os.path.splitext(os.path.basename(props_file))[0]
    af = os.path.join(workdir, "assume_%s.v" % pid)
    with open(af, "w") as f:
        f.write("From V.props Require Import %s.\n" % mod)
        for n in names:
            f.write('Print Assumptions %s.\n' % n)
    rc, so, se = vlib.coq_run(af, workdir)
    if rc != 0:
        res["ok"] = False
        res["detail"] = "Print Assumptions failed: " + se[-1000:]
        return res
    blocks = re.split(r"(?=Closed under the global context|Axioms:|Section Variables:)", so)
    blocks = [b.strip() for b in blocks if b.strip()]
    closed = 0
    for n, b in zip(names, blocks):
        res["assumptions"][n] = re.sub(r"\s+", " ", b)[:600]
        if b.startswith("Closed under the global context"):
            closed += 1
    res["discharged"] = len(names)
    res["closed"] = closed
    return res


# ------------------------------------------------------------------------------------------------
# verdict

def finding_key_matches(finding, rec, keyfn):
    return keyfn(rec) == finding["key"]


def run_check(spec):
    """spec: dict(pid, props_file, suites(tier, rng)->[Suite], keyfn(rec)->str, assumptions, trusted_base,
                  extra(tier, rng, workdir) -> dict(failures=[rec], coverage={}) optional)"""
    import argparse
    ap = argparse.ArgumentParser()
    ap.add_argument("--tier", default=os.environ.get("VERIF_TIER", "quick"))
    ap.add_argument("--replay", default=None)
    args = ap.parse_args(sys.argv[2:]) if len(sys.argv) > 2 else ap.parse_args([])
    tier = args.tier if args.tier in ("quick", "thorough") else "quick"
    seed = int(os.environ.get("VERIF_SEED", "1") or 1)
    pid = spec["pid"]
    t0 = time.time()
    workdir = os.path.join(vlib.WORK, pid)
    os.makedirs(workdir, exist_ok=True)
    for f in os.listdir(workdir):
        if f.startswith("replay_"):
            os.remove(os.path.join(workdir, f))
    rng = vlib.Rng(seed)
    findings = [f for f in vlib.load_findings() if f["property"] == pid]
    keyfn = spec.get("keyfn", lambda rec: "%s:%s" % (rec.get("suite"), rec.get("checker")))

    red = []          # reasons something is broken (proof / correspondence / build)
    failures = []     # concrete property failures (monitor) with replay data
    coverage = {"samples": [], "suites": {}}

    # 0 translator / generated Coq files
    try:
        vlib.run_translator()
        if spec.get("pregen"):
            spec["pregen"](workdir)
    except Exception as e:  # translator failure: fails closed
        red.append({"what": "translator", "detail": str(e)[-3000:]})

    # 1+2 proofs
    ps = proof_status(pid, spec["props_file"], workdir)
    if not ps["ok"]:
        red.append({"what": "proof", "theorems": ps["theorems"], "failed_files": ps["failed_files"],
                    "forbidden": ps["forbidden"], "detail": ps["detail"]})
    model_ok = all(os.path.exists(os.path.join(vlib.COQ, f + "o")) for f in ps["closure"]
                   if f.startswith("model/") or f.startswith("lib/") or f.startswith("gen/"))
    chk = None
    if tier == "thorough" and ps["ok"]:
        with vlib.Lock("coq"):
            chk = coqchk_status(spec["props_file"], workdir)
        if not chk["ok"]:
            red.append({"what": "proof", "detail": "coqchk -o: " + json.dumps(chk)[:1500]})

    # 3+4 correspondence and monitors
    evaluations = 0
    steps = 0
    distinct = set()
    if args.replay:
        rp = json.load(open(args.replay))
        spec_replay = rp
    else:
        spec_replay = None
    try:
        vlib.build_harness()
        suites = spec["suites"](tier, rng, spec_replay)
        for suite in suites:
            try:
                r = eval_suite(suite, workdir)
            except vlib.BuildError as e:   # one suite's harness run failing must not hide what the others find
                red.append({"what": "harness-run", "suite": suite.name, "detail": str(e)[-3000:]})
                continue
            evaluations += r["evaluations"]
            steps += r["steps"]
            hist = {}
            for g in suite.groups:
                for c in g["cases"]:
                    distinct.add(json.dumps([c.get("cfg", {}), c["ops"]], sort_keys=True))
                    for o in c["ops"]:
                        hist[o[0]] = hist.get(o[0], 0) + 1
            coverage["suites"][suite.name] = {"cases": r["evaluations"], "steps": r["steps"], "op_histogram": hist,
                                              "model_mismatches": len(r["model_fail"]),
                                              "monitor_failures": len(r["monitor_fail"])}
            if r.get("monitor_only"):
                coverage["suites"][suite.name]["monitor_only_cases"] = r["monitor_only"]
            if suite.groups and suite.groups[0]["cases"]:
                c0 = suite.groups[0]["cases"][min(3, len(suite.groups[0]["cases"]) - 1)]
                coverage["samples"].append({"suite": suite.name, "cfg": c0.get("cfg", {}), "ops": c0["ops"][:25],
                                            "observed": c0["trace"][:25]})
            if r["coq_errors"]:
                red.append({"what": "model-evaluation", "suite": suite.name, "detail": r["coq_errors"][0]})
            if r["model_fail"]:
                red.append({"what": "correspondence", "suite": suite.name, "count": len(r["model_fail"]),
                            "first": slim(r["model_fail"][0])})
            hyp = [x for x in r["monitor_fail"] if x["checker"].startswith("hyp")]
            coverage["suites"][suite.name]["outside_hypothesis"] = len(hyp)
            accept = spec.get("accept_failure", lambda rec: True)
            failures.extend(x for x in r["monitor_fail"] if not x["checker"].startswith("hyp") and accept(x))
        if spec.get("extra"):
            ex = spec["extra"](tier, rng, workdir)
            failures.extend(ex.get("failures", []))
            red.extend(ex.get("red", []))
            coverage.update(ex.get("coverage", {}))
            evaluations += ex.get("evaluations", 0)
    except vlib.BuildError as e:
        red.append({"what": "harness-build", "detail": str(e)[:3000]})
    except subprocess.TimeoutExpired as e:
        red.append({"what": "harness-timeout", "detail": str(e)[-1000:]})
    except Exception as e:   # the machinery itself tripped over what /repo now says: fails closed, never silently
        import traceback
        red.append({"what": "check-internal-error", "detail": traceback.format_exc()[-3000:]})

    # 5 verdict
    if os.environ.get("VERIF_DUMP_FAILURES"):
        json.dump(failures, open(os.path.join(workdir, "all_failures.json"), "w"))
    known_hits = {}
    new_fail = []
    for rec in failures:
        k = keyfn(rec)
        f = next((f for f in findings if f["key"] == k), None)
        if f:
            known_hits.setdefault(k, (f, rec))
        else:
            new_fail.append(rec)
    for k, (f, rec) in sorted(known_hits.items()):
        print("KNOWN-FINDING: property=%s key=%s %s" % (pid, k, f["text"]))
    violations = 0
    exit_code = 0
    if new_fail:
        # one replay per distinct key, smallest history first
        bykey = {}
        for rec in new_fail:
            k = keyfn(rec)
            if k not in bykey or len(rec.get("ops", [])) < len(bykey[k].get("ops", [])):
                bykey[k] = rec
        for i, (k, rec) in enumerate(sorted(bykey.items())):
            rp = os.path.join(workdir, "replay_%d.json" % i)
            rec = dict(rec)
            rec["key"] = k
            rec["property"] = pid
            if spec.get("shrink"):
                try:
                    rec = spec["shrink"](rec, workdir)
                except Exception as e:  # shrinking is best effort
                    rec["shrink_error"] = str(e)[:300]
            json.dump(rec, open(rp, "w"), indent=1)
            print("VIOLATION property=%s replay=%s" % (pid, rp))
            violations += 1
        exit_code = 1
    # red without any concrete failing input (known findings explain model mismatch only if the model is the fixed code)
    unexplained_red = [r for r in red]
    if unexplained_red and not new_fail:
        rp = os.path.join(workdir, "replay_unproved.json")
        json.dump({"property": pid, "no_failing_input_found": True, "broken": unexplained_red,
                   "note": "the named theorem / correspondence no longer checks; the monitors found no failing history "
                           "in corpus + generated cases"}, open(rp, "w"), indent=1)
        print("VIOLATION property=%s replay=%s no-failing-input-found" % (pid, rp))
        violations += 1
        exit_code = 1
    elif unexplained_red:
        json.dump({"property": pid, "broken": unexplained_red}, open(os.path.join(workdir, "broken.json"), "w"), indent=1)

    cov = {
        "obligations": max(ps["obligations"], 1),
        "discharged": ps["discharged"] if ps["ok"] else 0,
        "checker_cmd": "make -C /verif/coq (coqc 8.16.1, full .vo) ; coqc work/%s/*_cases_*.v" % pid,
        "trusted_base": spec.get("trusted_base", []),
        "theorems": ps["theorems"],
        "print_assumptions": ps["assumptions"],
        "evaluations": evaluations,
        "steps": steps,
        "distinct_nontrivial": len(distinct),
        "rule": spec.get("rule", "generated operation sequences; distinct = distinct (cfg, ops) pairs; every case has >= 3 operations"),
        "traces_validated_against_impl": evaluations,
        "known_findings_confirmed": sorted(known_hits.keys()),
        "broken": [r["what"] for r in red],
    }
    if chk is not None:
        cov["coqchk"] = chk
    if cov["discharged"] < 1 or cov["discharged"] != cov["obligations"]:
        # proof broken: keep the file schema-valid through the generic keys, say so explicitly
        cov["obligations_total"] = cov.pop("obligations")
        cov["discharged_count"] = cov.pop("discharged")
    cov.update(coverage)
    vlib.write_evidence(pid, tier, seed, cov, time.time() - t0, violations, spec.get("assumptions", []))
    if exit_code == 0:
        print("OK property=%s tier=%s theorems=%d cases=%d steps=%d wall=%.1fs" % (pid, tier, ps["obligations"], evaluations, steps, time.time() - t0))
    sys.exit(exit_code)


def slim(rec):
    r = dict(rec)
    r.pop("trace", None)
    if len(r.get("ops", [])) > 60:
        r["ops"] = r["ops"][:60] + ["..."]
    return r
