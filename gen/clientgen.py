"""Shared generator / Coq encoder for the remote-client checks (C16, C17, C18).
Operations are the harness operations of component "client" (harness/overlay/internal/verifharness/client.go);
coq_ops() turns a history into the terms of model/Client.v."""
import json
import os

import vlib
from checklib import Suite

z = vlib.z


def key_term(kind, n):
    return {"K": "(KDerived 7 %d)" % n, "R9": "(KRoot 9)", "K2": "(KDerived 7 999)", "R7": "(KRoot 7)"}[kind]


def accept_term(v, pd, ut, mc, n):
    """symbolic counterpart of client.go acceptMsg(variant)"""
    K = key_term("K", n)

    def amsg(key, pd2, ut2, mc2, signer, ckey, cpd, cut, cmc, chash):
        return "(AMsg %s %d %d %d (Sig %s (AContent %s %d %d %d %s)))" % (key, pd2, ut2, mc2, signer, ckey, cpd, cut, cmc, z(chash))
    if v == 0:
        return amsg(K, pd, ut, mc, K, K, pd, ut, mc, n)
    if v == 1:
        r = key_term("R9", n)
        return amsg(r, pd, ut, mc, r, r, pd, ut, mc, n)
    if v == 2:
        k2 = key_term("K2", n)
        return amsg(k2, pd, ut, mc, k2, k2, pd, ut, mc, 999)
    if v == 3:
        return amsg(K, pd, ut, mc, key_term("R9", n), K, pd, ut, mc, n)
    if v == 4:
        return amsg(K, pd, ut, mc + 1, K, K, pd, ut, mc, n)
    if v == 5:
        return amsg(K, pd, ut, mc, K, K, pd, ut, mc, 999)
    if v == 6:
        r = key_term("R7", n)
        return amsg(r, pd, ut, mc, r, r, pd, ut, mc, n)
    if v == 7:
        return amsg(K, pd + 3, ut, mc, K, K, pd, ut, mc, n)
    if v == 8:   # the genuine accept of the previous connection, replayed
        kp = "(KDerived 7 %d)" % (n - 1)
        return amsg(kp, pd, ut, mc, kp, kp, pd, ut, mc, n - 1)
    raise KeyError(v)


def msg_term(o):
    k = o[1]
    a = o[2:]
    if k == "tx":
        return "(MTx %s %s)" % (z(a[0]), z(a[1]))
    if k == "update":
        return "(MUpdate %s %s)" % (z(a[0]), z(a[1]))
    if k == "insync":
        return "MInSync"
    if k == "chaintip":
        return "(MChainTip %s)" % z(a[0])
    if k == "headers":
        return "(MHeaders %s %s)" % (z(a[0]), z(a[1]))
    if k == "header":
        return "(MHeader %s)" % z(a[0])
    if k == "fee":
        return "MFee"
    if k == "basetx":
        return "(MBaseTx %s)" % z(a[0])
    if k == "accept":
        return "(MAccept %s %s)" % (z(a[0]), z(a[1]))
    if k == "reject":
        return "(MReject %s %s %s)" % (z(a[0]), z(a[1]), z(a[2]))
    if k == "ping":
        return "MPing"
    raise KeyError(k)


def coq_ops(ops):
    res = []
    sess = 0
    for o in ops:
        n = o[0]
        if n == "session":
            sess += 1
            res.append("OSession")
        elif n == "accept":
            res.append("(OAccept %s)" % accept_term(o[1], o[2], o[3], o[4], sess))
        elif n == "ready":
            res.append("(OReady %s)" % z(o[1]))
        elif n == "msg":
            res.append("(OMsg %s)" % msg_term(o))
        elif n == "deq":
            res.append("ODeq")
        elif n == "pend":
            res.append("(OPend %s %s)" % (z(o[1]), z(o[2])))
        elif n == "unpend":
            res.append("(OUnpend %s)" % z(o[1]))
        elif n == "call":
            res.append("(OCall %s %s %s)" % (z(o[1]), z(o[2]), "true" if o[3] else "false"))
        elif n == "await":
            res.append("(OAwait %s)" % z(o[1]))
        elif n == "outputs":
            res.append("(OOutputs [%s] %s)" % ("; ".join("(%s, %s)" % (z(p[0]), z(p[1])) for p in o[1]), vlib.zlist(o[2])))
        else:
            raise KeyError(n)
    return res


BLOCK_KINDS = (6, 9, 10)
CALL_KINDS = (1, 2, 3, 4, 5, 6, 7, 8, 9, 10)


def rand_key(rng, kind):
    if kind == 5:
        return rng.range(0, 4) * 10
    if kind in BLOCK_KINDS:
        return 100 + rng.range(1, 4)
    if kind == 7:
        return 0
    return rng.range(1, 5)


class Sim:
    """rough mirror of the client used only to steer generation (never as an oracle)"""

    def __init__(self, qcap, full):
        self.qcap, self.full = qcap, full
        self.acc = False
        self.conn = False
        self.next = 1
        self.q = 0
        self.live = []      # (handle, kind, key, is_call, short)
        self.nh = 0
        self.used = set()


def response_for(rng, kind, key):
    """a server message that answers request (kind, key)"""
    if rng.chance(1, 4) and kind != 5:
        return ["msg", "reject", kind, -1 if kind == 7 and rng.chance(1, 2) else key, rng.range(1, 9)]
    if kind in (1, 2, 3, 8, 9, 10):
        return ["msg", "accept", kind, key]
    if kind == 4:
        return ["msg", "basetx", key]
    if kind == 5:
        return ["msg", "headers", key, rng.range(0, 3)]
    if kind == 6:
        return ["msg", "header", key]
    return ["msg", "fee"]


def random_msg(rng, sim):
    k = rng.weighted([("tx", 20), ("update", 14), ("insync", 4), ("chaintip", 3), ("headers", 6), ("header", 4), ("fee", 3),
                      ("basetx", 6), ("accept", 8), ("reject", 8), ("ping", 2)])
    if k in ("tx", "update"):
        idv = rng.weighted([(sim.next, 60), (sim.next + 1, 10), (max(1, sim.next - 1), 12), (sim.next + 5, 5), (1, 5), (0, 3)])
        return ["msg", k, idv, rng.range(1, 5)]
    if k == "insync" or k == "fee" or k == "ping":
        return ["msg", k]
    if k == "chaintip":
        return ["msg", k, rng.range(1, 4)]
    if k == "headers":
        return ["msg", k, rng.range(0, 4) * 10, rng.range(0, 3)]
    if k == "header":
        return ["msg", k, 100 + rng.range(1, 4)]
    if k == "basetx":
        return ["msg", k, rng.range(1, 5)]
    kind = rng.range(1, 12)
    key = -1 if rng.chance(1, 5) else rand_key(rng, kind if kind <= 10 else 1)
    if k == "accept":
        return ["msg", k, kind, key]
    return ["msg", k, kind, key, rng.range(1, 9)]


def gen_case(rng, focus, nops):
    qcap = rng.choice([2, 3, 5, 100]) if focus == "idgate" else rng.choice([4, 100, 100])
    full = 0 if rng.chance(1, 4) else 1
    sim = Sim(qcap, full)
    ops = []

    def do_session(valid_accept=True, ready=True):
        ops.append(["session"])
        sim.acc = False
        sim.conn = True
        if valid_accept:
            ops.append(["accept", 0, rng.range(0, 3), rng.range(0, 3), rng.range(0, 9)])
            sim.acc = True
            if sim.q < sim.qcap:
                sim.q += 1
        if ready:
            n = rng.weighted([(sim.next, 70), (0, 10), (1, 8), (sim.next + 3, 6), (max(1, sim.next - 2), 6)])
            ops.append(["ready", n])
            sim.next = 1 if n == 0 else n

    if focus == "auth":
        if rng.chance(1, 6):
            ops.append(["ready", rng.range(0, 3)])          # no connection yet
        ops.append(["session"])
        sim.conn = True
    else:
        do_session()
    while len(ops) < nops:
        if focus == "idgate":
            k = rng.weighted([("msg", 55), ("deq", 30), ("resession", 5), ("ready", 4), ("pend", 6)])
        elif focus == "router":
            k = rng.weighted([("pend", 18), ("call", 14), ("answer", 22), ("msg", 18), ("await", 10), ("unpend", 5), ("outputs", 5),
                              ("deq", 4), ("resession", 2), ("shortcall", 6)])
        else:
            k = rng.weighted([("forged", 22), ("msg", 30), ("genuine", 10), ("ready", 8), ("deq", 8), ("resession", 8), ("pend", 8),
                              ("answer", 6)])
        if k == "msg":
            m = random_msg(rng, sim)
            ops.append(m)
            if m[1] in ("tx", "update") and sim.acc and m[2] == sim.next and sim.q < sim.qcap:
                sim.next += 1
                sim.q += 1
            elif m[1] in ("insync", "chaintip", "fee") and sim.acc and sim.q < sim.qcap:
                sim.q += 1
        elif k == "deq":
            ops.append(["deq"])
            sim.q = max(0, sim.q - 1)
        elif k == "resession":
            do_session(valid_accept=(focus != "auth") or rng.chance(1, 2), ready=rng.chance(3, 4))
        elif k == "ready":
            n = rng.weighted([(sim.next, 60), (0, 15), (sim.next + 2, 15), (1, 10)])
            ops.append(["ready", n])
            if sim.conn:
                sim.next = 1 if n == 0 else n
        elif k == "forged":
            ops.append(["accept", rng.weighted([(1, 1), (2, 1), (3, 1), (4, 1), (5, 1), (6, 1), (7, 1), (8, 3)]),
                        rng.range(0, 3), rng.range(0, 3), rng.range(0, 9)])
        elif k == "genuine":
            ops.append(["accept", 0, rng.range(0, 3), rng.range(0, 3), rng.range(0, 9)])
            sim.acc = True
        elif k in ("pend", "call", "shortcall"):
            kind = rng.choice(CALL_KINDS) if k != "pend" else rng.range(1, 10)
            key = rand_key(rng, kind)
            tag = (kind, key)
            if tag in sim.used and not (focus == "router" and k == "pend" and rng.chance(1, 12)):
                continue
            sim.used.add(tag)
            if k == "pend":
                ops.append(["pend", kind, key])
                sim.live.append((sim.nh, kind, key, False, False))
            else:
                short = 1 if k == "shortcall" else 0
                ops.append(["call", kind, key, short])
                if short:
                    ops.append(["await", sim.nh])
                else:
                    sim.live.append((sim.nh, kind, key, True, False))
            sim.nh += 1
        elif k == "answer":
            if not sim.live:
                continue
            h, kind, key, is_call, _ = rng.choice(sim.live)
            ops.append(response_for(rng, kind, key))
            if sim.acc:
                sim.live = [x for x in sim.live if x[0] != h]
        elif k == "await":
            if sim.nh == 0:
                continue
            calls = [x for x in range(sim.nh)]
            ops.append(["await", rng.choice(calls)])
        elif k == "unpend":
            direct = [x for x in sim.live if not x[3]]
            if not direct:
                continue
            x = rng.choice(direct)
            ops.append(["unpend", x[0]])
            sim.live = [y for y in sim.live if y[0] != x[0]]
        elif k == "outputs":
            if not sim.acc:
                continue
            n = rng.range(1, 5)
            busy = set(x[2] for x in sim.live if x[1] == 4)      # a live GetTx for the same txid would take the response
            free = [t for t in range(1, 5) if t not in busy]
            if not free:
                continue
            pairs = [[rng.choice(free), rng.weighted([(0, 30), (1, 30), (2, 30), (3, 6), (7, 4)])] for _ in range(n)]
            known = [t for t in range(1, 5) if rng.chance(5, 6)]
            ops.append(["outputs", pairs, known])
    # let everything out
    for _ in range(min(sim.q + 1, 6)):
        ops.append(["deq"])
    return {"cfg": {"qcap": qcap, "full": full}, "ops": ops}


def sweep_cases():
    """the router table, systematically: every kind of request pending twice (two keys; the same hash under every
    kind that takes that sort of hash, so that a response routed by the wrong type or without its key is visible),
    then one server message, twice.  One case per message of every type / sub-type, with and without hash."""
    def key_of(kind, alt):
        if kind == 5:
            return 20 if alt else 10
        if kind in BLOCK_KINDS:
            return 103 if alt else 102
        if kind == 7:
            return 0
        return 3 if alt else 2
    msgs = [["msg", "headers", 10, 2], ["msg", "headers", 30, 1], ["msg", "header", 102], ["msg", "header", 2], ["msg", "fee"],
            ["msg", "basetx", 2], ["msg", "basetx", 4]]
    for kind in range(1, 13):
        k = key_of(kind if kind <= 10 else 1, False)
        if kind == 7:
            k = 2
        msgs += [["msg", "accept", kind, k], ["msg", "accept", kind, -1],
                 ["msg", "reject", kind, k, 3], ["msg", "reject", kind, -1, 4]]
    cases = []
    for m in msgs:
        ops = [["session"], ["accept", 0, 0, 0, 1], ["ready", 1]]
        for alt in (True, False):
            for kind in range(1, 11):
                if kind == 7 and alt:
                    continue
                ops.append(["pend", kind, key_of(kind, alt)])
        ops += [m, m, ["deq"], ["deq"]]
        cases.append({"cfg": {"qcap": 100, "full": 1}, "ops": ops, "origin": "router-sweep"})
    return cases


def fix_await(case):
    """await on a direct (non-call) handle is not an operation of the harness: drop such ops"""
    kinds = {}
    n = 0
    out = []
    for o in case["ops"]:
        if o[0] == "pend":
            kinds[n] = "pend"
            n += 1
        elif o[0] == "call":
            kinds[n] = "call"
            n += 1
        if o[0] == "await" and kinds.get(o[1]) != "call":
            continue
        out.append(o)
    case["ops"] = out
    return case


def build_suite(tier, rng, replay, focus, corpus, monitors, n_quick, n_thorough, salt, sweep=False):
    cases = []
    if replay:
        cases.append({"cfg": replay["cfg"], "ops": replay["ops"], "origin": "replay"})
    else:
        d = os.path.join(vlib.VERIF, "corpus", corpus)
        if os.path.isdir(d):
            for f in sorted(os.listdir(d)):
                if f.endswith(".json"):
                    j = json.load(open(os.path.join(d, f)))
                    cases.append({"cfg": j["cfg"], "ops": j["ops"], "origin": "corpus/%s/%s" % (corpus, f)})
        if sweep:
            cases += sweep_cases()
        n = n_quick if tier == "quick" else n_thorough
        for i in range(n):
            r = rng.fork(salt + i)
            foc = focus if not isinstance(focus, (list, tuple)) else focus[i % len(focus)]
            cases.append(fix_await(gen_case(r, foc, r.range(10, 45))))
    for c in cases:
        c["coq_ops"] = coq_ops(c["ops"])
        c["model"] = "cmp_run (run %s %d)" % ("true" if c["cfg"].get("full", 1) else "false", c["cfg"].get("qcap", 100))
    # monitors take the case's configuration: evaluated per case through per-case checker lists
    groups = []
    bycfg = {}
    for c in cases:
        bycfg.setdefault((c["cfg"].get("full", 1), c["cfg"].get("qcap", 100)), []).append(c)
    for (full, qcap), cs in sorted(bycfg.items()):
        mons = {}
        for name, expr in monitors.items():
            mons[name] = expr.replace("@FULL@", "true" if full else "false").replace("@QCAP@", str(qcap))
        groups.append({"key": "client-full%d-q%d" % (full, qcap), "cases": cs, "per_case_model": True, "monitors": mons})
    return Suite("client", "client", ["From V.model Require Import Client ClientSpec."], groups)


def keyfn(rec):
    ops = rec.get("ops", [])
    step = rec.get("step", 0)
    o = ops[step] if 0 <= step < len(ops) else ["?"]
    opn = o[0] + (":" + str(o[1]) if o[0] == "msg" else "")
    code = (rec.get("expected") or [0])[0] if rec.get("checker") != "model" else 0
    return "client:%s:%s:%s" % (rec.get("checker"), code, opn)
