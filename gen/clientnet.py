"""End-to-end scenarios of the remote client: the real RemoteClient.Run against a scripted service on a loopback
TCP listener (harness component "clientnet").  Every scenario lists its operations together with the observation
the property demands; `evaluate` runs them and returns failing-history records for run_check's `extra` hook."""
import vlib

READY, REGISTER = 20, 21


def gate_scenario(k=2, variant=0):
    """C18: a request issued while disconnected is written to the new connection only after its handshake."""
    return {"name": "gate_reconnect", "prop": "C18", "cfg": {"auto_ready": 1, "msg_timeout_ms": 4000}, "steps": [
        (["run"], [0]),
        (["srv_accept", 0, 3000], [0, 1, 1]),
        (["srv_collect", 1, 3000, 0], [0, 1, READY, 1]),
        (["srv_close"], [0]),
        (["sleep", 150], [0]),
        (["call", 4, k], [0, 0]),
        (["srv_accept", -1, 3000], [0, 1, 1]),
        # the service withholds its accept: nothing but handshake-type messages may arrive (811)
        (["srv_quiet", 700], [0]),
        (["srv_send_accept", variant], [0]),
        (["srv_collect", 2, 3000, 0], [0, 2, READY, 1, 4, k]),
        (["srv_send", "basetx", k], [0]),
        (["await", 0, 3000], [0, 0, k]),
        (["stop"], [0, 1]),
    ]}


def auth_scenario(variant):
    """C18: a forged accept ends Run with an authentication error and nothing reaches the handlers."""
    err = {1: 1, 2: 1, 3: 2, 4: 2, 5: 2, 6: 1, 7: 2}[variant]
    return {"name": "forged_accept_%d" % variant, "prop": "C18", "cfg": {"auto_ready": 0}, "steps": [
        (["run"], [0]),
        (["srv_accept", variant, 3000], [0, 1, 1]),
        (["srv_send", "tx", 1, 1], None),
        (["srv_send", "insync"], None),
        (["run_result", 3000], [0, 1, err]),
        (["handled", 100], [0]),
        (["next"], [0, 1]),
    ]}


def early_data_scenario():
    """C18: data sent before the accept message is not delivered; after a genuine accept it is."""
    return {"name": "data_before_accept", "prop": "C18", "cfg": {"auto_ready": 1}, "steps": [
        (["run"], [0]),
        (["srv_accept", -1, 3000], [0, 1, 1]),
        (["srv_send", "tx", 1, 1], [0]),
        (["srv_send", "insync"], [0]),
        (["handled", 300], [0]),
        (["srv_send_accept", 0], [0]),
        (["srv_collect", 1, 3000, 0], [0, 1, READY, 1]),
        (["srv_send", "tx", 1, 2], [0]),
        (["handled", 400], [0, 1, 1]),
        (["stop"], [0, 1]),
    ]}


def order_scenario():
    """C17: duplicated / skipped ids, a connection drop, resume with the reported next id: no gap, no repeat."""
    return {"name": "ids_across_reconnect", "prop": "C17", "cfg": {"auto_ready": 1}, "steps": [
        (["run"], [0]),
        (["srv_accept", 0, 3000], [0, 1, 1]),
        (["srv_collect", 1, 3000, 0], [0, 1, READY, 1]),
        (["srv_send", "tx", 1, 1], [0]),
        (["srv_send", "update", 2, 1], [0]),
        (["srv_send", "tx", 2, 2], [0]),
        (["srv_send", "tx", 4, 4], [0]),
        (["srv_send", "tx", 3, 3], [0]),
        (["handled", 400], [0, 1, 1, 2, 2, 1, 3]),
        (["next"], [0, 4]),
        (["srv_close"], [0]),
        (["srv_accept", 0, 3000], [0, 1, 1]),
        (["srv_collect", 1, 3000, 0], [0, 1, READY, 4]),
        (["srv_send", "tx", 3, 3], [0]),
        (["srv_send", "tx", 4, 4], [0]),
        (["srv_send", "update", 5, 4], [0]),
        (["srv_send", "insync"], [0]),
        (["handled", 400], [0, 1, 4, 2, 5, 4, 0]),
        (["next"], [0, 6]),
        (["stop"], [0, 1]),
    ]}


def rerun_scenario():
    """C17: Run is stopped, returns, and is started again on the same client object (an application that restarts its
    connection loop): the next-message id is the client's delivery cursor, not per-run state - the second run declares
    last delivered + 1 and nothing is handled twice."""
    return {"name": "ids_across_second_run", "prop": "C17", "cfg": {"auto_ready": 1}, "steps": [
        (["run"], [0]),
        (["srv_accept", 0, 3000], [0, 1, 1]),
        (["srv_collect", 1, 3000, 0], [0, 1, READY, 1]),
        (["srv_send", "tx", 1, 1], [0]),
        (["srv_send", "tx", 2, 2], [0]),
        (["srv_send", "update", 3, 2], [0]),
        (["handled", 400], [0, 1, 1, 1, 2, 2, 3]),
        (["next"], [0, 4]),
        (["stop"], [0, 1]),
        (["run"], [0]),
        (["srv_accept", 0, 3000], [0, 1, 1]),
        (["srv_collect", 1, 3000, 0], [0, 1, READY, 4]),
        (["srv_send", "tx", 3, 3], [0]),
        (["srv_send", "tx", 4, 4], [0]),
        (["srv_send", "update", 5, 4], [0]),
        (["handled", 400], [0, 1, 4, 2, 5]),
        (["next"], [0, 6]),
        (["stop"], [0, 1]),
    ]}


def concurrent_scenario(order):
    """C16: six concurrent calls of mixed kinds, responses permuted / unsolicited / rejected."""
    calls = [(4, 1), (4, 2), (5, 10), (6, 101), (1, 3), (7, 0)]
    want_sent = sorted([(4, 1), (4, 2), (5, 10), (6, 101), (1, 3), (7, -1)])
    responses = {0: ["srv_send", "basetx", 1], 1: ["srv_send", "basetx", 2], 2: ["srv_send", "headers", 10, 2],
                 3: ["srv_send", "header", 101], 4: ["srv_send", "reject", 1, 3, 5], 5: ["srv_send", "fee"]}
    results = {0: [0, 0, 1], 1: [0, 0, 2], 2: [0, 0, 10, 2], 3: [0, 0, 101], 4: [0, 6, 5], 5: [0, 0]}
    steps = [(["run"], [0]), (["srv_accept", 0, 3000], [0, 1, 1]), (["srv_collect", 1, 3000, 0], [0, 1, READY, 1])]
    for i, (k, key) in enumerate(calls):
        steps.append((["call", k, key], [0, i]))
    flat = [0, 6]
    for k, key in want_sent:
        flat += [k, key]
    steps.append((["srv_collect", 6, 4000, 1], flat))
    steps.append((["srv_send", "basetx", 4], [0]))            # unsolicited
    steps.append((["srv_send", "accept", 4, 1], [0]))         # an accept for a get tx: answers nothing
    for i in order:
        steps.append((responses[i], [0]))
        if i == order[2]:
            steps.append((["srv_send", "basetx", 2], [0]))    # duplicate (possibly before the original)
    for i in range(6):
        steps.append((["await", i, 4000], results[i]))
    steps.append((["stop"], [0, 1]))
    return {"name": "concurrent_" + "".join(map(str, order)), "prop": "C16", "cfg": {"auto_ready": 1}, "steps": steps}


def timeout_scenario():
    """C16: an unanswered call times out alone; a late response to it disturbs nobody."""
    return {"name": "timeout_isolated", "prop": "C16", "cfg": {"auto_ready": 1, "request_timeout_ms": 2500}, "steps": [
        (["run"], [0]),
        (["srv_accept", 0, 3000], [0, 1, 1]),
        (["srv_collect", 1, 3000, 0], [0, 1, READY, 1]),
        (["call", 5, 30], [0, 0]),
        (["sleep", 2000], [0]),                                # the second call has ~2 s left when the first times out
        (["call", 4, 2], [0, 1]),
        (["srv_collect", 2, 3000, 1], [0, 2, 4, 2, 5, 30]),
        (["await", 0, 5000], [0, 4]),
        (["srv_send", "headers", 30, 1], [0]),                # late response to the timed-out call
        (["srv_send", "basetx", 2], [0]),
        (["await", 1, 2000], [0, 0, 2]),
        (["stop"], [0, 1]),
    ]}


def scenarios(prop, tier, rng):
    res = []
    if prop == "C18":
        res += [gate_scenario(2), gate_scenario(3), early_data_scenario()]
        res += [auth_scenario(v) for v in ((1, 3, 4) if tier == "quick" else (1, 2, 3, 4, 5, 6, 7))]
    if prop == "C17":
        res += [order_scenario(), rerun_scenario()]
    if prop == "C16":
        perms = [[0, 1, 2, 3, 4, 5], [5, 4, 3, 2, 1, 0], [3, 0, 5, 2, 4, 1]]
        if tier != "quick":
            perms += [rng.fork(160 + i).shuffle([0, 1, 2, 3, 4, 5]) for i in range(12)]
        res += [concurrent_scenario(p) for p in perms] + [timeout_scenario()]
    return res


def evaluate(prop, tier, rng, workdir):
    scs = scenarios(prop, tier, rng)
    for s in scs:
        # "handled" waits for the number of callbacks the scenario expects (robust on a loaded machine)
        s["steps"] = [((o + [(len(w) - 1) // 2] if o[0] == "handled" and len(o) == 2 and w and len(w) > 2 else o), w)
                      for o, w in s["steps"]]
    cases = [{"cfg": s["cfg"], "ops": [st[0] for st in s["steps"]]} for s in scs]
    results, _ = vlib.run_harness("clientnet", cases, workdir, tag="clientnet", timeout=900)
    failures = []
    for s, c, r in zip(scs, cases, results):
        for i, ((o, want), got) in enumerate(zip(s["steps"], r)):
            if want is not None and list(got) != list(want):
                failures.append({"suite": "clientnet", "checker": "net", "step": i, "expected": [900 + i], "observed": list(got),
                                 "cfg": c["cfg"], "ops": c["ops"], "trace": r, "scenario": s["name"],
                                 "what": "scenario %s step %d %s: observed %s, the property demands %s" % (s["name"], i, o, list(got), want)})
                break
    return {"failures": failures, "evaluations": len(scs),
            "coverage": {"loopback_scenarios": [s["name"] for s in scs], "loopback_steps": sum(len(s["steps"]) for s in scs)}}


def key_for(rec):
    ops = rec.get("ops", [])
    step = rec.get("step", 0)
    opn = ops[step][0] if 0 <= step < len(ops) else "?"
    return "clientnet:%s:%s:%s" % (rec.get("scenario", "?"), step, opn)
