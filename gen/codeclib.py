"""Shared machinery of the codec checks C15 / C20: schemas written by the translator (work/schemas*.json),
value generator, a schema-driven Python encoder (records where count / length fields sit) and decoder
(predicts allocation, finds which dependency decoders an input reaches), conversions between the
harness' JSON value tree, Python values and Coq terms, and the sharded evaluation of checkers inside
Coq.  Python 3 standard library only.

Python values:  ("i", int) ("b", bytes) ("t", bool) ("l", [v]) ("s", [(name, v)]) ("o", v | None)"""
import hashlib
import json
import os
import re
import subprocess

import vlib

MAKESLICE_LIMIT = 2 ** 48
HARNESS_TYPES_SKIP = {"Fee"}          # no stand-alone entry point in the harness (covered through FeeQuote)


def schema_path():
    name = "schemas.json" if vlib.REPO == "/repo" else "schemas-%s.json" % hashlib.sha256(vlib.REPO.encode()).hexdigest()[:8]
    return os.path.join(vlib.WORK, name)


def has_unsupported(f):
    if isinstance(f, dict):
        if f.get("k") == "unsupported":
            return True
        return any(has_unsupported(v) for v in f.values())
    if isinstance(f, list):
        return any(has_unsupported(v) for v in f)
    return False


def load_schemas():
    """The formats regenerated from the source.  When a regenerated format contains a statement the translator does
    not recognise (the proof obligations then fail closed), the implementation-side tests would have nothing to
    generate values / parse results with: for THAT purpose only the format of the same type from the pinned
    reference (gen/schemas_ref.json, produced from the tree this development was written against) stands in, and the
    type is listed under j["fallback"].  The Coq side always sees the regenerated formats."""
    j = json.load(open(schema_path()))
    T = {t["name"]: t for t in j["types"]}
    ref_path = os.path.join(vlib.VERIF, "gen", "schemas_ref.json")
    j["fallback"] = []
    if os.path.exists(ref_path):
        R = {t["name"]: t for t in json.load(open(ref_path))["types"]}
        for name, t in T.items():
            for side in ("r", "w"):
                if side in t and has_unsupported(t[side]) and name in R and side in R[name]:
                    t[side] = R[name][side]
                    j["fallback"].append("%s.%s" % (name, side))
    return T, j


# ------------------------------------------------------------------------------------------------
# varint / little endian

def le(n, w):
    return bytes((n >> (8 * i)) & 0xff for i in range(w))


def varint(n):
    if n < 0xfd:
        return bytes([n])
    if n <= 0xffff:
        return b"\xfd" + le(n, 2)
    if n <= 0xffffffff:
        return b"\xfe" + le(n, 4)
    return b"\xff" + le(n, 8)


def read_varint(bs, pos):
    """-> (value, newpos) or None"""
    if pos >= len(bs):
        return None
    d = bs[pos]
    if d < 0xfd:
        return d, pos + 1
    w, mn = {0xfd: (2, 0xfd), 0xfe: (4, 0x10000), 0xff: (8, 0x100000000)}[d]
    if pos + 1 + w > len(bs):
        return None
    v = int.from_bytes(bs[pos + 1:pos + 1 + w], "little")
    if v < mn:
        return None
    return v, pos + 1 + w


# ------------------------------------------------------------------------------------------------
# value generation

VARINT_BOUNDS = [0, 1, 0xfc, 0xfd, 0xfe, 0xff, 0xffff, 0x10000, 2 ** 32 - 1, 2 ** 32, 2 ** 63, 2 ** 64 - 1]


def lookup_path(fields, path):
    cur = fields
    v = None
    for p in path:
        d = dict(cur)
        if p not in d:
            return None
        v = d[p]
        if v[0] == "s":
            cur = v[1]
    return v


def dep_decoders(f, acc=None):
    """names of the dependency decoders (opaque nodes / checked blobs) a format reaches"""
    acc = [] if acc is None else acc
    if isinstance(f, dict):
        if f.get("k") == "opaque" and f.get("name") and f["name"] not in acc:
            acc.append(f["name"])
        if f.get("chk") and f["chk"] not in acc:
            acc.append(f["chk"])
        for v in f.values():
            dep_decoders(v, acc)
    elif isinstance(f, (list, tuple)):
        for v in f:
            dep_decoders(v, acc)
    return acc


def has_list(f):
    if isinstance(f, dict):
        if f.get("k") == "list":
            return True
        return any(has_list(v) for v in f.values())
    if isinstance(f, (list, tuple)):
        return any(has_list(v) for v in f)
    return False


def has_free_varbytes(f):
    """does the format contain a length-prefixed byte block whose content is free (not a checked dependency blob)?"""
    if isinstance(f, dict):
        if f.get("k") == "varbytes" and not f.get("chk"):
            return True
        return any(has_free_varbytes(v) for v in f.values())
    if isinstance(f, (list, tuple)):
        return any(has_free_varbytes(v) for v in f)
    return False


def gen_value(f, rng, pool, fields=None, small=False, big=False, longlist=None):
    k = f["k"]
    if k == "uint":
        m = 2 ** (8 * f["w"])
        return ("i", rng.choice([0, 1, m - 1, m // 2, rng.below(m), rng.below(256)]))
    if k == "sint":
        m = 2 ** (8 * f["w"])
        return ("i", rng.choice([0, 1, -1, -(m // 2), m // 2 - 1, rng.below(m) - m // 2]))
    if k == "bool":
        return ("t", rng.chance(1, 2))
    if k == "varint":
        lim = 2 ** f["bits"]
        c = [b for b in VARINT_BOUNDS if b < lim] + [lim - 1, rng.below(lim), rng.below(70000)]
        return ("i", rng.choice(c))
    if k == "bytes":
        return ("b", bytes(rng.below(256) for _ in range(f["n"])))
    if k == "varbytes":
        if f.get("chk"):
            return ("b", rng.choice(pool[f["chk"]]))
        if big:
            # blocks around the sizes at which readers switch strategy (buffer sizes, pre-allocation clamps)
            n = rng.choice([1023, 1024, 1025, 1500, 2048, 2049, 3000])
        else:
            n = rng.choice([0, 0, 1, 2, 20, 0xfc, 0xfd, 300] if not small else [0, 1, 3, 25])
        return ("b", bytes(rng.below(256) for _ in range(n)))
    if k == "list":
        heavy = f["elem"]["k"] in ("struct", "opaque") or small or (f["elem"]["k"] == "bytes" and f["elem"]["n"] >= 20)
        n = rng.choice([0, 0, 1, 2, 3] + ([5] if heavy else [0xfc, 0xfd, 300]))
        if big and n == 0:
            n = 1
        if longlist and longlist.get("left", 0) > 0 and not dep_decoders(f["elem"]):
            # (not a list of dependency blobs: each needs its own oracle round to be located)
            # one list of the value gets just over the 1024 elements readers pre-allocate at most
            longlist["left"] -= 1
            n = rng.choice([1025, 1025, 1031, 1024 + 1024 + 1])
            return ("l", [gen_value(f["elem"], rng, pool, fields, small=True) for i in range(n)])
        return ("l", [gen_value(f["elem"], rng, pool, fields, small=True, big=big and i == n - 1) for i in range(n)])
    if k == "listof":
        ref = lookup_path(fields or [], f["path"])
        n = len(ref[1]) if ref and ref[0] == "l" else 0
        return ("l", [gen_value(f["elem"], rng, pool, fields, small=True) for _ in range(n)])
    if k == "opt":
        return ("o", gen_value(f["elem"], rng, pool, fields, small, big, longlist) if (big or longlist or rng.chance(1, 2)) else None)
    if k == "struct":
        fs = []
        for name, ff in f["fields"]:
            fs.append((name, gen_value(ff, rng, pool, fs, small, big, longlist)))
        return ("s", fs)
    if k == "opaque":
        return ("b", rng.choice(pool[f["name"]]))
    raise ValueError("cannot generate for " + k)


# ------------------------------------------------------------------------------------------------
# Python encoder; sites = [(offset, length, label, kind)] of every count / length varint

def enc(f, v, out, sites, label):
    k = f["k"]
    if f.get("dep"):
        label = "dep:" + f["dep"]
    if f.get("tname"):
        label = "@" + f["tname"] + "@"
    if k == "uint":
        out += le(v[1], f["w"])
    elif k == "sint":
        out += le(v[1] % (2 ** (8 * f["w"])), f["w"])
    elif k == "bool":
        out.append(1 if v[1] else 0)
    elif k == "varint":
        out += varint(v[1])
    elif k == "bytes":
        out += v[1]
    elif k == "opaque":
        sites.append((len(out), len(v[1]), label, "opaque:" + f["name"]))
        out += v[1]
    elif k == "varbytes":
        vb = varint(len(v[1]))
        sites.append((len(out), len(vb), label, "size"))
        out += vb
        out += v[1]
    elif k == "list":
        vb = varint(len(v[1]))
        sites.append((len(out), len(vb), label, "count"))
        out += vb
        for e in v[1]:
            enc(f["elem"], e, out, sites, label + "[]")
    elif k == "listof":
        for e in v[1]:
            enc(f["elem"], e, out, sites, label + "[]")
    elif k == "opt":
        if v[1] is None:
            out.append(0)
        else:
            out.append(1)
            enc(f["elem"], v[1], out, sites, label)
    elif k == "struct":
        d = dict(v[1])
        for name, ff in f["fields"]:
            enc(ff, d[name], out, sites, (label + "." if label and not label.endswith("@") else label) + name)
    else:
        raise ValueError("cannot encode " + k)


def encode(f, v):
    out = bytearray()
    sites = []
    enc(f, v, out, sites, "")
    return bytes(out), sites


# ------------------------------------------------------------------------------------------------
# Python decoder (mirror of CodecDSL.decode): outcome, allocation, hottest allocation site

class NeedOracle(Exception):
    def __init__(self, key, data):
        self.key = key
        self.data = data


class Dec:
    def __init__(self, bs, oracle):
        self.bs = bs
        self.oracle = oracle        # {(name, remaining_len or block_len): (class, consumed)}
        self.alloc = 0
        self.hot = (0, "")          # (bytes, label) of the largest single reservation
        self.used = []              # oracle entries used, for the Coq table

    def charge(self, n, label):
        self.alloc += n
        if n > self.hot[0]:
            self.hot = (n, label)

    def ask(self, name, data):
        key = (name, bytes(data))
        if key not in self.oracle:
            raise NeedOracle(key, data)
        c, n = self.oracle[key]
        if key in UNSAFE_BLOBS:
            self.unsafe = True
        self.used.append((name, len(data), c, n))
        return c, n

    def run(self, f, pos, fields, label):
        """-> ("ok", value, pos) | ("err",) | ("panic", label)"""
        bs = self.bs
        k = f["k"]
        if f.get("dep"):
            label = "dep:" + f["dep"]
        if f.get("tname"):
            label = "@" + f["tname"] + "@"
        if k in ("uint", "sint"):
            w = f["w"]
            if pos + w > len(bs):
                return ("err",)
            u = int.from_bytes(bs[pos:pos + w], "little")
            if k == "sint" and u >= 2 ** (8 * w - 1):
                u -= 2 ** (8 * w)
            return ("ok", ("i", u), pos + w)
        if k == "bool":
            if pos >= len(bs):
                return ("err",)
            return ("ok", ("t", bs[pos] != 0), pos + 1)
        if k == "varint":
            r = read_varint(bs, pos)
            if r is None:
                return ("err",)
            return ("ok", ("i", r[0] % (2 ** f["bits"])), r[1])
        if k == "bytes":
            n = f["n"]
            if pos + n > len(bs):
                return ("err",)
            self.charge(n, label)
            return ("ok", ("b", bs[pos:pos + n]), pos + n)
        if k == "varbytes":
            r = read_varint(bs, pos)
            if r is None:
                return ("err",)
            n, pos = r
            if f["shape"] == "pre":
                if f.get("lim") and n > int(f["lim"]):
                    return ("err",)
                if n > MAKESLICE_LIMIT:
                    return ("panic", label + ":size")
                self.charge(n, label + ":size")
            else:
                self.charge(2 * min(n, len(bs) - pos) + 512, label + ":size")
            if pos + n > len(bs):
                return ("err",)
            blk = bs[pos:pos + n]
            if f.get("chk"):
                c, _ = self.ask(f["chk"], blk)
                if c == 1:
                    return ("err",)
                if c != 0:
                    return ("panic", "dep:" + f["chk"])
            return ("ok", ("b", blk), pos + n)
        if k in ("list", "listof"):
            if k == "list":
                r = read_varint(bs, pos)
                if r is None:
                    return ("err",)
                c, pos = r
                if f["shape"] == "pre":
                    if f.get("lim") and c > int(f["lim"]):
                        return ("err",)
                    if c * f["esz"] > MAKESLICE_LIMIT:
                        return ("panic", label + ":count")
                    self.charge(c * f["esz"], label + ":count")
                    pe = 0
                else:
                    self.charge(min(c, f["cap"]) * f["esz"], label + ":count")
                    pe = 2 * f["esz"]
            else:
                ref = lookup_path(fields, f["path"])
                if not ref or ref[0] != "l":
                    return ("err",)
                c = len(ref[1])
                pe = f["esz"] if f["shape"] == "pre" else 2 * f["esz"]
            items = []
            fuel = len(bs) - pos
            while c > 0:
                if fuel == 0:
                    return ("err",)
                fuel -= 1
                r = self.run(f["elem"], pos, fields, label + "[]")
                if r[0] != "ok":
                    return r
                self.alloc += pe
                items.append(r[1])
                pos = r[2]
                c -= 1
            return ("ok", ("l", items), pos)
        if k == "opt":
            if pos >= len(bs):
                return ("err",)
            if bs[pos] == 0:
                return ("ok", ("o", None), pos + 1)
            r = self.run(f["elem"], pos + 1, fields, label)
            if r[0] != "ok":
                return r
            return ("ok", ("o", r[1]), r[2])
        if k == "struct":
            fs = []
            for name, ff in f["fields"]:
                r = self.run(ff, pos, fs, (label + "." if label and not label.endswith("@") else label) + name)
                if r[0] != "ok":
                    return r
                fs.append((name, r[1]))
                pos = r[2]
            return ("ok", ("s", fs), pos)
        if k == "opaque":
            c, n = self.ask(f["name"], bs[pos:])
            if c == 1:
                return ("err",)
            if c != 0:
                return ("panic", "dep:" + f["name"])
            if n == 0 or pos + n > len(bs):
                return ("err",)
            self.charge(16 * n, label)
            return ("ok", ("b", bs[pos:pos + n]), pos + n)
        return ("panic", "unsupported:" + f.get("name", ""))


# blobs on which a dependency decoder was killed (address-space limit) or timed out in the child process: inputs
# that reach them are only ever decoded in a child process (the hostile run of C20), never in-process
UNSAFE_BLOBS = set()


def predict(f, bs, oracle):
    """-> dict(cls 0/1/2, consumed, alloc, hot, used, unsafe) ; raises NeedOracle"""
    d = Dec(bs, oracle)
    d.unsafe = False
    r = d.run(f, 0, [], "")
    cls = {"ok": 0, "err": 1, "panic": 2}[r[0]]
    return {"unsafe": d.unsafe, "cls": cls, "consumed": r[2] if cls == 0 else 0, "alloc": d.alloc,
            "hot": r[1] if cls == 2 else d.hot[1], "used": d.used, "value": r[1] if cls == 0 else None}


def resolve_oracles(items, workdir, tag, oracle=None):
    """items: list of dict(f=reader schema, bs=bytes).  Fills it['pred'] using the real dependency
    decoders as oracles (harness op 'odec'), in as many rounds as inputs nest opaque values."""
    oracle = {} if oracle is None else oracle
    pending = list(range(len(items)))
    for rnd in range(16):
        queries = []
        still = []
        for i in pending:
            it = items[i]
            try:
                it["pred"] = predict(it["f"], it["bs"], oracle)
            except NeedOracle as e:
                if e.key not in queries:
                    queries.append(e.key)
                still.append(i)
        if not still:
            break
        # in a child process with an address-space limit: a dependency decoder may ask for terabytes on a mutated
        # blob (known findings of C20), which would be a fatal error of the harness process itself
        res, _ = vlib.run_harness("codec_hostile", [{"cfg": {"aslimit_mb": 1024, "timeout_ms": 10000},
                                                      "ops": [["odec", n, d.hex()] for n, d in queries]}], workdir,
                                  tag=tag + "_odec%d" % rnd, timeout=1800)
        for key, o in zip(queries, res[0]):
            # killed / timed out counts as a panic of the dependency decoder for the prediction (class 2)
            oracle[key] = (min(o[0], 2), o[1] if len(o) > 1 and o[0] < 2 else 0)
            if o[0] >= 3 or (len(o) > 2 and o[2] > (256 << 20)):
                UNSAFE_BLOBS.add(key)
        pending = still
    for i in pending:
        if "pred" not in items[i]:
            items[i]["pred"] = None
    return oracle


# ------------------------------------------------------------------------------------------------
# conversions

def to_json(v):
    t = v[0]
    if t == "i":
        return str(v[1])
    if t == "b":
        return {"b": v[1].hex()}
    if t == "t":
        return bool(v[1])
    if t == "l":
        return [to_json(x) for x in v[1]]
    if t == "s":
        return {"s": [[n, to_json(x)] for n, x in v[1]]}
    if t == "o":
        return {"o": None if v[1] is None else to_json(v[1])}
    raise ValueError(t)


def from_json(j, f):
    """harness tree -> Python value, following the schema (struct fields reordered to wire order)"""
    k = f["k"]
    if k in ("uint", "sint", "varint"):
        return ("i", int(j))
    if k == "bool":
        return ("t", bool(j))
    if k in ("bytes", "varbytes", "opaque"):
        if not isinstance(j, dict) or "b" not in j:
            return ("b", b"\x00BAD")
        return ("b", bytes.fromhex(j["b"]))
    if k in ("list", "listof"):
        return ("l", [from_json(x, f["elem"]) for x in (j or [])])
    if k == "opt":
        return ("o", None if j.get("o") is None else from_json(j["o"], f["elem"]))
    if k == "struct":
        d = {n: x for n, x in j["s"]}
        return ("s", [(n, from_json(d[n], ff)) for n, ff in f["fields"]])
    raise ValueError(k)


def zl(b):
    return '(hexb "%s")' % bytes(b).hex()


def to_coq(v):
    t = v[0]
    if t == "i":
        return "(VInt %s)" % vlib.z(v[1])
    if t == "b":
        return "(VBytes %s)" % zl(v[1])
    if t == "t":
        return "(VBool %s)" % ("true" if v[1] else "false")
    if t == "l":
        return "(VList [" + "; ".join(to_coq(x) for x in v[1]) + "])"
    if t == "s":
        return "(VStruct [" + "; ".join('("%s", %s)' % (n, to_coq(x)) for n, x in v[1]) + "])"
    if t == "o":
        return "(VOpt None)" if v[1] is None else "(VOpt (Some %s))" % to_coq(v[1])
    raise ValueError(t)


def otable_coq(used):
    seen = []
    for e in used:
        if e not in seen:
            seen.append(e)
    return "[" + "; ".join('("%s", %d, %d, %d)' % e for e in seen) + "]"


def summarize(v, maxlen=12):
    """short printable form of a value for samples / replays"""
    t = v[0]
    if t == "b":
        h = v[1].hex()
        return "0x" + (h if len(h) <= 2 * maxlen else h[:2 * maxlen] + "..(%d bytes)" % len(v[1]))
    if t == "l":
        return [summarize(x) for x in v[1][:4]] + (["..(%d)" % len(v[1])] if len(v[1]) > 4 else [])
    if t == "s":
        return {n: summarize(x) for n, x in v[1]}
    if t == "o":
        return None if v[1] is None else summarize(v[1])
    return v[1]


# ------------------------------------------------------------------------------------------------
# evaluation inside Coq

PRELUDE = """From Coq Require Import ZArith String List Bool.
From V.model Require Import CodecDSL CodecCheck.
From V.gen Require Import CodecGen TypeTables.
Import ListNotations.
Local Open Scope Z_scope.
Local Open Scope string_scope.
"""


def coq_eval(workdir, name, casetype, rows, expr, shard=250, timeout=900, deps="real_deps", maxchars=600000):
    """Writes rows (Coq terms of type casetype) into shards `Definition cases : list casetype`, evaluates
    `expr` (a Coq expression over `cases` and `types`) by vm_compute in each, and returns
    (list of (row index, parsed result), list of coq errors)."""
    os.makedirs(workdir, exist_ok=True)
    for fn in os.listdir(workdir):
        if fn.startswith(name + "_") and (fn.endswith(".v") or fn.endswith(".vo") or fn.endswith(".glob")):
            os.remove(os.path.join(workdir, fn))
    files = []
    groups, cur, cursz = [], [], 0
    for i, r in enumerate(rows):
        if cur and (len(cur) >= shard or cursz + len(r) > maxchars):
            groups.append(cur)
            cur, cursz = [], 0
        cur.append(i)
        cursz += len(r)
    if cur:
        groups.append(cur)
    for si, g in enumerate(groups):
        vf = os.path.join(workdir, "%s_%d.v" % (name, si))
        with open(vf, "w") as fh:
            fh.write(PRELUDE)
            fh.write("Definition types := all_types %s.\n" % deps)
            fh.write("Definition cases : list (%s) := [\n" % casetype)
            fh.write(";\n".join(rows[i] for i in g))
            fh.write("\n].\nDefinition R := Eval vm_compute in (%s).\nPrint R.\n" % expr)
        files.append((g[0], vf))
    out, errors = [], []
    running, pending = [], list(files)
    while pending or running:
        while pending and len(running) < 8:
            s0, vf = pending.pop(0)
            p = subprocess.Popen(["timeout", str(timeout), "coqc", "-noglob"] + vlib.coq_flags() + [vf], cwd=workdir,
                                 stdout=subprocess.PIPE, stderr=subprocess.PIPE, text=True)
            running.append((p, s0, vf))
        p, s0, vf = running.pop(0)
        so, se = p.communicate()
        if p.returncode != 0:
            errors.append({"file": vf, "stderr": se[-1500:]})
            continue
        m = re.search(r"R =\s*(.*?)\n\s*: ", so, re.S)
        if not m:
            errors.append({"file": vf, "stderr": "no result: " + so[-500:]})
            continue
        val = vlib.parse_coq_value("= " + m.group(1) + "\n : x")
        for item in val:
            out.append((s0 + item[0], item[1]))
    return out, errors
