"""Writes /verif/MANIFEST.json from the table below (kept valid at all times)."""
import json
import os

VERIF = os.path.dirname(os.path.dirname(os.path.abspath(__file__)))

BASELINE_OFF = ("cd /repo && export GOFLAGS=-mod=mod GOPROXY=off GOSUMDB=off && "
                "go test -mod=mod -json -vet=off -count=1 -timeout 25m ./...")

CHECKS = {
    "C09": dict(
        text="Machine-checked refinement proof (Coq): for every operation sequence, every file size K>0 and both "
             "remove-missing back ends, the model of BlockRepository/GetHeaders answers every query like the abstract "
             "header list (props/C09.v, 7 theorems, unbounded induction over op lists). The model is tied to the code "
             "on every run by a correspondence check that executes the real BlockRepository and Node.GetHeaders on "
             "generated histories (real K=1000, boundary-focused) and compares every observation with the model "
             "evaluated inside Coq (vm_compute); blocksPerKey is re-extracted from blocks.go by the translator.",
        note="Trusted: Coq kernel, the hand-written model (validated by correspondence), wire.BlockHeader codec and "
             "SHA256d abstracted (header = id/prev/time), storage back end = atomic per-key map. Storage faults are C10.",
        technique="Coq refinement proof + model/implementation correspondence",
        ref="5/C09"),
    "C13": dict(
        text="Machine-checked proof (Coq) that the model of state/requests.go refines a reference FIFO queue on every "
             "operation sequence, plus invariants of the reference queue (window bound, byte accounting = sum of "
             "buffered sizes, pause, FIFO order, no duplicate requests on a tree, clear-after). Correspondence check "
             "runs the real state.State on random sequences and on all sequences of depth 3/4 over a forked tree.",
        note="Trusted: Coq kernel, hand-written model validated by correspondence; block body = its size; State methods "
             "atomic under state.lock.",
        technique="Coq refinement proof + model/implementation correspondence",
        ref="5/C13"),
}

CHECKS["C05"] = dict(
    text="Machine-checked proof (Coq) that the model of the mempool's outpoint index refines an index-free reference "
         "(list of held bodies, spenders found by scanning) on every operation sequence; index exactness invariant; "
         "add returns exactly the conflicting held txs, no false conflicts after removals/evictions. Correspondence "
         "check runs the real state.MemPool on generated sequences incl. all arrival orders of a 4-tx pattern. Node "
         "level (both txs reported unsafe) is covered by the TxFlow suite.",
    note="Trusted: Coq kernel, hand-written model validated by correspondence; txid/outpoint hashes are ids; MemPool "
         "methods atomic under memPool.mutex.",
    technique="Coq refinement proof + model/implementation correspondence",
    ref="5/C05")

CHECKS["C08"] = dict(
    text="Machine-checked proofs (Coq): the push-data walk yields exactly the pushes of the well-formed item prefix of "
         "any script for all item lists and all tails (round trip against a declarative item grammar), truncated "
         "tails contribute nothing, the filter is equivalent to its declarative meaning for all oracles, "
         "subscribe/unsubscribe are multiset inverse, raw data = its hash. Correspondence check runs the real "
         "Node.IsRelevant/Subscribe* on generated scripts (all push forms, malformed tails) and real contract scripts.",
    note="Trusted: Coq kernel, hand-written model (incl. the model of the dependency's ParsePushDataScript) validated "
         "by correspondence; RIPEMD160.SHA256 and the Tokenized action parser are oracles supplied as tables.",
    technique="Coq proof over a parser model + model/implementation correspondence",
    ref="5/C08")

_TXFLOW_NOTE = ("Trusted: Coq kernel; hand-written model TxFlow.v/MemPool.v validated by correspondence on a real Node "
                "(in-package harness); relevance is a boolean per tx (C08 composes), hashes are ids, output fetcher answers "
                "in order; atomicity at the granularity of processUnconfirmedTx / ProcessBlock / one delay-check pass.")
for _pid, _what in [
    ("C03", "soundness, completeness with spent outputs, delivered-as-new at most once (duplicates, several announcers, inv/tx races, re-announcement after confirmation, restart)"),
    ("C06", "a block transaction conflicting with a delivered unconfirmed tx yields exactly one cancelled+unsafe update and eviction, the block is otherwise processed normally"),
    ("C07", "flags exclusive, unsafe sticky, safe only when vouched / no conflict / delay elapsed, once; safe reported by the delay check when due"),
    ("C11", "after a clean restart at any point: no second delivery as new, confirmation is an update with proof, no second safe, GetTx returns the stored copy"),
]:
    CHECKS[_pid] = dict(
        text="Machine-checked proof (Coq) over the node-level transaction pipeline model: for every valid history the "
             "executable property monitor never objects to the model's notification trace (" + _what + "). The same monitor "
             "runs on the real node's traces in the correspondence check, which also compares every notification with the "
             "model step by step (real handlers, real ProcessBlock, real checkTxDelays goroutine, restart on the same storage). "
             "Histories include reorganisations through the real headers handler (orphaned transactions announced again, "
             "confirmed again on the new branch), tx delivery through extended messages, and restarts that reload the mempool; "
             "four goroutine interleavings the code must exclude by its locks are replayed on the real node with pause points "
             "(store, handler callback, output fetcher, block announcement).",
        note=_TXFLOW_NOTE,
        technique="Coq invariant proof over an executable model + model/implementation correspondence + trace monitor",
        ref="5/C03-C06-C07-C11")

CHECKS["C02"] = dict(
    text="Machine-checked invariant proof (Coq) over the header/block synchronisation model: for every message "
         "sequence of an arbitrary (hostile) peer over a block tree, with process steps placed anywhere, the stored "
         "chain starts at genesis, is parent-linked and duplicate free, blocks are only added on top of the tip and "
         "announced at tip+1, reverts never go below genesis (props/C02.v; the executable monitor never objects to the "
         "model's trace). Correspondence check drives the real handler map and real ProcessBlock on generated trees "
         "and compares every digest (computed from the real BlockRepository queries) and announcement.",
    note="Trusted: Coq kernel; hand-written model Sync.v/Requests.v validated by correspondence; block repository through "
         "its abstract interface (C09); ids of a block tree stand for collision-free hashes; handler calls atomic.",
    technique="Coq invariant proof + model/implementation correspondence + trace monitor",
    ref="5/C02")

CHECKS["C10"] = dict(
    text="Machine-checked proof (Coq) at block-repository level: the storage mutations of every operation are made "
         "explicit and every crash image (after any single mutation of any operation of any valid history, any file "
         "size, both back ends) loads and represents a non-empty prefix of the chain held before or after the operation. "
         "At node level the check enumerates EVERY prefix of the real mutation log of generated sync/reorg/shutdown "
         "histories (recording storage wrapper), loads a fresh real Node on each image and checks linkage and "
         "single-branch prefix; plus every single-operation fault per history (restart must load a linked prefix).",
    note="Trusted: Coq kernel; BlockRepo model tied to the code by the C09 correspondence suite (re-run here); per-key "
         "atomic writes (torn files are a back-end matter); convergence after restart is C01.",
    technique="Coq proof over explicit storage mutations + exhaustive crash-prefix / single-fault enumeration on the implementation",
    ref="5/C10")
CHECKS["C12"] = dict(
    text="Machine-checked proofs (Coq): non-interference - the trusted steps of any history interleaved with arbitrary "
         "untrusted block/headers/tx/inv messages observe exactly what they observe without them (two-run theorem over "
         "the sync model); an untrusted connection is verified only by linked headers whose first is known within the "
         "window; unverified tx/inv are dropped; no vouching (safe needs the trusted mark: monitor codes 122 / 126 of the "
         "transaction pipeline theorem, also across reorganisations: C12_no_vouching_reorg). Correspondence through the real "
         "untrusted handler map sharing the real trusted state (systematic header-proof shapes), the pipeline suite with "
         "untrusted re-sends after reorgs, the two-run comparison executed on the implementation, and a lock-order replay "
         "(an untrusted double spend arriving while a block is inside ProcessBlock must not stall the node), the vouching "
         "scenarios on real UntrustedNode objects (only the trusted connection sets the mempool's trusted mark), and an "
         "untrusted peer that has stopped reading its socket while its tracker check transmits (the trusted peer's next "
         "block must still be processed).",
    note="Trusted: Coq kernel; models Sync.v / TxFlow.v validated by correspondence; untrusted traffic only enters through "
         "NewUntrustedMessageHandlers.",
    technique="Coq two-run (non-interference) proof + model/implementation correspondence + two-run diff on the implementation",
    ref="5/C12")

CHECKS["C14"] = dict(
    text="Machine-checked invariant proof (Coq) over the model of the inv handlers, per-connection trackers and tracker "
         "checks sharing one mempool: on every interleaving of atomic steps of any number of connections the monitor "
         "never objects (no getdata while the body is held, no second getdata within the 3 s window to any peer, an "
         "announced unheld tx without active request is requested, a tracking connection re-requests at its next check "
         "after the window expired, confirmed txs are forgotten by every tracker). Correspondence runs a real Node and "
         "real UntrustedNode objects (real handleMessage / check / CleanupBlock) on the same interleavings; the set-up of "
         "untrusted connections (monitorUntrustedNodes: dial, list, drop) is modelled in Shutdown.v and run on the real "
         "Run loop against scripted loopback peers (slow dial across a monitor pass): every connected peer is listed and "
         "none is asked for a tx a processed block confirmed (codes 913 / 914).",
    note="Trusted: Coq kernel; models Tracker.v/MemPool.v validated by correspondence; steps atomic under the mempool / "
         "tracker mutexes; 'next activity' is a runtime liveness; bodies have >= 1 input.",
    technique="Coq invariant proof + model/implementation correspondence + trace monitor",
    ref="5/C14")

CHECKS["C15"] = dict(
    text="Machine-checked meta-theorems (Coq) for a deeply embedded codec format language - round trip with exact "
         "consumption, every strict prefix is an error (never a value, never a panic), concatenated messages decode to "
         "the same sequence - proved once by induction on formats and instantiated by reflection (vm_compute) on the "
         "writer/reader format of every Serialize/Deserialize pair, which the translator re-reads from "
         "pkg/client/messages.go on every run (37 payloads, Message framing, TxState, MerkleProof, fee quotes, the "
         "stored client.Tx record); type code / payload / name tables proved one-to-one. Correspondence run: real "
         "Serialize/Deserialize on generated values, all strict prefixes, mutations and concatenations, compared with "
         "the model inside Coq (bytes, outcome class, bytes consumed, decoded value).",
    note="Trusted: Coq kernel, the translator for the recognised Go patterns (unrecognised statements fail closed; "
         "cross-checked by the correspondence run), hand-written formats of wire.MsgTx/TxOut/OutPoint, opaque "
         "dependency codecs (public key, signature, merkle_proof, BSOR) as oracles whose assumed prefix behaviour is an "
         "explicit premise and is measured on the real code.",
    technique="Coq reflection proof over translated codec terms + model/implementation correspondence",
    ref="5/C15")

CHECKS["C20"] = dict(
    text="Machine-checked meta-theorem (Coq): a reader format that is `bounded` (no allocation from an unchecked "
         "count, nothing untranslated) never panics and allocates at most A*|input|+B on ALL byte strings; the "
         "obligation `Forall bounded` over every reader format regenerated from pkg/client/messages.go is discharged by "
         "vm_compute, and for every reader that is not bounded a hostile input shorter than 100 bytes is computed from "
         "the format and proved to panic / reserve >= 2^32 bytes in the model. The same inputs, valid encodings with "
         "every count/length field overwritten by 2^63, 2^32, 2^64-1, 0xfffffffe, random bytes behind every type "
         "code and hostile stored records are decoded by the real code in a memory-limited child process; a panic, "
         "kill or disproportionate allocation is reported once per decoder site.",
    note="Trusted: Coq kernel, translator (allocation annotations), allocation model (makeslice limit 2^48, per-make "
         "accounting), dependency decoders as oracles assumed not to panic (tested by the hostile run, contradictions "
         "reported under dep:* keys), wire.MsgTx idealised in the final obligation (its real decoder is proved "
         "unbounded). Stored-record parsers of internal/storage are covered by the hostile run only, not translated.",
    technique="Coq reflection proof over translated codec terms + hostile-input run in a memory-limited child",
    ref="5/C20")

_CLIENT_NOTE = ("Trusted: Coq kernel; hand-written model Client.v validated by correspondence on a real RemoteClient driven "
                "in-package (overlay pkg/client/verif_export.go: real handleMessage, processHandler, runRequests goroutine, "
                "public calls, Ready, generateSession); hashes are ids; the server is the harness; TCP, timer accuracy and the "
                "real server are outside the model.")
CHECKS["C16"] = dict(
    text="Machine-checked proofs (Coq): the routing code serves exactly the first outstanding request that a server "
         "message answers, where `answers` is the protocol's meaning written independently of the code; with distinct "
         "keys that request is unique (never another call's); a call returns what the answering message means "
         "(value / reject code); a time-out deregisters only its own request; GetOutputs returns per outpoint and in "
         "order that outpoint's value or an error (loop with fill-ahead proved equal to the direct specification); "
         "the executable monitor never objects to the model's trace on any history; and the router is the code's: "
         "handleRequestResponse is translated from the Go source on every run (translator/router.go -> gen/RouterGen.v) "
         "and proved to compute the model's routing function for every message and pending list (props/C16.v, 7 theorems). "
         "Correspondence: real runRequests goroutine, real handleMessage and real public calls (all ten kinds, with a "
         "snapshot of the registered requests at the moment each call's message is written) on generated interleavings, "
         "a systematic sweep of the router table, the registration/response select race, and loopback TCP scenarios.",
    note=_CLIENT_NOTE,
    technique="Coq refinement proof (routing = protocol meaning) + model/implementation correspondence + trace monitor",
    ref="5/C16")
CHECKS["C17"] = dict(
    text="Machine-checked proofs (Coq) over the model of handleMessage / addHandlerMessage / processHandler / Ready: on "
         "every history (any server stream, any handler-queue capacity incl. a queue that stays full, reconnects, ready "
         "declarations) the monitor never objects (only the expected id is queued, reported next id = last queued + 1, "
         "handlers receive the queue in order, nothing is lost while there is room); a message with another id changes "
         "nothing; if the application always declares ready with the reported next id, the ids delivered so far "
         "followed by the queued ones are exactly 1..next-1 (props/C17.v). Correspondence: the real functions on "
         "generated streams with small queue capacities and reconnects.",
    note=_CLIENT_NOTE,
    technique="Coq invariant proof over an executable model + model/implementation correspondence + trace monitor",
    ref="5/C17")
CHECKS["C18"] = dict(
    text="Machine-checked proofs (Coq): the connection becomes accepted iff the accept message is genuine (session key "
         "derived from the configured server key and this connection's hash, signature by that key over key, counts and "
         "that hash - symbolic cryptography); forged accepts change nothing and fail the connection; before acceptance "
         "no server message reaches handlers, pending requests or the message id; and for the send machine (sendMessage, "
         "sendMessages, runConnection teardown, carried message) as a transition system: in every reachable state of "
         "every interleaving every non-handshake message was written to a connection whose handshake had completed at "
         "that moment, and only written requests are acknowledged; acceptance is per connection (model SendAuth: the "
         "accepted flag across connections with the handler goroutine handling accepts at any moment, also after the "
         "connection they came on was torn down): accepted / data delivered only if an accept for the then-current "
         "session was handled since the current connection started (props/C18.v, 10 theorems). Correspondence: real "
         "handleMessage with really forged AcceptRegister messages (7 kinds, real keys), and real runConnection / "
         "sendMessages / sendMessage / Ready / handleMessage over an in-memory connection with slow close, with accepts "
         "made for the current, an earlier or no session. Source obligation: the call sites of the ungated write path "
         "sendDirect, re-read from remote_client.go on every run (translator/sends.go -> gen/SendSites.v), are the two "
         "the send machine model has; when that breaks (and in the thorough tier) the real keep-alive goroutine runs for "
         "two minutes against a connection whose handshake is not complete.",
    note=_CLIENT_NOTE + " ECDSA unforgeability and key derivation are idealised; the send-machine scenarios are "
         "deterministic schedules with a 25 ms settle time, the theorems cover all interleavings.",
    technique="Coq invariant proofs (symbolic crypto; transition system of the send path) + model/implementation correspondence + trace monitors",
    ref="5/C18")
CHECKS["C04"] = dict(
    text="Machine-checked proofs (Coq) over a symbolic-hash model of the streaming merkle tree with proof registration "
         "and pruning as ProcessBlock uses it, of convertMerkleProof and of the client-side verifier: for every block "
         "size and every set / position of registered transactions (pairwise distinct txids) the streaming root equals "
         "the textbook root, every returned proof carries the transaction's true index and is accepted by the verifier "
         "against that root, proofs come back in registration order (alignment), and a body whose root differs from "
         "the header's is rejected with chain and notifications untouched; over histories with aborts, restarts, "
         "reorganisations and re-announcements every confirmation is rebuilt from the current block (C04_history_sound); "
         "at node level the pipeline theorem's code 153 (this block's proof, depth 0) never fires (props/C04.v, 11 theorems). "
         "Correspondence: real Node.ProcessBlock on blocks of 1..33 transactions with chosen relevant positions, previously "
         "seen or not, corrupted bodies, abort / restart / reorg histories; proofs compared structurally and run through "
         "the real client verifier; plus the node-level pipeline suite (conflicts, unsafe states).",
    note="Trusted: Coq kernel; SHA-256d idealised as a free constructor (injective, never a leaf); the dependency's "
         "wire.MerkleTree is modelled and validated by correspondence, not verified; hand-written model validated by "
         "correspondence on a real Node.",
    technique="Coq proof over a symbolic merkle model + model/implementation correspondence + trace monitor",
    ref="5/C04")

CHECKS["C01"] = dict(
    text="Machine-checked proofs (Coq) over the combined world node (Sync.v, every node step is literally Sync.step) + "
         "Bitcoin-node-like peer + message channel (Peer.v), with deliveries, duplications, answers, block processing, "
         "checks, clock, time-outs, disconnects, restarts and peer best-chain changes as atomic actions. SAFETY over ALL "
         "action lists (any order, delay, duplication): HandleInSync is emitted only when the node is ready and no "
         "announced block is outstanding, and at most once per process; the reachability invariant (C02's chain "
         "invariant + well-formed in-flight headers). LIVENESS (partial, stated as such): for every world satisfying "
         "the executable predicates 'freshly (re)connected and behind / forked within the reply size / start block not "
         "found yet' the canonical settling run reaches a quiescent world whose chain from the start block equals the "
         "peer's best chain, with reply size, window and time-outs symbolic; the fully quantified statement is REFUTED "
         "for out-of-order delivery by a proved witness (recorded finding). Worlds with messages in flight across a "
         "peer event are covered by the correspondence / monitor exploration only (monitor codes 102/106 on in-order "
         "histories - in order judged from the queue lengths, position k mod length: none in 3238 thorough histories "
         "after fix fd6e285). Correspondence: real handler map, ProcessBlock, check, CheckTimeouts, Reset, new Node "
         "against a Go transcription of Peer.v reacting to the node's real outgoing messages; every scenario ends with a settle.",
    note="Trusted: Coq kernel; hand-written Peer.v validated against its Go transcription and the real node by "
         "correspondence; Sync.v as for C02; real TCP, timers and goroutine fairness are not in the model (time-outs are "
         "model events). Known findings (reorder / duplicate only, impossible on one TCP connection), keyed by the "
         "disorder their history needs: converge:c01:107:settle:inv-before-headers-known, ...:dup-headers-new, "
         "converge:c01:108:check:<the corpus history's steps>; a stall that needs another disorder is reported.",
    technique="Coq invariant proof (safety, all interleavings) + partial convergence proof by a settling run + refutation witness + model/implementation correspondence + trace monitor",
    ref="5/C01 and 11")

CHECKS["C19"] = dict(
    text="Machine-checked proofs (Coq) over a transition system of Node.Run's phased shutdown (flags, connection, bounded "
         "channels whose Add holds the channel mutex while sending, goroutines that register their counter only with "
         "their first step, consumer that keeps draining after a processing error, save phase, restart loop, Stop call) "
         "where a run is ANY list of atomic actions (all interleavings of run loop, goroutines, Stop, trusted and "
         "untrusted peers, any channel capacity): stopped => Run returned, no goroutine alive, no handler invocation "
         "while stopped; the save step runs only after every goroutine ended and stored = in-memory from then on; after "
         "a stop request some step is always enabled until stopped, a rank bounds the remaining work and a schedule of "
         "at most rank steps reaches stopped (termination under the stated fairness hypothesis 'prompt counter "
         "registration', D27); reconnect keeps the chain and (by C02's theorem) never re-announces a processed height; "
         "the old consumer (break on error) is REFUTED by a proved witness (D26, repaired in 99e17c5). Correspondence: "
         "the real Node.Run against a scripted loopback wire peer: stop while connecting / handshaking / header sync / "
         "mid block / in sync with traffic / after close, reset, silence / during reconnect / consumer abort with a full "
         "channel; observations: Stop returned within the bound, no callback afterwards, stored = told, announced "
         "heights contiguous without repeats. The untrusted-peer monitor is a second transition system (lock, list, scan "
         "window, dialling / active / done nodes) with its own termination, lock-free-at-stop and listed-while-running "
         "theorems and two refutation witnesses; the real monitor runs against scripted untrusted loopback peers (stop "
         "inside the scan window, slow dial, drop and replace).",
    note="Trusted: Coq kernel; hand-written Shutdown.v validated by correspondence on real Node.Run (scenario schedules); "
         "Go scheduler, TCP and timers are not in the model; a Stop during a hanging untrusted dial returns only after the "
         "15 s dial time-out (bounded; scenarios do not call Stop inside an unreleased dial); D27 (a goroutine unscheduled for > 100 ms escapes the count) "
         "is a fairness hypothesis, not replayable without a scheduler hook.",
    technique="Coq invariant + ranking proofs over a concurrent transition system (all interleavings) + refutation witness for the pre-fix code + scenario correspondence on the real Run loop + trace monitor",
    ref="5/C19 and 11")

NOT_APPLICABLE = {
    "C01": "not yet claimed in this revision: the liveness model (peer + time-outs) is in progress; the safety half is covered by C02/C12 theorems",
    "C19": "not yet claimed in this revision: shutdown protocol model in progress",
}
for _k in list(NOT_APPLICABLE):
    if _k in CHECKS:
        del NOT_APPLICABLE[_k]
if not os.path.exists(os.path.join(VERIF, "gen", "c04.py")) or not os.path.exists(os.path.join(VERIF, "coq", "props", "C04.v")):
    CHECKS.pop("C04", None)
    NOT_APPLICABLE["C04"] = "check under construction in this revision"


def main():
    checks = []
    for pid in sorted(CHECKS):
        c = CHECKS[pid]
        checks.append({
            "property_id": pid,
            "quick_cmd": "bin/check %s --tier quick" % pid,
            "thorough_cmd": "bin/check %s --tier thorough" % pid,
            "evidence_file": "/verif/evidence/%s.json" % pid,
            "replay_cmd_template": "bin/check %s --replay {path}" % pid,
            "engine": "coq-proof+correspondence",
            "level_claimed": {"category": "proof", "text": c["text"], "design_ref": "DESIGN.md section " + c["ref"]},
            "level_note": c["note"],
            "technique": c["technique"],
        })
    m = {
        "version": 1,
        "setup_cmd": "bin/setup",
        "hooks": {
            "guard": "verif",
            "enable": "go build -tags verif -overlay work/overlay.json (add-only files under /verif/harness/overlay are "
                      "overlaid onto non-existent paths of /repo at build time; /repo itself carries no hook code)",
            "baseline_off_cmd": BASELINE_OFF,
            "source_commits": [],  # the harness lives in the overlay; /repo carries no hook code
            "add_only": True,
        },
        "engines": [
            {"name": "coq-proof+correspondence", "path": "coq/ gen/ harness/ translator/ bin/check",
             "serves_properties": sorted(CHECKS),
             "kind_free_text": "Coq 8.16.1 theorems over executable Gallina models; Go translator regenerates coq/gen "
                               "from /repo; Go harness (overlay build, -tags verif) runs the real code on generated "
                               "histories; model evaluated by vm_compute on the same histories and diffed"},
        ],
        "checks": checks,
        "not_applicable": [{"property_id": k, "reason": v} for k, v in sorted(NOT_APPLICABLE.items())],
        "notes": "fix: commits in /repo are unguarded defect repairs (see known_findings.txt and DESIGN.md section 6).",
    }
    json.dump(m, open(os.path.join(VERIF, "MANIFEST.json"), "w"), indent=1)


if __name__ == "__main__":
    main()
