"""Scripted interleaving for C02 (regression of /repo fix e0141dc): a reorg header handled while the next
block is inside ProcessBlock between its parent check and blocks.Add (held in IsMerkleRootValid, which
the real ProcessBlock calls between the two).  Real headers handler + real ProcessBlock through harness
component converge (ops process_mid_hold / inject_headers / process_mid_release); judged on the
implementation's own digest: after the release the stored chain is hash-linked and height<->hash inverse
(monitor code 215).  Monitor-only: the Sync model's `process` step is atomic."""
import os
import vlib


def scenario(n, d):
    main = list(range(0, n + 1))
    parents = [[i, i - 1] for i in range(1, n + 2)] + [[n + 2, n - d]]
    cfg = {"parents": parents, "start": 0, "m": 2000}
    ops = [["deliver", 0], ["check"], ["answer", 0], ["deliver", 0], ["check"],
           ["peer_set_best", main], ["settle", 1500],
           ["peer_set_best", main + [n + 1]], ["answer", 0], ["deliver", 0], ["answer", 0], ["deliver", 0],
           ["process_mid_hold"], ["inject_headers", [n + 2]], ["process_mid_release"]]
    return {"cfg": cfg, "ops": ops}


def variants(tier):
    vs = [(2, 1), (3, 1), (3, 2), (2, 0), (5, 3)]
    if tier == "thorough":
        vs += [(n, d) for n in (4, 6, 8) for d in range(0, n)]
    return vs


def run(tier, workdir):
    """-> dict for checklib's `extra`: failures / red / coverage / evaluations"""
    vs = variants(tier)
    cases = [scenario(n, d) for n, d in vs]
    res, _ = vlib.run_harness("converge", cases, os.path.join(workdir, "parentrace"), tag="parentrace", timeout=300)
    failures, reached, lines = [], 0, []
    for (n, d), case, obs in zip(vs, cases, res):
        # frame: code, ready, pending, start, lasthash, requested, to_request, linked, inverse, n, ids..., payload
        hold, last = obs[-3], obs[-1]
        cnt = last[9]
        chain = last[10:10 + cnt]
        lines.append("n=%d d=%d hold=%s waited=%s chain=%s linked=%d inverse=%d" % (n, d, hold[-1], obs[-2][-1], chain, last[7], last[8]))
        if len(obs) == len(case["ops"]) and hold[-1] == 1:
            reached += 1
        bad = [i for i, o in enumerate(obs) if o[0] != 0 or o[7] != 1 or o[8] != 1]
        if bad:
            failures.append({"suite": "parentrace", "checker": "midrace", "cfg": case["cfg"], "ops": case["ops"],
                             "step": bad[0], "expected": [215], "observed": obs[bad[0]],
                             "detail": "stored chain %s not hash-linked / inverse after a reorg header handled "
                                       "inside ProcessBlock (after its parent check)" % chain})
    red = []
    if reached == 0:
        red.append({"what": "correspondence", "suite": "parentrace",
                    "detail": "no scenario reaches the window between ProcessBlock's parent check and its add any more"})
    return {"failures": failures, "red": red, "evaluations": len(cases),
            "coverage": {"parentrace": {"scenarios": len(cases), "reached_window": reached, "runs": lines}}}
