"""Shared generator / suite for header+block synchronisation (C02, C12 chain part, C01 support)."""
import json
import os
import sys

sys.path.insert(0, os.path.dirname(os.path.abspath(__file__)))
import vlib
from checklib import Suite


def cb(b):
    return "true" if b else "false"


def hl(hs):
    return "[" + "; ".join("(%s, %s)" % (vlib.z(a), vlib.z(b)) for a, b in hs) + "]"


def coq_op(o):
    n = o[0]
    if n == "version":
        return "OVersion"
    if n == "headers":
        return "(OHeaders %s)" % hl(o[1])
    if n == "block":
        return "(OBlockMsg %s %s)" % (vlib.z(o[1]), cb(o[2]))
    if n == "process":
        return "OProcess"
    if n == "check":
        return "OCheck"
    if n == "advance":
        return "(OAdvance %s)" % vlib.z(o[1])
    if n == "timeouts":
        return "OTimeouts"
    if n == "reconnect":
        return "OReconnect"
    if n == "restartnode":
        return "ORestartNode"
    if n == "ublock":
        return "(OUBlockMsg %s %s)" % (vlib.z(o[1]), cb(o[2]))
    if n == "uheaders":
        return "(OUHeaders %s)" % hl(o[1])
    if n == "utx":
        return "(OUTx %s)" % vlib.z(o[1])
    if n == "uinv":
        return "(OUInv %s)" % vlib.z(o[1])
    raise KeyError(n)


class Tree:
    """Block tree: id -> parent; branches; 0 is genesis."""

    def __init__(self, rng, nblocks, nbranches):
        self.parent = {}
        self.children = {0: []}
        main = []
        prev = 0
        nid = 1
        for _ in range(nblocks):
            self.parent[nid] = prev
            self.children.setdefault(prev, []).append(nid)
            self.children[nid] = []
            main.append(nid)
            prev = nid
            nid += 1
        self.main = main
        self.branches = [main]
        for _ in range(nbranches):
            base = rng.choice([0] + main[:-1]) if main else 0
            br = []
            prev = base
            for _i in range(rng.range(1, 4)):
                self.parent[nid] = prev
                self.children.setdefault(prev, []).append(nid)
                self.children[nid] = []
                br.append(nid)
                prev = nid
                nid += 1
            self.branches.append(br)
        self.next_unknown = nid + 100

    def path_to(self, b):
        p = []
        while b != 0 and b in self.parent:
            p.append(b)
            b = self.parent[b]
        return list(reversed(p))

    def pairs(self, ids):
        return [[i, self.parent.get(i, -50)] for i in ids]


def gen_case(rng, nops, untrusted=False):
    t = Tree(rng, rng.range(3, 12), rng.range(0, 3))
    start = rng.choice([0, 0, 0, 1, 2, rng.range(0, len(t.main))]) if t.main else 0
    if start > 0:
        start = t.main[min(start, len(t.main)) - 1]
    ops = [["version"], ["check"]] if rng.chance(4, 5) else []
    announced = []
    utx_id = [0]
    nadv = 0
    nprocall = 0
    for _ in range(nops):
        k = rng.weighted([("headers", 26), ("block", 24), ("process", 22), ("check", 8), ("empty", 3), ("unknown", 3),
                          ("advance", 4), ("timeouts", 3), ("reconnect", 2), ("restartnode", 2), ("version", 1),
                          ("untrusted", 10 if untrusted else 0)])
        if k == "headers":
            br = rng.choice(t.branches)
            path = t.path_to(br[-1])
            i = rng.below(len(path))
            j = rng.range(i, min(len(path) - 1, i + rng.choice([0, 1, 2, 5, 12])))
            seg = path[i:j + 1]
            if rng.chance(1, 8) and len(seg) > 1:
                seg = rng.shuffle(seg)            # out of order
            if rng.chance(1, 8):
                seg = seg + seg[:1]               # duplicated header
            if rng.chance(1, 6):                  # another branch continues in the same message
                br2 = rng.choice(t.branches)
                p2 = t.path_to(br2[-1])
                k = rng.below(len(p2))
                seg = seg + p2[k:k + rng.range(1, 3)]
            ops.append(["headers", t.pairs(seg)])
            announced += seg
        elif k == "empty":
            ops.append(["headers", []])
        elif k == "unknown":
            u = t.next_unknown
            t.next_unknown += 2
            hs = [[u, u + 1]]
            if rng.chance(1, 2) and t.main:
                hs = t.pairs(t.main[:2]) + hs
            ops.append(["headers", hs])
        elif k == "block":
            pool = announced[-12:] if announced and rng.chance(5, 6) else list(t.parent)
            if not pool:
                continue
            ops.append(["block", rng.choice(pool), int(rng.chance(9, 10))])
        elif k == "process":
            ops.append(["process"])
        elif k == "check":
            ops.append(["check"])
        elif k == "advance":
            if nadv < 9:
                nadv += 1
                ops.append(["advance", rng.choice([11, 41, 111, 651])])
        elif k == "timeouts":
            ops.append(["timeouts"])
        elif k == "reconnect":
            ops.append(["reconnect"])
            if rng.chance(2, 3):
                ops += [["version"], ["check"]]
        elif k == "restartnode":
            ops.append(["restartnode"])
            if rng.chance(2, 3):
                ops += [["version"], ["check"]]
        elif k == "version":
            ops.append(["version"])
        else:
            c = rng.below(4)
            if c == 0:
                utx_id[0] += 1
                ops.append([rng.choice(["utx", "uinv"]), utx_id[0]])
            elif c == 1 and (announced or t.parent):
                ops.append(["ublock", rng.choice(announced[-10:] or list(t.parent)), int(rng.chance(1, 2))])
            else:
                br = rng.choice(t.branches)
                path = t.path_to(br[-1])
                i = rng.below(len(path))
                seg = path[i:i + rng.range(1, 4)]
                if rng.chance(1, 5):
                    seg = list(reversed(seg))
                if rng.chance(1, 6):
                    seg = []
                if rng.chance(1, 4) and len(path) >= 2:
                    # a header the node may well hold (near the end of a branch), followed by headers that do not
                    # descend from it: another branch, an earlier part of the same branch, or the header itself again
                    first = path[max(0, len(path) - 1 - rng.below(3))]
                    other = t.path_to(rng.choice(t.branches)[-1])
                    j = rng.below(len(other))
                    tail = [x for x in other[j:j + rng.range(1, 3)] if t.parent.get(x) != first] or [first]
                    seg = [first] + tail
                ops.append(["uheaders", t.pairs(seg)])
    ops += [["process"], ["check"]]
    parents = [[i, p] for i, p in sorted(t.parent.items())]
    return {"cfg": {"parents": parents, "start": start}, "ops": ops}


def scripted_cases(long=True):
    """Well-behaved sync scenarios (also used as liveness support for C01)."""
    res = []
    # linear initial sync of 14 blocks, window of 10, then in sync, then a 2-deep reorg
    par = [[i, i - 1] for i in range(1, 15)] + [[20, 12], [21, 20], [22, 21]]
    ops = [["version"], ["check"], ["headers", [[i, i - 1] for i in range(1, 15)]]]
    for i in range(1, 15):
        ops += [["block", i, 1], ["process"]]
    ops += [["check"], ["headers", []], ["check"], ["headers", [[20, 12], [21, 20], [22, 21]]], ["check"]]
    for i in (20, 21, 22):
        ops += [["block", i, 1], ["process"]]
    ops += [["check"], ["headers", []], ["check"]]
    res.append({"cfg": {"parents": par, "start": 0}, "ops": ops})
    # start block in the middle, blocks out of order, duplicates, fork among pending blocks
    par = [[i, i - 1] for i in range(1, 9)] + [[30, 5], [31, 30]]
    ops = [["version"], ["check"], ["headers", [[i, i - 1] for i in range(1, 9)]], ["block", 6, 1], ["block", 4, 1],
           ["block", 5, 1], ["block", 5, 1], ["process"], ["process"], ["headers", [[30, 5], [31, 30]]], ["process"],
           ["block", 30, 1], ["block", 31, 1], ["process"], ["process"], ["process"], ["headers", []], ["check"]]
    res.append({"cfg": {"parents": par, "start": 4}, "ops": ops})
    # before the start block is found (headers are stored without blocks): a message that forks below the tip and
    # then continues the OLD tip / mixes branches in one message
    par = [[i, i - 1] for i in range(1, 9)] + [[20, 3], [21, 20], [22, 21]]
    for start in (40, 7, 22):
        for second in ([[20, 3], [6, 5]], [[20, 3], [21, 20], [6, 5], [7, 6]], [[6, 5], [20, 3], [7, 6]], [[20, 3], [4, 3], [5, 4]]):
            ops = [["version"], ["check"], ["headers", [[i, i - 1] for i in range(1, 6)]], ["headers", second], ["check"],
                   ["headers", [[21, 20], [22, 21]]], ["headers", [[6, 5], [7, 6], [8, 7]]], ["process"], ["check"], ["restartnode"],
                   ["version"], ["check"]]
            res.append({"cfg": {"parents": par, "start": start}, "ops": ops})
    # the node is PAST its start block (height s), then a reorganisation with fork point f at / below / well below
    # the start block (f in {s-1, s-2, s-3, 1}), also after a restart: the headers handler must only revert, every
    # block of the new branch from f+1 on is requested, processed and announced (monitor code 222); finally the
    # orphaned start block is forgotten by a restart and the new branch is extended (bare headers again)
    for st in (3, 4, 6):
        n = st + 3
        for f in sorted(set(x for x in (st - 1, st - 2, st - 3, 1) if 0 <= x < st)):
            for restart in (False, True):
                flen = n - f + 2
                forkids = list(range(100, 100 + flen + 2))
                par = [[i, i - 1] for i in range(1, n + 1)] + [[forkids[0], f]] + \
                      [[forkids[i], forkids[i - 1]] for i in range(1, len(forkids))]
                pmap = {a: b for a, b in par}
                ops = [["version"], ["check"], ["headers", [[i, i - 1] for i in range(1, n + 1)]]]
                for i in range(st, n + 1):
                    ops += [["block", i, 1], ["process"]]
                ops += [["check"], ["headers", []], ["check"]]
                if restart:
                    ops += [["restartnode"], ["version"], ["check"]]
                ops += [["headers", [[i, pmap[i]] for i in forkids[:flen]]], ["check"]]
                for i in forkids[:flen]:
                    ops += [["block", i, 1], ["process"]]
                ops += [["check"], ["headers", []], ["check"], ["restartnode"], ["version"], ["check"],
                        ["headers", [[i, pmap[i]] for i in forkids[flen:]]], ["process"], ["check"], ["headers", []], ["check"]]
                res.append({"cfg": {"parents": par, "start": st}, "ops": ops})
    if long:
        res += long_cases()
    return res


def long_cases():
    """Chains crossing the 1000-header file boundary of the block store: headers before the start block are
    stored without their blocks, so one headers message builds the long prefix; then a reorganisation whose fork
    point is below the boundary while the tip is above it, and a switch back to the first branch."""
    res = []
    for start, fork, tipn, flen, back in ((995, 997, 1004, 9, True), (1001, 998, 1003, 7, True), (990, 999, 1002, 4, False)):
        main = list(range(1, tipn + 1))
        par = [[i, i - 1] for i in main]
        f0 = 2000
        forkids = list(range(f0, f0 + flen))
        par += [[forkids[0], fork]] + [[forkids[i], forkids[i - 1]] for i in range(1, flen)]
        ext = list(range(tipn + 1, tipn + 4 + flen))
        par += [[i, i - 1] for i in ext]
        pmap = {a: b for a, b in par}
        ops = [["version"], ["check"], ["headers", [[i, i - 1] for i in main]]]
        for i in range(start, tipn + 1):
            ops += [["block", i, 1], ["process"]]
        ops += [["check"], ["headers", []], ["check"]]
        ops += [["headers", [[i, pmap[i]] for i in forkids]], ["check"]]
        for i in forkids:
            ops += [["block", i, 1], ["process"]]
        ops += [["check"], ["headers", []], ["check"]]
        if back:
            seg = list(range(fork + 1, tipn + 1)) + ext
            ops += [["headers", [[i, pmap[i]] for i in seg]], ["check"]]
            for i in seg:
                ops += [["block", i, 1], ["process"]]
            ops += [["check"], ["headers", []], ["check"], ["restartnode"], ["version"], ["check"]]
        res.append({"cfg": {"parents": par, "start": start}, "ops": ops})
    # a block that is not the next one reaches the block processing step exactly when the tip is the last header of a
    # block file (height 999 mod 1000, the cached newest file is rolled over by the next add): a block with a wrong
    # body is refused, then its child is delivered; and the same one block earlier / later
    for tip in (999, 998, 1000):
        last = tip + 3
        par = [[i, i - 1] for i in range(1, last + 1)]
        start = tip - 4
        ops = [["version"], ["check"], ["headers", [[i, i - 1] for i in range(1, last + 1)]]]
        for i in range(start, tip + 1):
            ops += [["block", i, 1], ["process"]]
        ops += [["block", tip + 1, 0], ["process"], ["block", tip + 2, 1], ["process"], ["block", tip + 3, 1], ["process"],
                ["check"], ["headers", []], ["check"]]
        res.append({"cfg": {"parents": par, "start": start}, "ops": ops})
    return res


def untrusted_proof_cases():
    """The untrusted peer's header proof, systematically: the node holds 0..8 (and a side branch header it has only seen
    offered); one headers message per case - whose first header is known / recent or not and whose later headers
    descend from it or not - followed by an inventory and a tx from that peer (listened to only if verified)."""
    par = [[i, i - 1] for i in range(1, 9)] + [[30, 5], [31, 30], [40, 8], [41, 40]]
    pm = {a: b for a, b in par}
    base = [["version"], ["check"], ["headers", [[i, i - 1] for i in range(1, 9)]]]
    for i in range(1, 9):
        base += [["block", i, 1], ["process"]]
    base += [["check"], ["headers", []], ["check"]]
    msgs = [[8], [7, 8], [8, 40], [8, 40, 41], [8, 31], [8, 3], [8, 8], [8, 30, 31], [7, 8, 31], [7, 30], [6, 7, 8], [8, 7],
            [8, 41], [5, 30, 31], [2, 3], [40, 41], [8, 40, 31], [7, 6], []]
    res = []
    for m in msgs:
        ops = base + [["uheaders", [[i, pm.get(i, -50)] for i in m]], ["uinv", 1], ["utx", 2], ["check"]]
        res.append({"cfg": {"parents": par, "start": 0}, "ops": ops, "origin": "scripted-untrusted-proof"})
    return res


def make_cases(tier, rng, replay, untrusted=False, corpus="sync"):
    cases = []
    if replay:
        return [{"cfg": replay.get("cfg", {}), "ops": replay["ops"], "origin": "replay"}]
    if untrusted:
        cases += untrusted_proof_cases()
    d = os.path.join(vlib.VERIF, "corpus", corpus)
    if os.path.isdir(d):
        for f in sorted(os.listdir(d)):
            if f.endswith(".json"):
                j = json.load(open(os.path.join(d, f)))
                cases.append({"cfg": j["cfg"], "ops": j["ops"], "origin": "corpus/%s/%s" % (corpus, f)})
    for c in scripted_cases(long=not untrusted):
        c["origin"] = "scripted"
        cases.append(c)
    n = 200 if tier == "quick" else 3000
    for i in range(n):
        r = rng.fork(9000 + i + (500000 if untrusted else 0))
        cases.append(gen_case(r, r.range(8, 40), untrusted))
    return cases


def suite(tier, rng, replay, monitors, untrusted=False, name="sync"):
    cases = make_cases(tier, rng, replay, untrusted)
    groups = []
    # one group per (parents, start) is needed because the model takes them as parameters: put them in the checker
    # expression per case instead: we emit one group per case batch with identical cfg -> simplest: a group per case
    # would be slow; so the parents table is the union over a batch (ids are per-case unique? no) -> use per-case groups
    # but shard many cases into one file by making the table part of each case through a wrapper definition.
    pre = ["From V.model Require Import Requests Sync SyncSpec.", "From V.gen Require Import Consts."]
    for c in cases:
        cfg = c["cfg"]
        par = "[" + "; ".join("(%s, %s)" % (vlib.z(a), vlib.z(b)) for a, b in cfg["parents"]) + "]"
        c["coq_ops"] = [coq_op(o) for o in c["ops"]]
        c["model"] = ("cmp_run (run maxRequestedBlocks maxPendingBlockSize handshakeTimeout headerTimeout blockTimeout "
                      "UntrustedHeaderDelta %s %s)" % (par, vlib.z(cfg["start"])))
    groups.append({"key": "sync", "cases": cases, "per_case_model": True, "monitors": monitors})
    s = Suite(name, "sync", pre, groups)
    return s
