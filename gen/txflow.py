"""Shared generator / suite for the transaction pipeline (C03, C05 node level, C06, C07, C11)."""
import itertools
import json
import os
import sys

sys.path.insert(0, os.path.dirname(os.path.abspath(__file__)))
import vlib
from checklib import Suite

DELAY = 60000   # ms; clock advances are multiples of 25 s so that real elapsed time (< 3 s per case) never matters


def zl(xs):
    return "[" + "; ".join(vlib.z(x) for x in xs) + "]"


def cb(b):
    return "true" if b else "false"


SRC = {0: "STrusted", 1: "SUntrusted", 2: "SLocal"}


class Universe:
    def __init__(self):
        self.txs = {}   # t -> (body, rel)
        self.order = []

    def add(self, t, body, rel):
        self.txs[t] = (list(body), bool(rel))
        self.order.append(t)

    def cfg(self):
        return [[t, self.txs[t][0], int(self.txs[t][1])] for t in self.order]


def coq_op(o, U):
    n = o[0]
    if n == "tx":
        body, rel = U.txs[o[1]]
        return "(OTx %s %s %s %s)" % (vlib.z(o[1]), zl(body), cb(rel), SRC[o[2]])
    if n == "inv":
        return "(OInv %s %s)" % (vlib.z(o[1]), cb(o[2]))
    if n == "block":
        txs = "[" + "; ".join("(%s, %s, %s)" % (vlib.z(t), zl(U.txs[t][0]), cb(U.txs[t][1])) for t in o[3]) + "]"
        return "(OBlock %s %s %s %s)" % (vlib.z(o[1]), vlib.z(o[2]), txs, cb(o[4]))
    if n == "reorg":
        txs = "[" + "; ".join("(%s, %s, %s)" % (vlib.z(t), zl(U.txs[t][0]), cb(U.txs[t][1])) for t in o[3]) + "]"
        return "(OReorg %s %s %s %s)" % (vlib.z(o[1]), vlib.z(o[2]), txs, cb(o[4]))
    if n == "blocktxs":
        return "(OBlockTxs %s)" % vlib.z(o[1])
    if n == "delaycheck":
        return "ODelayCheck"
    if n == "advance":
        return "(OAdvance %s)" % vlib.z(o[1])
    if n == "setinsync":
        return "(OSetInSync %s)" % cb(o[1])
    if n == "restart":
        return "ORestart"
    if n == "gettx":
        return "(OGetTx %s)" % vlib.z(o[1])
    if n == "unconf":
        return "OUnconf"
    raise KeyError(n)


def gen_universe(rng):
    U = Universe()
    ext = [1000, 1001, 1010, 1011, 1020][:rng.range(2, 5)]   # outputs of external (unknown) parents 100,101,102
    ntx = rng.range(3, 7)
    for t in range(1, ntx + 1):
        k = rng.weighted([(1, 6), (2, 4), (3, 1), (0, 1)])
        body = []
        for _ in range(k):
            c = rng.weighted([("ext", 6), ("chain", 3), ("private", 2), ("coinbase", 1), ("oor", 1)])
            if c == "ext":
                body.append(rng.choice(ext))
            elif c == "chain" and t > 1:
                p = rng.range(1, t - 1)
                body.append(p * 10 + rng.below(5 if p % 4 == 3 else 3))   # TxFlow.nouts: txs 3, 7, .. have 5 outputs
            elif c == "private":
                body.append(9000 + t * 10)
            elif c == "coinbase":
                body.append(-1)
            elif c == "oor" and t > 1:
                body.append(rng.range(1, t - 1) * 10 + rng.range(3, 5))
            else:
                body.append(rng.choice(ext))
        # no duplicate outpoint inside one body at node level (invalid tx; covered at component level)
        seen = []
        for o in body:
            if o not in seen:
                seen.append(o)
        U.add(t, seen, rng.chance(3, 4))
    return U


def conflicts(U, a, b):
    return any(o in U.txs[b][0] for o in U.txs[a][0])   # the null (coinbase) outpoint is an outpoint like any other to the mempool


class Tracker:
    """What the generator has to know about the history so far in order to stay inside the hypothesis flow_valid
    (conservatively: it may avoid more than flow_valid excludes, never less)."""

    def __init__(self, U):
        self.U = U
        self.chain = [0]
        self.blocks = {}        # id -> (prev, txids, valid)
        self.conf = {}          # t -> block id of the chain that holds it
        self.orphan = set()     # relevant txs whose confirming block was orphaned, not confirmed again since
        self.seen = set()       # txs that occurred in a tx op or a block
        self.resent = set()     # txs sent again while confirmed in the chain (their block must not be orphaned)
        self.next_block = 1

    def tip(self):
        return self.chain[-1]

    def maybe_unsafe(self, t):
        return any(t2 != t and conflicts(self.U, t, t2) for t2 in self.seen)

    def free(self, chain=None):
        """txs that may go into a block extending `chain`"""
        chain = self.chain if chain is None else chain
        return [t for t in self.U.order if not (t in self.conf and self.conf[t] in chain)]

    def note_tx(self, t, src):
        if t in self.conf:
            self.resent.add(t)
        self.seen.add(t)

    def tx_allowed(self, t, src):
        return True

    def accept(self, b, prev, txids):
        self.chain.append(b)
        for t in txids:
            self.conf[t] = b
            self.orphan.discard(t)
            self.seen.add(t)

    def revert(self, prev):
        i = self.chain.index(prev)
        gone = self.chain[i + 1:]
        self.chain = self.chain[:i + 1]
        for t, bb in list(self.conf.items()):
            if bb in gone:
                del self.conf[t]
                if self.U.txs[t][1]:
                    self.orphan.add(t)

    def can_revert(self, prev):
        i = self.chain.index(prev)
        gone = self.chain[i + 1:]
        return True

    def pick(self, rng, cand, kmax=3):
        chosen = []
        for t in rng.shuffle(list(cand))[:rng.range(0, kmax)]:
            if all(not conflicts(self.U, t, c) for c in chosen):
                chosen.append(t)
        return chosen


def gen_case(rng, nops, reorgs=True):
    U = gen_universe(rng)
    T = Tracker(U)
    ops = []
    ids = list(U.order)
    bad_id = 500
    insync = False
    if rng.chance(5, 6):
        ops.append(["setinsync", 1])
        insync = True
    for _ in range(nops):
        k = rng.weighted([("tx", 34), ("inv", 8), ("block", 14), ("delay", 12), ("advance", 12), ("restart", 4),
                          ("sync", 3), ("gettx", 4), ("unconf", 4), ("badblock", 2)] +
                         ([("reorg", 7), ("blocktxs", 2)] if reorgs else []))
        if k == "tx":
            # after a reorganisation the orphaned txs are announced again more often
            t = rng.choice(sorted(T.orphan)) if T.orphan and rng.chance(1, 2) else rng.choice(ids)
            src = rng.weighted([(0, 5), (1, 5), (2, 2)])
            if not T.tx_allowed(t, src):
                src = rng.choice([0, 1])
            # a peer may wrap the tx in an extended message (extmsg): same meaning, another handler path
            ops.append(["tx", t, src, 1] if src != 2 and rng.chance(1, 5) else ["tx", t, src])
            T.note_tx(t, src)
        elif k == "inv":
            ops.append(["inv", rng.choice(ids), int(rng.chance(2, 3))])
        elif k == "block":
            chosen = T.pick(rng, T.free())
            b = T.next_block
            T.next_block += 1
            ops.append(["block", b, T.tip(), chosen, 1])
            T.blocks[b] = (T.tip(), chosen, 1)
            T.accept(b, T.tip(), chosen)
        elif k == "reorg":
            kind = rng.weighted([("fork", 10), ("extend", 2), ("unknown", 1), ("held", 1), ("tip", 1), ("invalid", 1)])
            below = [p for p in T.chain[:-1] if T.can_revert(p)]
            if kind in ("fork", "invalid") and below:
                prev = rng.choice(below[-3:])
                newchain = T.chain[:T.chain.index(prev) + 1]
                chosen = T.pick(rng, T.free(newchain))
                b = T.next_block
                T.next_block += 1
                valid = 0 if kind == "invalid" else 1
                ops.append(["reorg", b, prev, chosen, valid])
                T.blocks[b] = (prev, chosen, valid)
                T.revert(prev)
                if valid:
                    T.accept(b, prev, chosen)
                insync = False
                if rng.chance(3, 4):
                    ops.append(["setinsync", 1])
                    insync = True
            elif kind == "extend":
                chosen = T.pick(rng, T.free())
                b = T.next_block
                T.next_block += 1
                ops.append(["reorg", b, T.tip(), chosen, 1])
                T.blocks[b] = (T.tip(), chosen, 1)
                T.accept(b, T.tip(), chosen)
            elif kind == "unknown":
                bad_id += 1
                ops.append(["reorg", bad_id, 77, [], 1])
                insync = False
                if rng.chance(3, 4):
                    ops.append(["setinsync", 1])
                    insync = True
            elif kind == "held" and len(T.chain) > 2:
                b = rng.choice(T.chain[1:-1])
                ops.append(["reorg", b, T.blocks[b][0], T.blocks[b][1], T.blocks[b][2]])
            elif kind == "tip" and len(T.chain) > 1:
                b = T.tip()
                ops.append(["reorg", b, T.blocks[b][0], T.blocks[b][1], T.blocks[b][2]])
                insync = True
        elif k == "blocktxs":
            ops.append(["blocktxs", rng.range(1, max(1, len(T.chain)))])
        elif k == "badblock":
            kind = rng.choice(["known", "notnext", "invalid"])
            if kind == "known":
                held = [b for b in T.chain[1:]]
                if held:
                    b = rng.choice(held)
                    ops.append(["block", b, T.blocks[b][0], T.blocks[b][1], T.blocks[b][2]])   # the same block again
                else:
                    continue
            elif kind == "notnext":
                bad_id += 1
                ops.append(["block", bad_id, 77, [], 1])
            else:
                cand = T.free()
                if cand:
                    t = rng.choice(cand)
                    bad_id += 1
                    ops.append(["block", bad_id, T.tip(), [t], 0])
                    T.blocks[bad_id] = (T.tip(), [t], 0)
        elif k == "delay":
            if sum(1 for o in ops if o[0] == "delaycheck") < 5:
                ops.append(["delaycheck"])
        elif k == "advance":
            ops.append(["advance", rng.choice([25000, 25000, 50000, 75000])])
        elif k == "restart":
            ops.append(["restart"])
            insync = False
            if rng.chance(4, 5):
                ops.append(["setinsync", 1])
                insync = True
        elif k == "sync":
            insync = not insync
            ops.append(["setinsync", int(insync)])
        elif k == "gettx":
            ops.append(["gettx", rng.choice(ids)])
        else:
            ops.append(["unconf"])
    ops += [["advance", 75000], ["delaycheck"], ["unconf"]]
    return U, ops


def pattern_cases():
    """Every arrival order / source of small conflict patterns, restart inserted at every position."""
    res = []
    U = Universe()
    U.add(1, [1000], True)
    U.add(2, [1000, 1001], True)
    U.add(3, [1001], False)
    U.add(4, [1010], True)
    base = [1, 2, 3]
    for perm in itertools.permutations(base):
        for srcs in [(0, 0, 0), (1, 1, 1), (0, 1, 2), (2, 0, 1)]:
            ops = [["setinsync", 1]]
            for t, s in zip(perm, srcs):
                ops.append(["tx", t, s])
            ops += [["advance", 75000], ["delaycheck"], ["block", 1, 0, [perm[0]], 1], ["delaycheck"], ["unconf"],
                    ["tx", perm[0], 0], ["gettx", perm[0]]]
            res.append((U, ops))
    # confirmation of a seen / unseen conflicting tx, relevant or not
    for first, second in [(1, 2), (2, 1), (3, 2), (2, 3)]:
        for seen_before in (0, 1):
            ops = [["setinsync", 1], ["tx", first, 0], ["advance", 75000], ["delaycheck"]]
            if seen_before:
                ops.append(["tx", second, 1])
            ops += [["block", 1, 0, [second], 1], ["unconf"], ["delaycheck"], ["tx", first, 0], ["block", 2, 1, [4], 1]]
            res.append((U, ops))
    # the stored copy after a confirmation whose merkle proof duplicates a hash (the tx is the last of 3 / 5 / 7 / 6 txs of
    # its block), with a clean restart in between: fetched back, the stored proof must still verify
    D = Universe()
    for t in range(1, 9):
        D.add(t, [1000 + 10 * t], t in (1, 8))
    for blk in ([2, 3, 1], [2, 3, 4, 5, 1], [2, 3, 4, 5, 6, 7, 1], [2, 3, 4, 5, 6, 1], [2, 3, 4, 1], [1]):
        res.append((D, [["setinsync", 1], ["tx", 1, 0], ["restart"], ["setinsync", 1], ["block", 1, 0, blk, 1], ["gettx", 1],
                        ["tx", 8, 0], ["block", 2, 1, [8], 1], ["gettx", 1], ["gettx", 8], ["restart"], ["gettx", 1], ["unconf"]]))
    # chained spends of a stored (relevant, delivered) parent with MORE outputs than the spending tx (tx 3 has five): the
    # spent output of index 3 / 4 must be the parent's, index 5 is out of range; from a peer, first seen in a block, and
    # for a parent that was itself first seen in the same block
    C = Universe()
    C.add(3, [1000], True)
    C.add(4, [33], True)
    C.add(5, [34, 30], True)
    C.add(6, [35, 1001], True)
    C.add(1, [32], False)
    for ops in ([["tx", 3, 0], ["tx", 4, 0], ["tx", 5, 1], ["tx", 6, 0], ["tx", 1, 0]],
                [["tx", 3, 0], ["block", 1, 0, [4, 6], 1], ["tx", 5, 0]],
                [["block", 1, 0, [3, 4], 1], ["block", 2, 1, [5, 6], 1]],
                [["block", 1, 0, [3], 1], ["tx", 4, 2], ["restart"], ["setinsync", 1], ["tx", 5, 0], ["block", 2, 1, [4, 5, 6], 1]]):
        res.append((C, [["setinsync", 1]] + ops + [["unconf"]]))
    # restart at every position of a delivery / safe / confirm history
    hist = [["setinsync", 1], ["inv", 4, 1], ["tx", 4, 1], ["tx", 1, 0], ["advance", 75000], ["delaycheck"],
            ["tx", 2, 1], ["block", 1, 0, [4], 1], ["tx", 4, 0], ["advance", 75000], ["delaycheck"], ["block", 2, 1, [1], 1],
            ["unconf"]]
    for i in range(1, len(hist)):
        ops = hist[:i] + [["restart"], ["setinsync", 1]] + hist[i:]
        res.append((U, ops))
    # quiet restarts: a flag changed by the delay check (safe) / a conflict (unsafe) and nothing else touches the
    # unconfirmed set before a clean stop; the restarted node must still know it (no second safe report)
    for src in (0, 2):
        for quiet in ([], [["block", 1, 0, [3], 1]], [["gettx", 4], ["unconf"]]):
            ops = [["setinsync", 1], ["tx", 4, src], ["advance", 75000], ["delaycheck"]] + quiet + \
                  [["restart"], ["setinsync", 1], ["delaycheck"], ["unconf"], ["restart"], ["setinsync", 1], ["advance", 75000],
                   ["delaycheck"], ["unconf"]]
            res.append((U, ops))
    # the set is persisted (restart / block) while the tx is not yet safe, then only the delay check changes it
    for persist in ([["restart"], ["setinsync", 1]], [["block", 1, 0, [3], 1]], [["block", 1, 0, [], 1], ["restart"], ["setinsync", 1]]):
        ops = [["setinsync", 1], ["tx", 4, 0]] + persist + [["advance", 75000], ["delaycheck"], ["restart"], ["setinsync", 1],
               ["delaycheck"], ["unconf"], ["advance", 75000], ["delaycheck"]]
        res.append((U, ops))
    ops = [["setinsync", 1], ["tx", 1, 0], ["tx", 2, 1], ["restart"], ["setinsync", 1], ["advance", 75000], ["delaycheck"], ["unconf"],
           ["restart"], ["setinsync", 1], ["delaycheck"], ["unconf"]]
    res.append((U, ops))
    # the unconfirmed set is persisted while the tx is not yet safe, the tx becomes safe, a block confirms it and the
    # set becomes EMPTY; then a clean restart: nothing of the old snapshot may come back
    for first in ([["block", 1, 0, [], 1]], [["block", 1, 0, [3], 1]], [["restart"], ["setinsync", 1], ["block", 1, 0, [], 1]]):
        ops = [["setinsync", 1], ["tx", 4, 0]] + first + [["advance", 75000], ["delaycheck"], ["block", 2, 1, [4], 1], ["unconf"],
               ["restart"], ["setinsync", 1], ["unconf"], ["advance", 75000], ["delaycheck"], ["unconf"], ["gettx", 4]]
        res.append((U, ops))
    for src in (0, 1):
        res.append((U, [["setinsync", 1], ["tx", 4, src, 1], ["unconf"], ["advance", 75000], ["delaycheck"], ["unconf"], ["tx", 1, 1, 1],
                        ["tx", 2, 0, 1], ["advance", 75000], ["delaycheck"], ["gettx", 4]]))
    res += reorg_patterns(U)
    return res


def reorg_patterns(U):
    """confirm -> orphan -> announce again (every source) -> delay check / conflict / confirmation on the new branch /
    restart in between; the tx seen (and reported safe) or only announced before its first confirmation; the new branch
    unrelated, empty or holding a double spend of the orphaned tx."""
    res = []
    for src in (0, 1, 2):
        for pre in ([], [["tx", 1, 0], ["advance", 75000], ["delaycheck"]], [["inv", 1, 1]], [["tx", 1, 2]]):
            for branch in ([4], [], [2]):
                head = [["setinsync", 1]] + pre + [["block", 1, 0, [1], 1], ["unconf"], ["reorg", 3, 0, branch, 1], ["blocktxs", 1]]
                follows = [
                    [["setinsync", 1], ["tx", 1, src], ["unconf"], ["advance", 75000], ["delaycheck"], ["unconf"], ["gettx", 1]],
                    [["setinsync", 1], ["tx", 1, src], ["tx", 2, 1], ["unconf"], ["advance", 75000], ["delaycheck"]],
                    [["restart"], ["setinsync", 1], ["tx", 1, src], ["advance", 75000], ["delaycheck"], ["restart"], ["setinsync", 1],
                     ["delaycheck"], ["unconf"]],
                    [["tx", 1, src], ["unconf"], ["setinsync", 1], ["tx", 1, src], ["inv", 1, 1], ["advance", 75000], ["delaycheck"]],
                ]
                if branch != [2]:
                    follows += [
                        [["setinsync", 1], ["tx", 1, src], ["block", 4, 3, [1], 1], ["unconf"], ["blocktxs", 2], ["tx", 1, 1]],
                        [["setinsync", 1], ["block", 4, 3, [1], 1], ["unconf"], ["blocktxs", 2], ["tx", 1, src], ["gettx", 1]],
                        [["setinsync", 1], ["tx", 1, src], ["advance", 75000], ["delaycheck"], ["block", 4, 3, [2], 1], ["unconf"],
                         ["tx", 1, 1]],
                    ]
                for f in follows:
                    res.append((U, head + f))
    # deeper forks, the orphaned tx confirmed again by the competing block itself, refused competing blocks,
    # a second reorganisation back, headers that are not followed
    for src in (0, 1, 2):
        res.append((U, [["setinsync", 1], ["block", 1, 0, [1], 1], ["block", 2, 1, [4], 1], ["reorg", 3, 1, [], 1], ["setinsync", 1],
                        ["tx", 4, src], ["tx", 1, src], ["unconf"], ["advance", 75000], ["delaycheck"], ["block", 5, 3, [4], 1], ["unconf"]]))
        res.append((U, [["setinsync", 1], ["block", 1, 0, [1], 1], ["block", 2, 1, [4], 1], ["reorg", 3, 0, [1], 1], ["blocktxs", 1],
                        ["blocktxs", 2], ["setinsync", 1], ["tx", 4, src], ["unconf"], ["reorg", 5, 0, [4], 1],
                        ["setinsync", 1], ["tx", 1, src], ["advance", 75000], ["delaycheck"], ["unconf"], ["gettx", 1], ["gettx", 4]]))
        res.append((U, [["setinsync", 1], ["tx", 4, 0], ["block", 1, 0, [4], 1], ["block", 2, 1, [], 1], ["reorg", 7, 1, [1], 0], ["unconf"],
                        ["tx", 4, src], ["reorg", 8, 99, [], 1], ["reorg", 1, 0, [4], 1], ["setinsync", 1], ["block", 9, 1, [1], 1],
                        ["reorg", 9, 1, [1], 1], ["setinsync", 0], ["reorg", 9, 1, [1], 1], ["tx", 1, 0], ["unconf"]]))
    return res


def make_cases(tier, rng, replay, corpus_dirs=("txflow",)):
    cases = []
    if replay:
        U = Universe()
        for t, body, rel in replay.get("cfg", {}).get("txs", []):
            U.add(t, body, rel)
        cases.append({"ops": replay["ops"], "cfg": replay.get("cfg", {}), "U": U, "origin": "replay"})
        return cases
    for cd in corpus_dirs:
        d = os.path.join(vlib.VERIF, "corpus", cd)
        if os.path.isdir(d):
            for f in sorted(os.listdir(d)):
                if f.endswith(".json"):
                    j = json.load(open(os.path.join(d, f)))
                    U = Universe()
                    for t, body, rel in j["cfg"]["txs"]:
                        U.add(t, body, rel)
                    cases.append({"ops": j["ops"], "cfg": j["cfg"], "U": U, "origin": "corpus/%s/%s" % (cd, f)})
    for U, ops in pattern_cases():
        cases.append({"ops": ops, "cfg": {"txs": U.cfg(), "delay": DELAY}, "U": U, "origin": "pattern"})
    n = 160 if tier == "quick" else 2500
    for i in range(n):
        r = rng.fork(7000 + i)
        U, ops = gen_case(r, r.range(6, 26))
        cases.append({"ops": ops, "cfg": {"txs": U.cfg(), "delay": DELAY}, "U": U})
    return cases


def suite(tier, rng, replay, monitors):
    cases = make_cases(tier, rng, replay)
    for c in cases:
        c["coq_ops"] = [coq_op(o, c["U"]) for o in c["ops"]]
        c.pop("U")
    s = Suite("txflow", "txflow", ["From V.model Require Import MemPool TxFlow TxFlowSpec."],
              [{"key": "txflow", "cases": cases, "model": "cmp_run (run %d)" % DELAY,
                "monitors": monitors}])
    return s


CODES = {
    101: "C07 safe and unsafe both set", 102: "C07 cancelled without unsafe", 103: "C07/C05 safe after unsafe",
    111: "C03 delivery of a tx the step does not carry", 112: "C03 non-matching tx delivered",
    113: "C03 delivered as new twice", 114: "C03 spent outputs wrong", 115: "C03 update for undelivered tx",
    121: "C07 safe reported twice", 122: "C07 safe without trusted vouching", 123: "C07 safe despite known conflict",
    124: "C07 safe before delay", 125: "C07 safe for untracked tx", 126: "C07 safe on arrival (not local)",
    127: "C07/C11 the delay check notifies about a tx that is confirmed in the chain",
    128: "C07/C11 after a restart the tracked set does not carry the first-seen times that were saved",
    131: "C03 delivery before in sync", 141: "C05 new conflicting tx not unsafe", 142: "C05 earlier conflicting tx not reported unsafe",
    143: "C03 matching tx not delivered", 144: "C05 re-seen delivered tx with new conflict not reported unsafe", 151: "C06 block not announced first", 152: "C06 losing tx not cancelled exactly once",
    153: "C03/C04/C11 block tx not notified with proof", 154: "C04 refused block delivered something",
    155: "C06 a header that neither extends nor forks the held chain was processed",
    181: "observation (not judged): notification for an unconfirmed tx carries the merkle proof of an orphaned block",
    161: "C07 safe report while not in sync", 162: "C07 safe not reported when due", 171: "C11 delivered tx not fetchable",
    197: "trace length", 198: "tx step failed", 199: "undecodable observation",
}

PROPERTY_CODES = {
    "C03": {111, 112, 113, 114, 115, 131, 143, 153},
    "C05": {103, 141, 142, 144},
    "C06": {151, 152, 154, 155},
    "C07": {101, 102, 103, 121, 122, 123, 124, 125, 126, 127, 128, 161, 162},
    "C11": {113, 121, 127, 128, 153, 171},
}

# Observation 181 (monitor "stale", TxFlowSpec.txflow_stale_monitor): a transaction whose confirming block was orphaned
# is announced again and delivered as new (C03 allows exactly that) - today's code delivers it, and every later
# update while it is unconfirmed, still carrying the orphaned block's merkle proof and unconfirmed depth 0.  The
# property texts speak of the proof only for notifications of an inclusion in a block (C04), so this is recorded in
# the evidence, never counted in a verdict.
STALE = []


def note_stale(rec):
    """True iff rec is an observation record (to be kept out of the verdict)."""
    if rec.get("checker") == "stale":
        STALE.append(rec)
        return True
    return False


def stale_coverage():
    note = {"histories": len(STALE)}
    if STALE:
        r = min(STALE, key=lambda x: len(x.get("ops", [])))
        note.update({"what": CODES[181], "cfg": r.get("cfg"), "ops": r.get("ops"), "step": r.get("step"),
                     "observed": r.get("observed")})
    return note


def keyfn(rec):
    code = (rec.get("expected") or [0])[0] if rec.get("checker") != "model" else 0
    ops = rec.get("ops", [])
    step = rec.get("step", 0)
    opn = ops[step][0] if 0 <= step < len(ops) else "?"
    return "txflow:%s:%s:%s" % (rec.get("checker"), code, opn)


def with_vouch(res, workdir):
    """C07: 'safe only if the trusted peer has announced or sent it' - the mark that stands for that is set by nobody else"""
    vf, vn = vouch_failures(workdir)
    res = dict(res)
    res["failures"] = list(res["failures"]) + vf
    res["evaluations"] = res.get("evaluations", 0) + vn
    res["coverage"] = dict(res.get("coverage", {}), vouching_scenarios=vn)
    return res


def vouch_failures(workdir):
    """The mempool's trusted mark of a transaction - the input of the safe decision (C07) and what an untrusted peer must
    not be able to set (C12): whatever untrusted connections announce, deliver and re-check (their own tracker checks
    included), only the trusted connection sets it (harness component tracker: real Node / UntrustedNode objects)."""
    failures = []
    vcases = []
    for nconn, script in ((2, [["inv", 1, 1], ["inv", 1, 1], ["body", 1, 0], ["check", 1], ["istrusted", 1], ["advance", 4000], ["check", 1], ["istrusted", 1]]),
                          (3, [["inv", 1, 1], ["inv", 2, 1], ["inv", 2, 1], ["check", 2], ["body", 1, 0], ["check", 1], ["check", 2], ["istrusted", 1],
                               ["advance", 3500], ["inv", 1, 2], ["inv", 2, 2], ["advance", 3500], ["check", 2], ["check", 1], ["istrusted", 2]]),
                          (3, [["inv", 1, 1], ["inv", 2, 1], ["check", 2], ["istrusted", 1], ["body", 1, 0], ["check", 2], ["istrusted", 1],
                               ["advance", 3100], ["check", 2], ["check", 1], ["istrusted", 1]]),
                          (2, [["inv", 1, 1], ["inv", 1, 1], ["body", 1, 0], ["check", 1], ["istrusted", 1], ["inv", 0, 1], ["istrusted", 1]])):
        vcases.append({"cfg": {"nconn": nconn, "txs": [[1, [9010], 0], [2, [9020], 0]]}, "ops": script})
    vres, _ = vlib.run_harness("tracker", vcases, workdir, tag="vouch")
    for ci, (c, tr) in enumerate(zip(vcases, vres)):
        trusted_announced = set()
        for i, (o, ob) in enumerate(zip(c["ops"], tr)):
            if o[0] == "inv" and o[1] == 0:
                trusted_announced.add(o[2])
            if o[0] == "body" and o[2] != 0:
                trusted_announced.add(o[1])
            if o[0] == "istrusted":
                want = 1 if o[1] in trusted_announced else 0
                if list(ob) != [0, want]:
                    failures.append({"suite": "vouch", "checker": "vouch", "step": i, "cfg": c["cfg"], "ops": c["ops"], "trace": tr,
                                     "expected": [322], "observed": list(ob),
                                     "what": "tx %d is marked trusted in the shared mempool although only untrusted connections announced / sent it"
                                             % o[1] if want == 0 else "tx %d announced by the trusted peer is not marked trusted" % o[1]})
                    break
    return failures, len(vcases)


def make_spec(pid, title_rule):
    MON = {"flow": "txflow_monitor %d" % DELAY,
           "stale": "txflow_stale_monitor %d" % DELAY,
           "hyp_valid": "fun ops _ => if flow_valid %d ops then None else Some (0, [900])" % DELAY}

    def suites(tier, rng, replay):
        return [suite(tier, rng, replay, MON)]

    mycodes = PROPERTY_CODES.get(pid, set())

    def accept(rec):
        if note_stale(rec):
            return False
        if rec.get("checker") != "flow":
            return True
        code = (rec.get("expected") or [0])[0]
        if pid == "C11" and code in (101, 102, 103, 122, 123, 124, 126):
            # "still tracked with its safe / unsafe / trusted flags": a wrong safe report AFTER a restart is C11's
            # (before any restart it is C05 / C07's)
            ops, st = rec.get("ops", []), rec.get("step", 0)
            return any(o[0] == "restart" for o in ops[:st])
        return code in mycodes or code >= 197

    return {
        "pid": pid,
        "props_file": "props/%s.v" % pid,
        "suites": suites,
        "extra": (lambda tier, rng, workdir: with_vouch(race_extra(tier, rng, workdir), workdir)) if pid == "C07"
                 else (lambda tier, rng, workdir: race_extra(tier, rng, workdir)),
        "keyfn": lambda rc: race_key(rc) if rc.get("suite") == "txflow-race" else
                 ("vouch:322:%s" % (rc.get("ops") or [["?"]])[rc.get("step", 0)][0] if rc.get("suite") == "vouch" else keyfn(rc)),
        "trusted_base": [
            "Coq 8.16.1 kernel (coqc); vm_compute for evaluating model and monitors on the cases; no native_compute",
            "axioms: none declared; Print Assumptions recorded under print_assumptions",
            "hand-written model coq/model/TxFlow.v (+ MemPool.v) of processUnconfirmedTx / ProcessBlock / checkTxDelays / TxRepository / tx state store, tied to the code by the correspondence run on a real Node built in-package (real handlers, real ProcessBlock, the real checkTxDelays goroutine run for one period, ageing hooks for the clock)",
            "modelled, not verified: relevance is a boolean per tx (composition with the filter is C08), hashes are ids, the output fetcher answers in order, merkle tree library (C04), storage back end",
        ],
        "assumptions": ["atomicity at the granularity of processUnconfirmedTx / ProcessBlock / one delay-check iteration for the THEOREMS (the tx repository lock is held across ProcessBlock, the tx state lock across a delay-check iteration and its sending); the interleavings the code must exclude by those locks are replayed on the real code with pause points in the harness (race_delay: conflict between the delay check's read and write; race_send: conflict while the safe update is being sent; race_block_tx: the tx thread handles the tx message of a tx first seen in a block while ProcessBlock is in the middle of it); other interleavings are not explored",
                        "reorganisations: the trusted headers handler reverts the chain to a held block, then the competing block is processed (op reorg, driven through the real handlers.HeadersHandler); histories are those of flow_valid (TxFlowSpec.v): a txid has one body and relevance, a block id one parent / validity / tx list, block txs pairwise disjoint, and (following the run of the model) a block the node accepts holds no transaction that is confirmed in the chain it extends",
                        "node.load re-enters the stored transactions of the unconfirmed set into the mempool in the iteration order of a Go map; that order only decides the order of the notifications within a later step, the harness normalises it to ascending txid (what the model does) through the real MemPool methods",
                        "what survives a restart of the vouching: the stored per-tx flag (set when the tx itself came from the trusted peer or was submitted locally) does; the trusted peer's ANNOUNCEMENT of a tx that an untrusted peer delivered marks only the mempool entry, which is not stored (TxRepository.MarkTrusted has no caller): after a restart such a tx is reported safe only once the trusted peer announces or sends it again. Model and monitor say exactly that (m_vnow / m_vpersist); read strictly, C07's 'reported safe within a bounded time' and C11's 'trusted flags' could ask for more - recorded here as the reading adopted, reported by two round-8 seeders as an observation",
                        "wall-clock period of the delay checker (100 ms) is a runtime fact"],
        "rule": (title_rule + "; + reorganisations through the real headers handler (fork below the tip, also refused competing blocks, unknown parent, held / tip headers): confirm -> orphan -> announce again (every source) -> delay check / conflict / confirmation on the new branch / restart in between, deeper forks, second reorganisation") if title_rule else title_rule,
        "accept_failure": accept,
        "monitors": MON,
    }

# ---- goroutine races around the delay check (real code, pause points in the harness) ----
def parse_events(ob):
    """[1|2, txid, safe, unsafe, cancel, depth, proof, (n, outs...)]* -> list of dicts"""
    evs, i = [], 0
    while i < len(ob):
        k = ob[i]
        if k == 1:
            n = ob[i + 7]
            evs.append({"kind": 1, "t": ob[i + 1], "safe": ob[i + 2], "unsafe": ob[i + 3], "cancel": ob[i + 4],
                        "depth": ob[i + 5], "proof": ob[i + 6]})
            i += 8 + n
        elif k == 2:
            evs.append({"kind": 2, "t": ob[i + 1], "safe": ob[i + 2], "unsafe": ob[i + 3], "cancel": ob[i + 4],
                        "depth": ob[i + 5], "proof": ob[i + 6]})
            i += 7
        elif k == 3:
            i += 3
        else:
            i += 1
    return evs


def race_extra(tier, rng, workdir):
    """race_delay: the delay check has READ a tx state and is about to write it back when a conflicting tx arrives
    (pause point in the store).  race_send: the delay check is SENDING the safe update (the first handler is slow)
    when a conflicting tx arrives; what the second handler sees is judged.  In both the tx must never be reported
    safe after it was reported unsafe, nor safe and unsafe at once."""
    cfg = {"txs": [[1, [1000], 1], [2, [1000, 1001], 1], [3, [1001], 0]], "delay": DELAY}
    cases = []
    for opn in ("race_delay", "race_send", "race_read"):
        for first, conflict, src in ((1, 2, 1), (1, 2, 0), (2, 1, 1), (2, 3, 1)):
            # race_read = race_delay with the check held right after its READ of the state (before it decides)
            rop = ["race_delay", first, conflict, src, 1] if opn == "race_read" else [opn, first, conflict, src]
            cases.append({"cfg": cfg, "ops": [["setinsync", 1], ["tx", first, 0], ["advance", 75000],
                                              rop, ["unconf"], ["delaycheck"]]})
    results, _ = vlib.run_harness("txflow", cases, workdir, tag="race")
    failures = []
    reached = {"race_delay": 0, "race_send": 0, "race_read": 0}
    for c, r in zip(cases, results):
        ob = r[3]
        opn, t = c["ops"][3][0], c["ops"][3][1]
        if len(c["ops"][3]) > 4:
            opn = "race_read"
        reached[opn] += ob[1] if len(ob) > 1 else 0
        seen_unsafe = False
        for ev in parse_events(ob[2:]) + parse_events(r[5][1:]):
            if ev["t"] != t:
                continue
            if ev["safe"] and ev["unsafe"]:
                failures.append(race_rec(c, r, 3, 101, "safe and unsafe both set"))
                break
            if ev["unsafe"] or ev["cancel"]:
                seen_unsafe = True
            elif ev["safe"] and seen_unsafe:
                why = ("the delay check wrote back a stale copy of the state" if opn == "race_delay" else
                       "the delay check decided on a copy of the state it had read before the conflict was recorded (not under the tx state lock)" if opn == "race_read" else
                       "the delay check's safe update was still being sent (not under the tx state lock) when the conflict was reported")
                failures.append(race_rec(c, r, 3, 103, "tx %d reported safe after it was reported unsafe: %s" % (t, why)))
                break
    # the tx message of a tx first seen in a block, handled by the tx thread while ProcessBlock is in the middle of
    # that tx: it must be delivered as new at most once, keep its confirmation, and not stay in the unconfirmed set
    bcfg = {"txs": [[1, [1000], 1], [2, [1001], 1], [3, [1002], 0], [4, [1003], 1]], "delay": DELAY}
    bcases, twins = [], []
    for txids, t, src in (([1], 1, 0), ([3, 1, 2], 1, 1), ([2, 3, 4], 4, 0), ([4, 2], 2, 1)):
        tail = [["unconf"], ["tx", t, 0], ["unconf"], ["block", 2, 1, [], 1], ["unconf"]]
        bcases.append({"cfg": bcfg, "ops": [["setinsync", 1], ["race_block_tx", 1, 0, txids, t, src]] + tail})
        twins.append({"cfg": bcfg, "ops": [["setinsync", 1], ["block", 1, 0, txids, 1], ["tx", t, src]] + tail})
    bres, _ = vlib.run_harness("txflow", bcases + twins, workdir, tag="blockrace")
    breached = 0
    for c, r, tw in zip(bcases, bres[:len(bcases)], bres[len(bcases):]):
        ob = r[1]
        t = c["ops"][1][4]
        breached += ob[1] if len(ob) > 1 else 0
        evs = parse_events(ob[4:])
        news = [e for e in evs if e["t"] == t and e["kind"] == 1]
        later = [e for op, o in zip(c["ops"][2:], r[2:]) if op[0] in ("tx", "block") and o and o[0] == 0
                 for e in parse_events(o[1:]) if e["t"] == t and e["kind"] == 1]
        if ob[0] != 0 or ob[2] != 0 or ob[3] != 0:
            failures.append(race_rec(c, r, 1, 105, "block / tx-thread race: an operation failed or got stuck (%s)" % ob[:4]))
        elif len(news) + len(later) > 1:
            failures.append(race_rec(c, r, 1, 104, "tx %d first seen in a block was delivered as new %d times: the tx thread handled "
                                     "its tx message while ProcessBlock was in the middle of it" % (t, len(news) + len(later))))
        elif [o for o in r[2:]] != [o for o in tw[3:]]:
            failures.append(race_rec(c, r, 1, 106, "after the block / tx-thread race the node differs from 'block, then tx message' "
                                     "(unconfirmed set / later notifications): %s instead of %s" % (r[2:], tw[3:])))
    # the same tx message EARLIER in the block: ProcessBlock holds the tx repository (it is announcing the header) and has
    # not reached the tx yet when the tx thread takes the tx message (enters it into the mempool, then waits for the
    # repository).  Whichever thread delivers it, the tx is in a processed block: it must get a notification carrying
    # this block's proof and depth 0 (C04), be delivered as new at most once (C03) and leave the unconfirmed set.
    ecases, etwins = [], []
    for txids, t, src in (([1], 1, 0), ([3, 1, 2], 1, 0), ([2, 3, 4], 4, 1), ([4, 2], 2, 0), ([3, 1, 2], 2, 1)):
        tail = [["unconf"], ["tx", t, 0], ["unconf"], ["block", 2, 1, [], 1], ["delaycheck"], ["unconf"]]
        ecases.append({"cfg": bcfg, "ops": [["setinsync", 1], ["race_block_conflict", 1, 0, txids, t, src]] + tail})
        etwins.append({"cfg": bcfg, "ops": [["setinsync", 1], ["block", 1, 0, txids, 1], ["tx", t, src]] + tail})
    eres, _ = vlib.run_harness("txflow", ecases + etwins, workdir, tag="earlyrace", timeout=300)
    ereached = 0
    for c, r, tw in zip(ecases, eres[:len(ecases)], eres[len(ecases):]):
        ob = r[1]
        t = c["ops"][1][4]
        ereached += ob[1] if len(ob) > 1 else 0
        if ob[0] != 0 or (len(ob) > 2 and ob[2] == 2) or (len(ob) > 3 and (ob[2] != 0 or ob[3] != 0)):
            failures.append(race_rec(c, r, 1, 105, "block / tx-thread race: an operation failed or got stuck (%s)" % ob[:4]))
            continue
        evs = [e for e in parse_events(ob[4:]) if e["t"] == t]
        later = [e for op, o in zip(c["ops"][2:], r[2:]) if op[0] in ("tx", "block", "delaycheck") and o and o[0] == 0
                 for e in parse_events(o[1:]) if e["t"] == t]
        news = [e for e in evs + later if e["kind"] == 1]
        if len(news) > 1:
            failures.append(race_rec(c, r, 1, 104, "tx %d of the block was delivered as new %d times: the tx thread took its tx "
                                     "message while ProcessBlock held the tx repository" % (t, len(news))))
        elif not any(e["depth"] == 0 and e["proof"] == c["ops"][1][1] for e in evs):
            failures.append(race_rec(c, r, 1, 108, "tx %d is in the processed block but no notification carries the block's merkle "
                                     "proof (it was in the mempool, not yet in the unconfirmed set, when ProcessBlock reached "
                                     "it: skipped as 'seen, not relevant'; then delivered as unconfirmed): %s" % (t, evs)))
        elif [o for o in r[2:]] != [o for o in tw[3:]]:
            failures.append(race_rec(c, r, 1, 106, "after the block / tx-thread race the node differs from 'block, then tx message' "
                                     "(unconfirmed set / later notifications): %s instead of %s" % (r[2:], tw[3:])))
    # the other way round: the TX thread is in the middle of tx t - t is in the unconfirmed set, the outputs it spends
    # are being fetched (a network round trip), its state is not stored yet - when the block thread processes a block
    # that contains t, contains a tx conflicting with t, or has nothing to do with t.  No step may fail (a ProcessBlock
    # that fails after the header was added never delivers the block's txs, and ends the block thread), and the result
    # is that of 'tx, then block'.
    wcfg = {"txs": [[1, [1000], 1], [2, [1000, 1001], 1], [3, [1002], 0], [4, [1003], 1], [5, [1004, 1003], 1]], "delay": DELAY}
    wcases, wtwins = [], []
    for t, src, txids in ((1, 0, [3, 1]), (1, 1, [1]), (1, 0, [2]), (2, 1, [3, 1]), (4, 0, [3]), (4, 1, [5, 1]), (5, 0, [4, 2])):
        tail = [["unconf"], ["block", 2, 1, [], 1], ["delaycheck"], ["unconf"]]
        wcases.append({"cfg": wcfg, "ops": [["setinsync", 1], ["race_tx_block", t, src, 1, 0, txids]] + tail})
        wtwins.append({"cfg": wcfg, "ops": [["setinsync", 1], ["tx", t, src], ["block", 1, 0, txids, 1]] + tail})
    wres, _ = vlib.run_harness("txflow", wcases + wtwins, workdir, tag="txblockrace", timeout=300)
    wreached = 0
    for c, r, tw in zip(wcases, wres[:len(wcases)], wres[len(wcases):]):
        ob = r[1]
        t = c["ops"][1][1]
        wreached += ob[1] if len(ob) > 1 else 0
        if ob[0] != 0 or (len(ob) > 2 and ob[2] == 2):
            failures.append(race_rec(c, r, 1, 107, "tx thread and block thread wait for each other for ever (%s)" % ob[:4]))
            continue
        if len(ob) > 3 and (ob[2] != 0 or ob[3] != 0):
            failures.append(race_rec(c, r, 1, 105, "a block processed while the tx thread was in the middle of tx %d (in the unconfirmed "
                                     "set, state not stored yet, fetching the spent outputs): %s returned an error - the block had "
                                     "been added to the chain, its txs are never delivered" % (t, "ProcessBlock" if ob[2] else "the tx thread")))
            continue
        evs = [e for e in parse_events(ob[4:]) if e["t"] == t]
        inblock = t in c["ops"][1][5]
        if len([e for e in evs if e["kind"] == 1]) > 1:
            failures.append(race_rec(c, r, 1, 104, "tx %d was delivered as new twice" % t))
        elif inblock and not any(e["depth"] == 0 and e["proof"] == 1 for e in evs):
            failures.append(race_rec(c, r, 1, 108, "tx %d is in the processed block but no notification carries the block's merkle proof: %s" % (t, evs)))
        elif [o for o in r[2:]] != [o for o in tw[3:]]:
            failures.append(race_rec(c, r, 1, 106, "after the tx-thread / block race the node differs from 'tx message, then block' "
                                     "(unconfirmed set / later notifications): %s instead of %s" % (r[2:], tw[3:])))
    # a tx that is NOT in the block, taken by the tx thread while ProcessBlock holds the tx repository: it must wait for
    # the block, then be delivered and stay in the unconfirmed set (the block's finalize must not drop it), so that the
    # later block that contains it sends the update with that block's proof
    ucases, utwins = [], []
    for txids, t, src in (([3], 1, 0), ([2, 3], 4, 1), ([], 2, 0), ([4], 1, 1)):
        tail = [["unconf"], ["block", 2, 1, [3, t] if 3 not in txids else [t], 1], ["unconf"], ["delaycheck"], ["unconf"]]
        ucases.append({"cfg": bcfg, "ops": [["setinsync", 1], ["race_block_conflict", 1, 0, txids, t, src]] + tail})
        utwins.append({"cfg": bcfg, "ops": [["setinsync", 1], ["block", 1, 0, txids, 1], ["tx", t, src]] + tail})
    ures, _ = vlib.run_harness("txflow", ucases + utwins, workdir, tag="unrelatedrace", timeout=300)
    ureached = 0
    for c, r, tw in zip(ucases, ures[:len(ucases)], ures[len(ucases):]):
        ob = r[1]
        t = c["ops"][1][4]
        ureached += ob[1] if len(ob) > 1 else 0
        if ob[0] != 0 or (len(ob) > 2 and ob[2] == 2) or (len(ob) > 3 and (ob[2] != 0 or ob[3] != 0)):
            failures.append(race_rec(c, r, 1, 105, "block / tx-thread race: an operation failed or got stuck (%s)" % ob[:4]))
            continue
        evs = [e for e in parse_events(ob[4:]) if e["t"] == t]
        atblock = [e for e in parse_events(r[3][1:]) if e["t"] == t] if r[3] and r[3][0] == 0 else []
        news = [e for e in evs + atblock if e["kind"] == 1]
        if len(news) != 1:
            failures.append(race_rec(c, r, 1, 104, "tx %d, taken by the tx thread during an unrelated block, was delivered as new %d times"
                                     % (t, len(news))))
        elif not any(e["depth"] == 0 and e["proof"] == 2 for e in atblock):
            failures.append(race_rec(c, r, 3, 108, "tx %d was delivered while an unrelated block was being processed; the later block that "
                                     "contains it sent no notification with its merkle proof (the unrelated block's finalize dropped the "
                                     "tx from the unconfirmed set): %s" % (t, atblock)))
        elif [o for o in r[2:]] != [o for o in tw[3:]]:
            failures.append(race_rec(c, r, 1, 106, "after the block / tx-thread race the node differs from 'block, then tx message' "
                                     "(unconfirmed set / later notifications): %s instead of %s" % (r[2:], tw[3:])))
    # a double spend of a delivered tx handled by the tx thread while the block that confirms that tx is inside
    # ProcessBlock (announcement being sent, tx repository locked): both threads must finish (lock order), the loser
    # is reported unsafe / cancelled, the confirmed one is never reported safe after unsafe
    ccfg = {"txs": [[1, [1000], 1], [2, [1000, 1001], 1], [3, [1001], 0], [4, [1010], 1]], "delay": DELAY}
    ccases = []
    for txids, inject, src in (([1], 2, 1), ([4, 1], 2, 1), ([1], 2, 0), ([2], 1, 1)):
        first = 1 if inject == 2 else 2
        ccases.append({"cfg": ccfg, "ops": [["setinsync", 1], ["tx", first, 0], ["race_block_conflict", 1, 0, txids, inject, src],
                                            ["unconf"], ["block", 2, 1, [], 1], ["delaycheck"], ["unconf"]]})
    cres, _ = vlib.run_harness("txflow", ccases, workdir, tag="conflictrace", timeout=300)
    creached = 0
    for c, r in zip(ccases, cres):
        ob = r[2]
        creached += ob[1] if len(ob) > 1 else 0
        if ob[0] != 0 or (len(ob) > 2 and ob[2] == 2):
            failures.append(race_rec(c, r, 2, 107, "block thread and tx thread wait for each other for ever (lock order): a conflicting "
                                     "tx arrived while the block confirming the other tx was inside ProcessBlock (%s)" % ob[:4]))
            continue
        if len(ob) > 3 and (ob[2] != 0 or ob[3] != 0):
            failures.append(race_rec(c, r, 2, 105, "block / conflicting tx race: an operation failed (%s)" % ob[:4]))
            continue
        seen_unsafe = set()
        bad = None
        for op, o in zip(c["ops"][1:], r[1:]):
            evs = parse_events(o[4:] if op[0] == "race_block_conflict" else o[1:]) if op[0] in ("tx", "block", "race_block_conflict", "delaycheck") and o and o[0] == 0 else []
            for e in evs:
                if e["safe"] and e["unsafe"]:
                    bad = (101, "safe and unsafe both set for tx %d" % e["t"])
                elif e["unsafe"] or e["cancel"]:
                    seen_unsafe.add(e["t"])
                elif e["safe"] and e["t"] in seen_unsafe:
                    bad = (103, "tx %d reported safe after it was reported unsafe" % e["t"])
        if bad:
            failures.append(race_rec(c, r, 2, bad[0], "block / conflicting tx race: " + bad[1]))
    return {"failures": failures, "evaluations": len(cases) + len(bcases) + len(ecases) + len(ucases) + len(wcases) + len(ccases),
            "coverage": {"reannounced_with_orphaned_proof_not_judged": stale_coverage(),
                         "rmw_race_scenarios": len(cases), "rmw_race_pause_point_reached": reached["race_delay"],
                         "send_race_pause_point_reached": reached["race_send"],
                         "read_race_pause_point_reached": reached["race_read"],
                         "block_tx_race_scenarios": len(bcases), "block_tx_race_pause_point_reached": breached,
                         "early_block_tx_race_scenarios": len(ecases), "early_block_tx_race_pause_point_reached": ereached,
                         "unrelated_block_tx_race_scenarios": len(ucases), "unrelated_block_tx_race_pause_point_reached": ureached,
                         "tx_in_flight_block_tx_race_scenarios": len(wcases), "tx_in_flight_block_tx_race_pause_point_reached": wreached,
                         "block_conflict_race_scenarios": len(ccases), "block_conflict_race_pause_point_reached": creached}}


def race_rec(c, r, step, code, what):
    return {"suite": "txflow-race", "checker": "race", "step": step, "expected": [code], "observed": r[step], "cfg": c["cfg"],
            "ops": c["ops"], "trace": r, "what": what}


def race_key(rc):
    ops = rc.get("ops") or []
    st = rc.get("step", 3)
    opn = ops[st][0] if len(ops) > st else "race_delay"
    return "txflow:race:%s:%s" % ((rc.get("expected") or [0])[0], opn)
