"""Shared generator / suite for the transaction pipeline (C03, C05 node level, C06, C07, C11)."""
import itertools
import json
import os
import sys

sys.path.insert(0, os.path.dirname(os.path.abspath(__file__)))
import vlib
from checklib import Suite

DELAY = 60000   # ms; clock advances are multiples of 25 s so that real elapsed time (< 3 s per case) never matters


def zl(xs):
    return "[" + "; ".join(vlib.z(x) for x in xs) + "]"


def cb(b):
    return "true" if b else "false"


SRC = {0: "STrusted", 1: "SUntrusted", 2: "SLocal"}


class Universe:
    def __init__(self):
        self.txs = {}   # t -> (body, rel)
        self.order = []

    def add(self, t, body, rel):
        self.txs[t] = (list(body), bool(rel))
        self.order.append(t)

    def cfg(self):
        return [[t, self.txs[t][0], int(self.txs[t][1])] for t in self.order]


def coq_op(o, U):
    n = o[0]
    if n == "tx":
        body, rel = U.txs[o[1]]
        return "(OTx %s %s %s %s)" % (vlib.z(o[1]), zl(body), cb(rel), SRC[o[2]])
    if n == "inv":
        return "(OInv %s %s)" % (vlib.z(o[1]), cb(o[2]))
    if n == "block":
        txs = "[" + "; ".join("(%s, %s, %s)" % (vlib.z(t), zl(U.txs[t][0]), cb(U.txs[t][1])) for t in o[3]) + "]"
        return "(OBlock %s %s %s %s)" % (vlib.z(o[1]), vlib.z(o[2]), txs, cb(o[4]))
    if n == "delaycheck":
        return "ODelayCheck"
    if n == "advance":
        return "(OAdvance %s)" % vlib.z(o[1])
    if n == "setinsync":
        return "(OSetInSync %s)" % cb(o[1])
    if n == "restart":
        return "ORestart"
    if n == "gettx":
        return "(OGetTx %s)" % vlib.z(o[1])
    if n == "unconf":
        return "OUnconf"
    raise KeyError(n)


def gen_universe(rng):
    U = Universe()
    ext = [1000, 1001, 1010, 1011, 1020][:rng.range(2, 5)]   # outputs of external (unknown) parents 100,101,102
    ntx = rng.range(3, 7)
    for t in range(1, ntx + 1):
        k = rng.weighted([(1, 6), (2, 4), (3, 1), (0, 1)])
        body = []
        for _ in range(k):
            c = rng.weighted([("ext", 6), ("chain", 3), ("private", 2), ("coinbase", 1), ("oor", 1)])
            if c == "ext":
                body.append(rng.choice(ext))
            elif c == "chain" and t > 1:
                p = rng.range(1, t - 1)
                body.append(p * 10 + rng.below(3))
            elif c == "private":
                body.append(9000 + t * 10)
            elif c == "coinbase":
                body.append(-1)
            elif c == "oor" and t > 1:
                body.append(rng.range(1, t - 1) * 10 + rng.range(3, 5))
            else:
                body.append(rng.choice(ext))
        # no duplicate outpoint inside one body at node level (invalid tx; covered at component level)
        seen = []
        for o in body:
            if o not in seen:
                seen.append(o)
        U.add(t, seen, rng.chance(3, 4))
    return U


def conflicts(U, a, b):
    return any(o in U.txs[b][0] for o in U.txs[a][0])   # the null (coinbase) outpoint is an outpoint like any other to the mempool


def gen_case(rng, nops):
    U = gen_universe(rng)
    ops = []
    ids = list(U.order)
    next_block = 1
    tip = 0
    confirmed = set()
    sent = {}
    bad_id = 500
    insync = False
    if rng.chance(5, 6):
        ops.append(["setinsync", 1])
        insync = True
    for _ in range(nops):
        k = rng.weighted([("tx", 34), ("inv", 8), ("block", 14), ("delay", 12), ("advance", 12), ("restart", 4),
                          ("sync", 3), ("gettx", 4), ("unconf", 4), ("badblock", 2)])
        if k == "tx":
            t = rng.choice(ids)
            ops.append(["tx", t, rng.weighted([(0, 5), (1, 5), (2, 2)])])
        elif k == "inv":
            ops.append(["inv", rng.choice(ids), int(rng.chance(2, 3))])
        elif k == "block":
            cand = [t for t in ids if t not in confirmed]
            rng2 = rng.shuffle(cand)
            chosen = []
            for t in rng2[:rng.range(0, 3)]:
                if all(not conflicts(U, t, c) for c in chosen):
                    chosen.append(t)
            for t in chosen:
                confirmed.add(t)
            ops.append(["block", next_block, tip, chosen, 1])
            sent[next_block] = (tip, chosen)
            tip = next_block
            next_block += 1
        elif k == "badblock":
            kind = rng.choice(["known", "notnext", "invalid"])
            if kind == "known":
                if sent:
                    b = rng.choice(sorted(sent))
                    ops.append(["block", b, sent[b][0], sent[b][1], 1])   # the same block again
                else:
                    continue
            elif kind == "notnext":
                bad_id += 1
                ops.append(["block", bad_id, 77, [], 1])
            else:
                cand = [t for t in ids if t not in confirmed]
                if cand:
                    t = rng.choice(cand)
                    confirmed.add(t)   # a transaction occurs in at most one block message
                    bad_id += 1
                    ops.append(["block", bad_id, tip, [t], 0])
        elif k == "delay":
            if sum(1 for o in ops if o[0] == "delaycheck") < 5:
                ops.append(["delaycheck"])
        elif k == "advance":
            ops.append(["advance", rng.choice([25000, 25000, 50000, 75000])])
        elif k == "restart":
            ops.append(["restart"])
            insync = False
            if rng.chance(4, 5):
                ops.append(["setinsync", 1])
                insync = True
        elif k == "sync":
            insync = not insync
            ops.append(["setinsync", int(insync)])
        elif k == "gettx":
            ops.append(["gettx", rng.choice(ids)])
        else:
            ops.append(["unconf"])
    ops += [["advance", 75000], ["delaycheck"], ["unconf"]]
    return U, ops


def pattern_cases():
    """Every arrival order / source of small conflict patterns, restart inserted at every position."""
    res = []
    U = Universe()
    U.add(1, [1000], True)
    U.add(2, [1000, 1001], True)
    U.add(3, [1001], False)
    U.add(4, [1010], True)
    base = [1, 2, 3]
    for perm in itertools.permutations(base):
        for srcs in [(0, 0, 0), (1, 1, 1), (0, 1, 2), (2, 0, 1)]:
            ops = [["setinsync", 1]]
            for t, s in zip(perm, srcs):
                ops.append(["tx", t, s])
            ops += [["advance", 75000], ["delaycheck"], ["block", 1, 0, [perm[0]], 1], ["delaycheck"], ["unconf"],
                    ["tx", perm[0], 0], ["gettx", perm[0]]]
            res.append((U, ops))
    # confirmation of a seen / unseen conflicting tx, relevant or not
    for first, second in [(1, 2), (2, 1), (3, 2), (2, 3)]:
        for seen_before in (0, 1):
            ops = [["setinsync", 1], ["tx", first, 0], ["advance", 75000], ["delaycheck"]]
            if seen_before:
                ops.append(["tx", second, 1])
            ops += [["block", 1, 0, [second], 1], ["unconf"], ["delaycheck"], ["tx", first, 0], ["block", 2, 1, [4], 1]]
            res.append((U, ops))
    # restart at every position of a delivery / safe / confirm history
    hist = [["setinsync", 1], ["inv", 4, 1], ["tx", 4, 1], ["tx", 1, 0], ["advance", 75000], ["delaycheck"],
            ["tx", 2, 1], ["block", 1, 0, [4], 1], ["tx", 4, 0], ["advance", 75000], ["delaycheck"], ["block", 2, 1, [1], 1],
            ["unconf"]]
    for i in range(1, len(hist)):
        ops = hist[:i] + [["restart"], ["setinsync", 1]] + hist[i:]
        res.append((U, ops))
    # quiet restarts: a flag changed by the delay check (safe) / a conflict (unsafe) and nothing else touches the
    # unconfirmed set before a clean stop; the restarted node must still know it (no second safe report)
    for src in (0, 2):
        for quiet in ([], [["block", 1, 0, [3], 1]], [["gettx", 4], ["unconf"]]):
            ops = [["setinsync", 1], ["tx", 4, src], ["advance", 75000], ["delaycheck"]] + quiet + \
                  [["restart"], ["setinsync", 1], ["delaycheck"], ["unconf"], ["restart"], ["setinsync", 1], ["advance", 75000],
                   ["delaycheck"], ["unconf"]]
            res.append((U, ops))
    # the set is persisted (restart / block) while the tx is not yet safe, then only the delay check changes it
    for persist in ([["restart"], ["setinsync", 1]], [["block", 1, 0, [3], 1]], [["block", 1, 0, [], 1], ["restart"], ["setinsync", 1]]):
        ops = [["setinsync", 1], ["tx", 4, 0]] + persist + [["advance", 75000], ["delaycheck"], ["restart"], ["setinsync", 1],
               ["delaycheck"], ["unconf"], ["advance", 75000], ["delaycheck"]]
        res.append((U, ops))
    ops = [["setinsync", 1], ["tx", 1, 0], ["tx", 2, 1], ["restart"], ["setinsync", 1], ["advance", 75000], ["delaycheck"], ["unconf"],
           ["restart"], ["setinsync", 1], ["delaycheck"], ["unconf"]]
    res.append((U, ops))
    return res


def make_cases(tier, rng, replay, corpus_dirs=("txflow",)):
    cases = []
    if replay:
        U = Universe()
        for t, body, rel in replay.get("cfg", {}).get("txs", []):
            U.add(t, body, rel)
        cases.append({"ops": replay["ops"], "cfg": replay.get("cfg", {}), "U": U, "origin": "replay"})
        return cases
    for cd in corpus_dirs:
        d = os.path.join(vlib.VERIF, "corpus", cd)
        if os.path.isdir(d):
            for f in sorted(os.listdir(d)):
                if f.endswith(".json"):
                    j = json.load(open(os.path.join(d, f)))
                    U = Universe()
                    for t, body, rel in j["cfg"]["txs"]:
                        U.add(t, body, rel)
                    cases.append({"ops": j["ops"], "cfg": j["cfg"], "U": U, "origin": "corpus/%s/%s" % (cd, f)})
    for U, ops in pattern_cases():
        cases.append({"ops": ops, "cfg": {"txs": U.cfg(), "delay": DELAY}, "U": U, "origin": "pattern"})
    n = 160 if tier == "quick" else 2500
    for i in range(n):
        r = rng.fork(7000 + i)
        U, ops = gen_case(r, r.range(6, 26))
        cases.append({"ops": ops, "cfg": {"txs": U.cfg(), "delay": DELAY}, "U": U})
    return cases


def suite(tier, rng, replay, monitors):
    cases = make_cases(tier, rng, replay)
    for c in cases:
        c["coq_ops"] = [coq_op(o, c["U"]) for o in c["ops"]]
        c.pop("U")
    s = Suite("txflow", "txflow", ["From V.model Require Import MemPool TxFlow TxFlowSpec."],
              [{"key": "txflow", "cases": cases, "model": "cmp_run (run %d)" % DELAY,
                "monitors": monitors}])
    return s


CODES = {
    101: "C07 safe and unsafe both set", 102: "C07 cancelled without unsafe", 103: "C07/C05 safe after unsafe",
    111: "C03 delivery of a tx the step does not carry", 112: "C03 non-matching tx delivered",
    113: "C03 delivered as new twice", 114: "C03 spent outputs wrong", 115: "C03 update for undelivered tx",
    121: "C07 safe reported twice", 122: "C07 safe without trusted vouching", 123: "C07 safe despite known conflict",
    124: "C07 safe before delay", 125: "C07 safe for untracked tx", 126: "C07 safe on arrival (not local)",
    131: "C03 delivery before in sync", 141: "C05 new conflicting tx not unsafe", 142: "C05 earlier conflicting tx not reported unsafe",
    143: "C03 matching tx not delivered", 144: "C05 re-seen delivered tx with new conflict not reported unsafe", 151: "C06 block not announced first", 152: "C06 losing tx not cancelled exactly once",
    153: "C03/C04/C11 block tx not notified with proof", 154: "C04 refused block delivered something",
    161: "C07 safe report while not in sync", 162: "C07 safe not reported when due", 171: "C11 delivered tx not fetchable",
    197: "trace length", 198: "tx step failed", 199: "undecodable observation",
}

PROPERTY_CODES = {
    "C03": {111, 112, 113, 114, 115, 131, 143, 153},
    "C05": {103, 141, 142, 144},
    "C06": {151, 152, 154},
    "C07": {101, 102, 103, 121, 122, 123, 124, 125, 126, 161, 162},
    "C11": {113, 121, 153, 171},
}


def keyfn(rec):
    code = (rec.get("expected") or [0])[0] if rec.get("checker") != "model" else 0
    ops = rec.get("ops", [])
    step = rec.get("step", 0)
    opn = ops[step][0] if 0 <= step < len(ops) else "?"
    return "txflow:%s:%s:%s" % (rec.get("checker"), code, opn)


def make_spec(pid, title_rule):
    MON = {"flow": "txflow_monitor %d" % DELAY,
           "hyp_valid": "fun ops _ => if flow_valid %d ops then None else Some (0, [900])" % DELAY}

    def suites(tier, rng, replay):
        return [suite(tier, rng, replay, MON)]

    mycodes = PROPERTY_CODES.get(pid, set())

    def accept(rec):
        if rec.get("checker") != "flow":
            return True
        code = (rec.get("expected") or [0])[0]
        return code in mycodes or code >= 197

    return {
        "pid": pid,
        "props_file": "props/%s.v" % pid,
        "suites": suites,
        "extra": lambda tier, rng, workdir: race_extra(tier, rng, workdir),
        "keyfn": lambda rc: race_key(rc) if rc.get("suite") == "txflow-race" else keyfn(rc),
        "trusted_base": [
            "Coq 8.16.1 kernel (coqc); vm_compute for evaluating model and monitors on the cases; no native_compute",
            "axioms: none declared; Print Assumptions recorded under print_assumptions",
            "hand-written model coq/model/TxFlow.v (+ MemPool.v) of processUnconfirmedTx / ProcessBlock / checkTxDelays / TxRepository / tx state store, tied to the code by the correspondence run on a real Node built in-package (real handlers, real ProcessBlock, the real checkTxDelays goroutine run for one period, ageing hooks for the clock)",
            "modelled, not verified: relevance is a boolean per tx (composition with the filter is C08), hashes are ids, the output fetcher answers in order, merkle tree library (C04), storage back end",
        ],
        "assumptions": ["atomicity at the granularity of processUnconfirmedTx / ProcessBlock / one delay-check iteration for the THEOREMS (the tx repository lock is held across ProcessBlock, the tx state lock across a delay-check iteration and its sending); the interleavings the code must exclude by those locks are replayed on the real code with pause points in the harness (race_delay: conflict between the delay check's read and write; race_send: conflict while the safe update is being sent; race_block_tx: the tx thread handles the tx message of a tx first seen in a block while ProcessBlock is in the middle of it); other interleavings are not explored",
                        "no reorganisation in these histories (reorgs are covered by the sync model)",
                        "wall-clock period of the delay checker (100 ms) is a runtime fact"],
        "rule": title_rule,
        "accept_failure": accept,
        "monitors": MON,
    }

# ---- goroutine races around the delay check (real code, pause points in the harness) ----
def parse_events(ob):
    """[1|2, txid, safe, unsafe, cancel, depth, proof, (n, outs...)]* -> list of dicts"""
    evs, i = [], 0
    while i < len(ob):
        k = ob[i]
        if k == 1:
            n = ob[i + 7]
            evs.append({"kind": 1, "t": ob[i + 1], "safe": ob[i + 2], "unsafe": ob[i + 3], "cancel": ob[i + 4]})
            i += 8 + n
        elif k == 2:
            evs.append({"kind": 2, "t": ob[i + 1], "safe": ob[i + 2], "unsafe": ob[i + 3], "cancel": ob[i + 4]})
            i += 7
        elif k == 3:
            i += 3
        else:
            i += 1
    return evs


def race_extra(tier, rng, workdir):
    """race_delay: the delay check has READ a tx state and is about to write it back when a conflicting tx arrives
    (pause point in the store).  race_send: the delay check is SENDING the safe update (the first handler is slow)
    when a conflicting tx arrives; what the second handler sees is judged.  In both the tx must never be reported
    safe after it was reported unsafe, nor safe and unsafe at once."""
    cfg = {"txs": [[1, [1000], 1], [2, [1000, 1001], 1], [3, [1001], 0]], "delay": DELAY}
    cases = []
    for opn in ("race_delay", "race_send"):
        for first, conflict, src in ((1, 2, 1), (1, 2, 0), (2, 1, 1), (2, 3, 1)):
            cases.append({"cfg": cfg, "ops": [["setinsync", 1], ["tx", first, 0], ["advance", 75000],
                                              [opn, first, conflict, src], ["unconf"], ["delaycheck"]]})
    results, _ = vlib.run_harness("txflow", cases, workdir, tag="race")
    failures = []
    reached = {"race_delay": 0, "race_send": 0}
    for c, r in zip(cases, results):
        ob = r[3]
        opn, t = c["ops"][3][0], c["ops"][3][1]
        reached[opn] += ob[1] if len(ob) > 1 else 0
        seen_unsafe = False
        for ev in parse_events(ob[2:]) + parse_events(r[5][1:]):
            if ev["t"] != t:
                continue
            if ev["safe"] and ev["unsafe"]:
                failures.append(race_rec(c, r, 3, 101, "safe and unsafe both set"))
                break
            if ev["unsafe"] or ev["cancel"]:
                seen_unsafe = True
            elif ev["safe"] and seen_unsafe:
                why = ("the delay check wrote back a stale copy of the state" if opn == "race_delay" else
                       "the delay check's safe update was still being sent (not under the tx state lock) when the conflict was reported")
                failures.append(race_rec(c, r, 3, 103, "tx %d reported safe after it was reported unsafe: %s" % (t, why)))
                break
    # the tx message of a tx first seen in a block, handled by the tx thread while ProcessBlock is in the middle of
    # that tx: it must be delivered as new at most once, keep its confirmation, and not stay in the unconfirmed set
    bcfg = {"txs": [[1, [1000], 1], [2, [1001], 1], [3, [1002], 0], [4, [1003], 1]], "delay": DELAY}
    bcases, twins = [], []
    for txids, t, src in (([1], 1, 0), ([3, 1, 2], 1, 1), ([2, 3, 4], 4, 0), ([4, 2], 2, 1)):
        tail = [["unconf"], ["tx", t, 0], ["unconf"], ["block", 2, 1, [], 1], ["unconf"]]
        bcases.append({"cfg": bcfg, "ops": [["setinsync", 1], ["race_block_tx", 1, 0, txids, t, src]] + tail})
        twins.append({"cfg": bcfg, "ops": [["setinsync", 1], ["block", 1, 0, txids, 1], ["tx", t, src]] + tail})
    bres, _ = vlib.run_harness("txflow", bcases + twins, workdir, tag="blockrace")
    breached = 0
    for c, r, tw in zip(bcases, bres[:len(bcases)], bres[len(bcases):]):
        ob = r[1]
        t = c["ops"][1][4]
        breached += ob[1] if len(ob) > 1 else 0
        evs = parse_events(ob[4:])
        news = [e for e in evs if e["t"] == t and e["kind"] == 1]
        later = [e for op, o in zip(c["ops"][2:], r[2:]) if op[0] in ("tx", "block") and o and o[0] == 0
                 for e in parse_events(o[1:]) if e["t"] == t and e["kind"] == 1]
        if ob[0] != 0 or ob[2] != 0 or ob[3] != 0:
            failures.append(race_rec(c, r, 1, 105, "block / tx-thread race: an operation failed or got stuck (%s)" % ob[:4]))
        elif len(news) + len(later) > 1:
            failures.append(race_rec(c, r, 1, 104, "tx %d first seen in a block was delivered as new %d times: the tx thread handled "
                                     "its tx message while ProcessBlock was in the middle of it" % (t, len(news) + len(later))))
        elif [o for o in r[2:]] != [o for o in tw[3:]]:
            failures.append(race_rec(c, r, 1, 106, "after the block / tx-thread race the node differs from 'block, then tx message' "
                                     "(unconfirmed set / later notifications): %s instead of %s" % (r[2:], tw[3:])))
    return {"failures": failures, "evaluations": len(cases) + len(bcases),
            "coverage": {"rmw_race_scenarios": len(cases), "rmw_race_pause_point_reached": reached["race_delay"],
                         "send_race_pause_point_reached": reached["race_send"],
                         "block_tx_race_scenarios": len(bcases), "block_tx_race_pause_point_reached": breached}}


def race_rec(c, r, step, code, what):
    return {"suite": "txflow-race", "checker": "race", "step": step, "expected": [code], "observed": r[step], "cfg": c["cfg"],
            "ops": c["ops"], "trace": r, "what": what}


def race_key(rc):
    ops = rc.get("ops") or []
    st = rc.get("step", 3)
    opn = ops[st][0] if len(ops) > st else "race_delay"
    return "txflow:race:%s:%s" % ((rc.get("expected") or [0])[0], opn)
