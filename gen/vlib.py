"""Shared machinery of /verif checks: harness build (overlay), Coq build and evaluation,
evidence writing, known-findings handling.  Python 3 standard library only."""
import fcntl
import hashlib
import json
import os
import re
import subprocess
import sys
import time

VERIF = os.path.dirname(os.path.dirname(os.path.abspath(__file__)))
REPO = os.environ.get("VERIF_REPO", "/repo")
WORK = os.environ.get("VERIF_WORK") or os.path.join(VERIF, "work")
COQ = os.environ.get("VERIF_COQ") or os.path.join(VERIF, "coq")
EVIDENCE = os.environ.get("VERIF_EVIDENCE_DIR") or os.path.join(VERIF, "evidence")
OVERLAY_SRC = os.path.join(VERIF, "harness", "overlay")

GOENV = dict(os.environ, GOFLAGS="-mod=mod", GOPROXY="off", GOSUMDB="off", GOTOOLCHAIN="local",
             CGO_ENABLED="0")


def log(*a):
    print(*a, file=sys.stderr, flush=True)


class Lock:
    def __init__(self, name):
        os.makedirs(WORK, exist_ok=True)
        self.path = os.path.join(WORK, name + ".lock")

    def __enter__(self):
        self.f = open(self.path, "w")
        fcntl.flock(self.f, fcntl.LOCK_EX)
        return self

    def __exit__(self, *a):
        fcntl.flock(self.f, fcntl.LOCK_UN)
        self.f.close()


# ------------------------------------------------------------------------------------------------
# repository state

def repo_digest():
    """Digest of /repo's current working tree (HEAD + diff + untracked go files)."""
    h = hashlib.sha256()
    head = subprocess.run(["git", "-C", REPO, "rev-parse", "HEAD"], capture_output=True, text=True).stdout.strip()
    h.update(head.encode())
    diff = subprocess.run(["git", "-C", REPO, "diff", "HEAD"], capture_output=True).stdout
    h.update(diff)
    untracked = subprocess.run(["git", "-C", REPO, "ls-files", "--others", "--exclude-standard"],
                               capture_output=True, text=True).stdout.split()
    for f in sorted(untracked):
        h.update(f.encode())
        try:
            h.update(open(os.path.join(REPO, f), "rb").read())
        except OSError:
            pass
    return head[:12], h.hexdigest()[:16], bool(diff.strip() or untracked)


# ------------------------------------------------------------------------------------------------
# harness

class BuildError(Exception):
    pass


def build_harness():
    """Build the harness from /repo's *current working tree* with the overlay.  Cached by digest."""
    with Lock("harness"):
        os.makedirs(os.path.join(WORK, "bin"), exist_ok=True)
        overlay = {}
        hsh = hashlib.sha256()
        for root, _, files in os.walk(OVERLAY_SRC):
            for f in sorted(files):
                if not f.endswith(".go"):
                    continue
                src = os.path.join(root, f)
                rel = os.path.relpath(src, OVERLAY_SRC)
                dst = os.path.join(REPO, rel)
                if os.path.exists(dst):
                    raise BuildError("overlay target exists in repo: " + dst)
                overlay[dst] = src
                hsh.update(rel.encode())
                hsh.update(open(src, "rb").read())
        head, dig, _ = repo_digest()
        hsh.update(dig.encode())
        stamp = hsh.hexdigest()
        binpath = os.path.join(WORK, "bin", "verifharness" + ("" if REPO == "/repo" else "-" + hashlib.sha256(REPO.encode()).hexdigest()[:8]))
        stampf = binpath + ".stamp"
        if os.path.exists(binpath) and os.path.exists(stampf) and open(stampf).read() == stamp:
            return binpath
        ov = os.path.join(WORK, "overlay%s.json" % ("" if REPO == "/repo" else "-" + hashlib.sha256(REPO.encode()).hexdigest()[:8]))
        json.dump({"Replace": overlay}, open(ov, "w"), indent=1)
        t0 = time.time()
        p = subprocess.run(["go", "build", "-tags", "verif", "-overlay", ov, "-o", binpath,
                            "./internal/verifharness"], cwd=REPO, env=GOENV, capture_output=True, text=True)
        if p.returncode != 0:
            if os.path.exists(stampf):
                os.remove(stampf)
            raise BuildError(p.stdout + p.stderr)
        open(stampf, "w").write(stamp)
        log("harness built in %.1fs" % (time.time() - t0))
        return binpath


def run_harness(component, cases, workdir, tag="req", timeout=600, env=None):
    """cases: list of {"cfg":{}, "ops":[...]} -> list of list of observations (list of ints)."""
    binpath = build_harness()
    os.makedirs(workdir, exist_ok=True)
    reqf = os.path.join(workdir, tag + ".json")
    respf = os.path.join(workdir, tag + ".resp.json")
    json.dump({"component": component, "cases": cases}, open(reqf, "w"))
    if os.path.exists(respf):
        os.remove(respf)
    e = dict(os.environ)
    if env:
        e.update(env)
    p = subprocess.run([binpath, reqf, respf], capture_output=True, text=True, timeout=timeout, env=e)
    if p.returncode != 0 or not os.path.exists(respf):
        se = p.stderr or ""
        raise BuildError("harness run failed (%s, exit %s): %s%s" % (component, p.returncode, se[:1500],
                                                                     ("\n...\n" + se[-1200:]) if len(se) > 2700 else se[1500:]))
    err = [l for l in p.stderr.splitlines() if l.startswith("harness panic")]
    if err:
        raise BuildError("harness fault: " + "\n".join(err[:5]) + p.stderr[-3000:])
    resp = json.load(open(respf))
    return resp["results"], resp.get("extra")


# ------------------------------------------------------------------------------------------------
# Coq

COQ_DIRS = [("lib", "V.lib"), ("model", "V.model"), ("proofs", "V.proofs"), ("props", "V.props"), ("gen", "V.gen")]


def coq_flags(extra_dir=None):
    fl = []
    for d, ns in COQ_DIRS:
        fl += ["-Q", os.path.join(COQ, d), ns]
    if extra_dir:
        fl += ["-Q", extra_dir, "V.cases"]
    return fl


def coq_make(targets=None, timeout=3000):
    """Full .vo build (never -vos) of the development under flock.  Returns (ok, output)."""
    with Lock("coq"):
        proj = os.path.join(COQ, "_CoqProject")
        vfiles = []
        for d, ns in COQ_DIRS:
            dd = os.path.join(COQ, d)
            if os.path.isdir(dd):
                vfiles += sorted(os.path.join(d, f) for f in os.listdir(dd) if f.endswith(".v"))
        content = "".join("-Q %s %s\n" % (d, ns) for d, ns in COQ_DIRS) + "\n".join(vfiles) + "\n"
        if not os.path.exists(proj) or open(proj).read() != content:
            open(proj, "w").write(content)
            subprocess.run(["coq_makefile", "-f", "_CoqProject", "-o", "Makefile"], cwd=COQ, check=True,
                           capture_output=True)
        if not os.path.exists(os.path.join(COQ, "Makefile")):
            subprocess.run(["coq_makefile", "-f", "_CoqProject", "-o", "Makefile"], cwd=COQ, check=True,
                           capture_output=True)
        cmd = ["timeout", str(timeout), "make", "-j16", "-k"] + (targets or [])
        t0 = time.time()
        p = subprocess.run(cmd, cwd=COQ, capture_output=True, text=True)
        out = p.stdout + p.stderr
        log("coq make %s: rc=%d in %.1fs" % (" ".join(targets or ["all"]), p.returncode, time.time() - t0))
        return p.returncode == 0, out


def coq_failed_files(out):
    """Names of .v files whose compilation failed, from make -k output."""
    bad = set()
    for m in re.finditer(r'File "\./([^"]+\.v)", line (\d+)', out):
        bad.add(m.group(1))
    for m in re.finditer(r"\*\*\* \[[^\]]*?: ([^\s\]]+)\.vo\]", out):
        bad.add(m.group(1) + ".v")
    return sorted(bad)


def coq_run(vfile, workdir, timeout=1200):
    """Compile one generated .v (cases) and return its stdout."""
    p = subprocess.run(["timeout", str(timeout), "coqc"] + coq_flags() + [vfile], cwd=workdir,
                       capture_output=True, text=True)
    return p.returncode, p.stdout, p.stderr


def parse_coq_value(text):
    """Parse the value printed by `Eval vm_compute in e.` / `Print x.` when it is built from Z
    numerals, lists, tuples, booleans.  Returns nested Python lists."""
    m = re.search(r"=\s*(.*)\n\s*:\s", text, re.S)
    if not m:
        raise ValueError("no value in coq output: " + text[:300])
    s = m.group(1)
    s = s.replace("%Z", "").replace("%N", "").replace("%nat", "")
    s = re.sub(r"\s+", " ", s)
    toks = re.findall(r"-?\d+|[\[\]();,]|true|false", s)
    pos = 0

    def parse():
        nonlocal pos
        t = toks[pos]
        if t == "[":
            pos += 1
            items = []
            while toks[pos] != "]":
                items.append(parse())
                if toks[pos] == ";":
                    pos += 1
            pos += 1
            return items
        if t == "(":
            pos += 1
            items = []
            while toks[pos] != ")":
                items.append(parse())
                if toks[pos] == ",":
                    pos += 1
            pos += 1
            return items[0] if len(items) == 1 else tuple(items)
        pos += 1
        if t == "true":
            return True
        if t == "false":
            return False
        return int(t)

    return parse()


def zlist(xs):
    return "[" + "; ".join(z(x) for x in xs) + "]"


def z(x):
    x = int(x)
    return "(%d)" % x if x < 0 else str(x)


# ------------------------------------------------------------------------------------------------
# known findings

def load_findings():
    """known_findings.txt lines:
         finding: property=<id> key=<stable key> <what fails>
         fixed: property=<id> <commit> <what failed>
       Only 'finding:' lines suppress anything."""
    res = []
    path = os.path.join(VERIF, "known_findings.txt")
    if not os.path.exists(path):
        return res
    for line in open(path):
        line = line.strip()
        m = re.match(r"finding:\s+property=(\S+)\s+key=(\S+)\s+(.*)", line)
        if m:
            res.append({"property": m.group(1), "key": m.group(2), "text": m.group(3)})
    return res


# ------------------------------------------------------------------------------------------------
# evidence

def write_evidence(pid, tier, seed, coverage, wall_s, violations, assumptions, level="proof"):
    os.makedirs(EVIDENCE, exist_ok=True)
    head, dig, dirty = repo_digest()
    coverage = dict(coverage)
    coverage["repo_head"] = head
    coverage["repo_tree_digest"] = dig
    coverage["repo_dirty"] = dirty
    ev = {
        "property_id": pid,
        "tier": tier,
        "seed": int(seed),
        "level": level,
        "coverage": coverage,
        "assumptions": assumptions,
        "wall_s": round(wall_s, 2),
        "violations": int(violations),
    }
    path = os.path.join(EVIDENCE, pid + ".json")
    tmp = path + ".tmp.%d" % os.getpid()
    json.dump(ev, open(tmp, "w"), indent=1, sort_keys=True)
    os.replace(tmp, path)
    return path


class Rng:
    """Deterministic PRNG (splitmix64) so that every random choice derives from VERIF_SEED."""

    def __init__(self, seed):
        self.s = (int(seed) * 0x9E3779B97F4A7C15 + 0x1234567) & (2 ** 64 - 1)

    def next(self):
        self.s = (self.s + 0x9E3779B97F4A7C15) & (2 ** 64 - 1)
        zz = self.s
        zz = ((zz ^ (zz >> 30)) * 0xBF58476D1CE4E5B9) & (2 ** 64 - 1)
        zz = ((zz ^ (zz >> 27)) * 0x94D049BB133111EB) & (2 ** 64 - 1)
        return zz ^ (zz >> 31)

    def below(self, n):
        return self.next() % n if n > 0 else 0

    def range(self, a, b):
        """inclusive"""
        return a + self.below(b - a + 1)

    def choice(self, xs):
        return xs[self.below(len(xs))]

    def chance(self, num, den):
        return self.below(den) < num

    def weighted(self, pairs):
        tot = sum(w for _, w in pairs)
        r = self.below(tot)
        for x, w in pairs:
            if r < w:
                return x
            r -= w
        return pairs[-1][0]

    def shuffle(self, xs):
        xs = list(xs)
        for i in range(len(xs) - 1, 0, -1):
            j = self.below(i + 1)
            xs[i], xs[j] = xs[j], xs[i]
        return xs

    def fork(self, k):
        return Rng(self.next() ^ (k * 0x5851F42D4C957F2D))


# ------------------------------------------------------------------------------------------------
# translator

def run_translator():
    """Builds the translator and regenerates coq/gen/*.v from /repo's current working tree."""
    with Lock("translator"):
        os.makedirs(os.path.join(WORK, "bin"), exist_ok=True)
        binpath = os.path.join(WORK, "bin", "veriftranslator")
        src = os.path.join(VERIF, "translator")
        newest = max(os.path.getmtime(os.path.join(src, f)) for f in os.listdir(src))
        if not os.path.exists(binpath) or os.path.getmtime(binpath) < newest:
            p = subprocess.run(["go", "build", "-o", binpath, "."], cwd=src, env=GOENV, capture_output=True, text=True)
            if p.returncode != 0:
                raise BuildError("translator build: " + p.stdout + p.stderr)
        p = subprocess.run([binpath, "-repo", REPO, "-out", os.path.join(COQ, "gen"), "-work", WORK], capture_output=True, text=True)
        if p.returncode != 0:
            raise BuildError("translator: " + p.stdout + p.stderr)
