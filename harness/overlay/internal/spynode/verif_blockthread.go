//go:build verif

package spynode

import (
	"context"
	"time"
)

// The REAL block processing goroutine (processBlocks) for the verification harness.  Node.Run starts it
// once per connection; it has no memory between two iterations, so the harness lets it run whenever the
// schedule says "the block thread gets its turn" and parks it in between by ending it the way the end
// of a connection does (node.stopping) - and remembers when it ended ON ITS OWN (processBlocks returned
// although the node was not stopping): then it is gone for the rest of the connection, as in Run.
// processBlocks pops a block with state.NextBlock and then calls ProcessBlock, which takes
// node.blockLock first: whoever holds node.blockLock keeps the thread between the pop and the parent
// check.  (add-only, compiled only with -tags verif)

type VerifBlockThread struct {
	node *Node
	done chan struct{}
	held bool
}

// VerifStartBlockThread starts processBlocks.  With hold the block lock is taken first and the call
// returns once the thread has popped the block at the head of the request queue (popped reports that).
func (node *Node) VerifStartBlockThread(ctx context.Context, hold bool) (bt *VerifBlockThread, popped bool) {
	bt = &VerifBlockThread{node: node, done: make(chan struct{})}
	before := node.state.BlocksRequestedCount()
	ready := node.state.VerifHeadReady()
	if hold {
		node.blockLock.Lock()
		bt.held = true
	}
	go func() {
		node.processBlocks(ctx)
		close(bt.done)
	}()
	if hold && ready {
		for i := 0; i < 2000; i++ {
			if node.state.BlocksRequestedCount() < before {
				time.Sleep(3 * time.Millisecond) // let it reach the lock
				return bt, true
			}
			time.Sleep(time.Millisecond)
		}
	}
	return bt, false
}

// Alive: processBlocks has not returned.
func (bt *VerifBlockThread) Alive() bool {
	select {
	case <-bt.done:
		return false
	default:
		return true
	}
}

func (bt *VerifBlockThread) Release() {
	if bt.held {
		bt.held = false
		bt.node.blockLock.Unlock()
	}
}

// waitIdle: no delivered block at the head of the queue and the thread outside ProcessBlock, observed
// ten times in a row (a thread that has ended is idle).
func (bt *VerifBlockThread) waitIdle() {
	node := bt.node
	idle := 0
	for i := 0; i < 5000 && idle < 10; i++ {
		if !bt.Alive() {
			return
		}
		if !node.state.VerifHeadReady() && node.blockLock.TryLock() {
			node.blockLock.Unlock()
			idle++
		} else {
			idle = 0
		}
		time.Sleep(time.Millisecond)
	}
}

// Finish releases the thread if it is held, lets it run until it has nothing to do and parks it.
// Returns true when processBlocks had returned on its own (the thread is gone for this connection).
func (bt *VerifBlockThread) Finish() (ended bool) {
	bt.Release()
	bt.waitIdle()
	ended = !bt.Alive()
	node := bt.node
	node.lock.Lock()
	node.stopping = true
	node.lock.Unlock()
	<-bt.done
	node.lock.Lock()
	node.stopping = false
	node.lock.Unlock()
	return ended
}
