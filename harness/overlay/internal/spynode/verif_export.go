//go:build verif

package spynode

import (
	internalStorage "github.com/tokenized/spynode/internal/storage"
)

// Accessors for the verification harness (add-only, compiled only with -tags verif).

func (node *Node) VerifBlocks() *internalStorage.BlockRepository { return node.blocks }

// VerifPushDataHashes returns a copy of the subscription list.
func (node *Node) VerifPushDataHashes() [][]byte {
	node.pushDataLock.Lock()
	defer node.pushDataLock.Unlock()
	r := make([][]byte, 0, len(node.pushDataHashes))
	for _, h := range node.pushDataHashes {
		c := make([]byte, len(h))
		copy(c, h[:])
		r = append(r, c)
	}
	return r
}
