//go:build verif

package spynode

import (
	internalStorage "github.com/tokenized/spynode/internal/storage"
)

// Accessors for the verification harness (add-only, compiled only with -tags verif).

func (node *Node) VerifBlocks() *internalStorage.BlockRepository { return node.blocks }
