//go:build verif

package spynode

import (
	"context"
	"time"

	"github.com/tokenized/pkg/wire"
	"github.com/tokenized/spynode/internal/handlers"
	"github.com/tokenized/spynode/internal/state"
	internalStorage "github.com/tokenized/spynode/internal/storage"
)

// Accessors for the verification harness (add-only, compiled only with -tags verif).

func (node *Node) VerifBlocks() *internalStorage.BlockRepository { return node.blocks }

// VerifPushDataHashes returns a copy of the subscription list.
func (node *Node) VerifPushDataHashes() [][]byte {
	node.pushDataLock.Lock()
	defer node.pushDataLock.Unlock()
	r := make([][]byte, 0, len(node.pushDataHashes))
	for _, h := range node.pushDataHashes {
		c := make([]byte, len(h))
		copy(c, h[:])
		r = append(r, c)
	}
	return r
}

// ---- node internals for the transaction / sync harness ----

func (node *Node) VerifLoad(ctx context.Context) error { return node.load(ctx) }

func (node *Node) VerifState() *state.State                       { return node.state }
func (node *Node) VerifMemPool() *state.MemPool                   { return node.memPool }
func (node *Node) VerifTxTracker() *state.TxTracker               { return node.txTracker }
func (node *Node) VerifTxs() *internalStorage.TxRepository        { return node.txs }
func (node *Node) VerifPeers() *internalStorage.PeerRepository    { return node.peers }
func (node *Node) VerifReorgs() *internalStorage.ReorgRepository  { return node.reorgs }
func (node *Node) VerifHandlers() map[string]handlers.MessageHandler { return node.messageHandlers }
func (node *Node) VerifTxChannel() *handlers.TxChannel            { return &node.unconfTxChannel }
func (node *Node) VerifOutgoing() *MessageChannel                 { return &node.outgoing }

// VerifDrainTxs processes every queued unconfirmed tx like processUnconfirmedTxs does.
func (node *Node) VerifDrainTxs(ctx context.Context) error {
	for {
		select {
		case tx := <-node.unconfTxChannel.Channel:
			if err := node.processUnconfirmedTx(ctx, tx); err != nil {
				return err
			}
		default:
			return nil
		}
	}
}

// VerifDelayCheck runs the real checkTxDelays goroutine for a little more than one period.
func (node *Node) VerifDelayCheck(ctx context.Context) {
	done := make(chan struct{})
	go func() {
		node.checkTxDelays(ctx)
		close(done)
	}()
	time.Sleep(320 * time.Millisecond)
	node.lock.Lock()
	node.stopping = true
	node.lock.Unlock()
	<-done
	node.lock.Lock()
	node.stopping = false
	node.lock.Unlock()
}

func (node *Node) VerifCheck(ctx context.Context) error { return node.check(ctx) }

func (node *Node) VerifHandleMessage(ctx context.Context, msg wire.Message) error {
	return node.handleMessage(ctx, msg)
}

// VerifProcessOne is one iteration of processBlocks (without the refeeder): the same calls in the
// same order.  Returns the popped block (nil when none), the error of ProcessBlock and whether the
// loop would have exited.
func (node *Node) VerifProcessOne(ctx context.Context) (wire.Block, error) {
	block := node.state.NextBlock()
	if block == nil {
		return nil, nil
	}
	err := node.ProcessBlock(ctx, block)
	node.state.BlockProcessed()
	getBlocks := wire.NewMsgGetData()
	for {
		requestHash, _ := node.state.GetNextBlockToRequest()
		if requestHash == nil {
			break
		}
		getBlocks.AddInvVect(wire.NewInvVect(wire.InvTypeBlock, requestHash))
	}
	if len(getBlocks.InvList) > 0 {
		node.queueOutgoing(getBlocks)
	}
	return block, err
}

// VerifProcessAll runs the real processBlocks goroutine until no buffered block is ready.
func (node *Node) VerifProcessAll(ctx context.Context) {
	done := make(chan struct{})
	go func() {
		node.processBlocks(ctx)
		close(done)
	}()
	idle := 0
	for idle < 4 {
		time.Sleep(10 * time.Millisecond)
		if node.state.VerifHeadReady() {
			idle = 0
		} else {
			idle++
		}
	}
	node.lock.Lock()
	node.stopping = true
	node.lock.Unlock()
	<-done
	node.lock.Lock()
	node.stopping = false
	node.lock.Unlock()
}

// ---- untrusted nodes (C14 / C12) ----

// VerifNewUntrusted builds an untrusted node like monitorUntrustedNodes does, wires its handlers like
// UntrustedNode.Run does, marks it verified and registers it with the node - without a connection.
func (node *Node) VerifNewUntrusted(ctx context.Context, address string) *UntrustedNode {
	un := NewUntrustedNode(address, node.config, node.state, node.store, node.peers, node.blocks, node.txs,
		node.memPool, &node.unconfTxChannel, node.handlers, node, false)
	un.messageHandlers = handlers.NewUntrustedMessageHandlers(ctx, un.trustedState, un.untrustedState, un.peers,
		un.blocks, un.txTracker, un.memPool, un.txChannel, un.isRelevant, un.address)
	un.outgoing.Open(1000)
	un.active = true
	st := un.untrustedState
	st.SetVersionReceived()
	st.SetHandshakeComplete()
	st.SetVerified()
	st.SetScoreUpdated()
	st.SetAddressesRequested()
	st.SetMemPoolRequested()
	node.untrustedLock.Lock()
	node.untrustedNodes = append(node.untrustedNodes, un)
	node.untrustedLock.Unlock()
	return un
}

func (un *UntrustedNode) VerifHandle(ctx context.Context, msg wire.Message) error {
	return un.handleMessage(ctx, msg)
}
func (un *UntrustedNode) VerifCheck(ctx context.Context) error { return un.check(ctx) }
func (un *UntrustedNode) VerifTracker() *state.TxTracker       { return un.txTracker }
func (un *UntrustedNode) VerifDrainOutgoing() []wire.Message {
	var r []wire.Message
	for {
		select {
		case m := <-un.outgoing.Channel:
			r = append(r, m)
		default:
			return r
		}
	}
}

// VerifFillOutgoing fills the untrusted node's outgoing channel to its capacity: what a peer that has stopped
// reading its socket causes (sendOutgoing stuck in the socket write, nobody takes from the channel).
func (un *UntrustedNode) VerifFillOutgoing() int {
	n := 0
	for len(un.outgoing.Channel) < cap(un.outgoing.Channel) {
		un.outgoing.Channel <- wire.NewMsgPing(uint64(n))
		n++
	}
	return n
}
