//go:build verif

package spynode

import (
	"context"

	"github.com/tokenized/pkg/wire"
)

// VerifProvideBlock runs the refeed path (provideBlock) on a block at the given height (property C04,
// probe of reading note D16; add-only, compiled only with -tags verif).
func (node *Node) VerifProvideBlock(ctx context.Context, block wire.Block, height int) error {
	return node.provideBlock(ctx, block, height)
}
