//go:build verif

package spynode

import (
	"sync/atomic"
	"time"
)

// Read-only views of the shutdown protocol's flags and thread counters (property C19; add-only,
// compiled only with -tags verif).

// VerifCounts returns incomingCount, processingCount, untrustedCount.
func (node *Node) VerifCounts() (int64, int64, int64) {
	return int64(atomic.LoadUint32(&node.incomingCount)), int64(atomic.LoadUint32(&node.processingCount)),
		int64(atomic.LoadUint32(&node.untrustedCount))
}

// VerifFlags returns stopping, stopped, needsRestart.
func (node *Node) VerifFlags() (bool, bool, bool) {
	node.lock.Lock()
	defer node.lock.Unlock()
	return node.stopping, node.stopped, node.needsRestart
}

// VerifConnNil: Run has closed and cleared the trusted connection (it is inside its phased shutdown).
func (node *Node) VerifConnNil() bool {
	node.lock.Lock()
	defer node.lock.Unlock()
	return node.connection == nil
}

// VerifUntrusted builds an untrusted node exactly like addUntrustedNode does (real constructor, real
// configuration and repositories of this node); the caller runs its real Run / Stop.
func (node *Node) VerifUntrusted(address string) *UntrustedNode {
	return NewUntrustedNode(address, node.config, node.state, node.store, node.peers, node.blocks, node.txs,
		node.memPool, &node.unconfTxChannel, node.handlers, node, false)
}

// VerifOutgoing returns fill and capacity of the untrusted node's outgoing queue.
func (un *UntrustedNode) VerifOutgoing() (int, int) {
	un.outgoing.lock.Lock()
	ch := un.outgoing.Channel
	un.outgoing.lock.Unlock()
	return len(ch), cap(ch)
}

// VerifOutgoingFill reads the fill without the queue's mutex (a producer blocked in Add holds it).
func (un *UntrustedNode) VerifOutgoingFill() (int, int) {
	ch := un.outgoing.Channel
	return len(ch), cap(ch)
}

// VerifCounts returns the untrusted node's incomingCount and processingCount.
func (un *UntrustedNode) VerifCounts() (int64, int64) {
	return int64(atomic.LoadUint32(&un.incomingCount)), int64(atomic.LoadUint32(&un.processingCount))
}

// VerifDrainOutgoingFor empties the outgoing queue for d (test harness only: ends a hung scenario).
func (un *UntrustedNode) VerifDrainOutgoingFor(d time.Duration) int {
	ch := un.outgoing.Channel
	n := 0
	deadline := time.Now().Add(d)
	for time.Now().Before(deadline) {
		select {
		case _, ok := <-ch:
			if !ok {
				return n
			}
			n++
		default:
			time.Sleep(5 * time.Millisecond)
		}
	}
	return n
}

// VerifScanning: scan() has set its flag (unsynchronised read, like the code's own use of the flag).
func (node *Node) VerifScanning() bool { return node.scanning }

// VerifUntrustedAddresses returns the addresses in the node's untrusted list, or ok = false when
// untrustedLock could not be taken (the monitor holds it, for instance while it waits in IsActive for a dial).
func (node *Node) VerifUntrustedAddresses() ([]string, bool) {
	if !node.untrustedLock.TryLock() {
		return nil, false
	}
	defer node.untrustedLock.Unlock()
	r := make([]string, 0, len(node.untrustedNodes))
	for _, u := range node.untrustedNodes {
		r = append(r, u.address)
	}
	return r, true
}
