//go:build verif

package spynode

import "sync/atomic"

// Read-only views of the shutdown protocol's flags and thread counters (property C19; add-only,
// compiled only with -tags verif).

// VerifCounts returns incomingCount, processingCount, untrustedCount.
func (node *Node) VerifCounts() (int64, int64, int64) {
	return int64(atomic.LoadUint32(&node.incomingCount)), int64(atomic.LoadUint32(&node.processingCount)),
		int64(atomic.LoadUint32(&node.untrustedCount))
}

// VerifFlags returns stopping, stopped, needsRestart.
func (node *Node) VerifFlags() (bool, bool, bool) {
	node.lock.Lock()
	defer node.lock.Unlock()
	return node.stopping, node.stopped, node.needsRestart
}
