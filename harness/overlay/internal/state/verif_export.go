//go:build verif

package state

import (
	"time"

	"github.com/tokenized/pkg/bitcoin"
)

// Accessors and ageing hooks for the verification harness (add-only, -tags verif).

func (state *State) VerifPendingBlockSize() int {
	state.lock.Lock()
	defer state.lock.Unlock()
	return state.pendingBlockSize
}

func (state *State) VerifRequested() []bitcoin.Hash32 {
	state.lock.Lock()
	defer state.lock.Unlock()
	var r []bitcoin.Hash32
	for _, b := range state.blocksRequested {
		r = append(r, b.hash)
	}
	return r
}

func (state *State) VerifToRequest() []bitcoin.Hash32 {
	state.lock.Lock()
	defer state.lock.Unlock()
	r := make([]bitcoin.Hash32, len(state.blocksToRequest))
	copy(r, state.blocksToRequest)
	return r
}

// VerifAge shifts every stored timestamp of the state back by d (stands for the clock advancing).
func (state *State) VerifAge(d time.Duration) {
	state.lock.Lock()
	defer state.lock.Unlock()
	if state.connectedTime != nil {
		t := state.connectedTime.Add(-d)
		state.connectedTime = &t
	}
	if state.headersRequested != nil {
		t := state.headersRequested.Add(-d)
		state.headersRequested = &t
	}
	for _, b := range state.blocksRequested {
		b.time = b.time.Add(-d)
	}
}

func (state *State) VerifLastSaved() bitcoin.Hash32 {
	state.lock.Lock()
	defer state.lock.Unlock()
	return state.lastSavedHash
}

// ---- MemPool ----

// VerifIndex returns the spender list of an outpoint hash (nil, false when absent).
func (memPool *MemPool) VerifIndex(outpointHash bitcoin.Hash32) ([]bitcoin.Hash32, bool) {
	memPool.mutex.Lock()
	defer memPool.mutex.Unlock()
	l, ok := memPool.inputs[outpointHash]
	if !ok {
		return nil, false
	}
	r := make([]bitcoin.Hash32, len(l))
	copy(r, l)
	return r, true
}

// VerifAge shifts the stored request and first-seen times back by d.
func (memPool *MemPool) VerifAge(d time.Duration) {
	memPool.mutex.Lock()
	defer memPool.mutex.Unlock()
	for k, t := range memPool.requests {
		memPool.requests[k] = t.Add(-d)
	}
	for _, tx := range memPool.txs {
		tx.time = tx.time.Add(-d)
	}
}

// ---- TxTracker ----

func (tracker *TxTracker) VerifHas(txid bitcoin.Hash32) bool {
	tracker.mutex.Lock()
	defer tracker.mutex.Unlock()
	_, ok := tracker.txids[txid]
	return ok
}

func (tracker *TxTracker) VerifList() []bitcoin.Hash32 {
	tracker.mutex.Lock()
	defer tracker.mutex.Unlock()
	r := make([]bitcoin.Hash32, 0, len(tracker.txids))
	for h := range tracker.txids {
		r = append(r, h)
	}
	return r
}

func (tracker *TxTracker) VerifAge(d time.Duration) {
	tracker.mutex.Lock()
	defer tracker.mutex.Unlock()
	for h, t := range tracker.txids {
		tracker.txids[h] = t.Add(-d)
	}
}

// VerifHeadReady: the first requested block has arrived (NextBlock would return it).
func (state *State) VerifHeadReady() bool {
	state.lock.Lock()
	defer state.lock.Unlock()
	return len(state.blocksRequested) > 0 && state.blocksRequested[0].block != nil
}
