//go:build verif

package storage

import (
	"sort"
	"time"

	"github.com/tokenized/pkg/bitcoin"
)

// Accessors and ageing hooks for the verification harness (add-only, -tags verif).

type VerifUnconfirmedTx struct {
	TxID    bitcoin.Hash32
	Time    time.Time
	Unsafe  bool
	Safe    bool
	Trusted bool
}

func (repo *TxRepository) VerifUnconfirmed() []VerifUnconfirmedTx {
	repo.unconfirmedLock.Lock()
	defer repo.unconfirmedLock.Unlock()
	r := make([]VerifUnconfirmedTx, 0, len(repo.unconfirmed))
	for h, tx := range repo.unconfirmed {
		r = append(r, VerifUnconfirmedTx{h, tx.time, tx.unsafe, tx.safe, tx.trusted})
	}
	sort.Slice(r, func(i, j int) bool { return r[i].TxID.String() < r[j].TxID.String() })
	return r
}

// VerifAge shifts the first-seen times of the unconfirmed set back by d.
func (repo *TxRepository) VerifAge(d time.Duration) {
	repo.unconfirmedLock.Lock()
	defer repo.unconfirmedLock.Unlock()
	for _, tx := range repo.unconfirmed {
		tx.time = tx.time.Add(-d)
	}
}
