//go:build verif

package storage

import (
	"bytes"
	"context"
	"io"
	"sort"

	"github.com/tokenized/pkg/bitcoin"
)

// Exported wrappers around the unexported stored-record parsers, for the "codec" harness component
// (add-only, -tags verif).  Nothing here changes behaviour; every function calls the real parser.

// Storage keys the repositories read.
func VerifCodecPeersPath() string       { return peersPath }
func VerifCodecUnconfirmedPath() string { return unconfirmedPath }
func VerifCodecReorgActivePath() string { return (&ReorgRepository{}).buildActivePath() }
func VerifCodecTxBlockPath(height int) string {
	return (&TxRepository{}).buildPath(height)
}

// VerifCodecPeers returns the peers in list order (as loaded).
func (repo *PeerRepository) VerifCodecPeers() []Peer {
	repo.mutex.Lock()
	defer repo.mutex.Unlock()
	r := make([]Peer, 0, len(repo.list))
	for _, p := range repo.list {
		r = append(r, *p)
	}
	return r
}

// VerifCodecUnconfirmedTx is a stored unconfirmed tx record.  TimeNano is time.UnixNano() of the
// parsed time, i.e. the stored millisecond count times 1e6 in wrapping int64 arithmetic.
type VerifCodecUnconfirmedTx struct {
	TxID     bitcoin.Hash32
	TimeNano int64
	Unsafe   bool
	Safe     bool
	Trusted  bool
}

// VerifCodecReadUnconfirmedTx is readUnconfirmedTx.
func VerifCodecReadUnconfirmedTx(r io.Reader, version uint8) (VerifCodecUnconfirmedTx, error) {
	txid, tx, err := readUnconfirmedTx(r, version)
	return VerifCodecUnconfirmedTx{txid, tx.time.UnixNano(), tx.unsafe, tx.safe, tx.trusted}, err
}

// VerifCodecUnconfirmedList returns the unconfirmed set sorted by txid bytes.
func (repo *TxRepository) VerifCodecUnconfirmedList() []VerifCodecUnconfirmedTx {
	repo.unconfirmedLock.Lock()
	defer repo.unconfirmedLock.Unlock()
	r := make([]VerifCodecUnconfirmedTx, 0, len(repo.unconfirmed))
	for h, tx := range repo.unconfirmed {
		r = append(r, VerifCodecUnconfirmedTx{h, tx.time.UnixNano(), tx.unsafe, tx.safe, tx.trusted})
	}
	sort.Slice(r, func(i, j int) bool { return bytes.Compare(r[i].TxID[:], r[j].TxID[:]) < 0 })
	return r
}

// VerifCodecReadBlock is TxRepository.readBlock.
func (repo *TxRepository) VerifCodecReadBlock(ctx context.Context, height int) ([]bitcoin.Hash32, error) {
	return repo.readBlock(ctx, height)
}
