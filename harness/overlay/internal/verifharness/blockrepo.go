//go:build verif

package main

import (
	"time"
	"context"
	"fmt"
	"strings"

	"github.com/tokenized/pkg/bitcoin"
	"github.com/tokenized/spynode/internal/platform/config"
	"github.com/tokenized/spynode/internal/spynode"
)

func init() { register("blockrepo", runBlockRepo) }

func testConfig() config.Config { return testConfigNet(bitcoin.MainNet) }

func testConfigNet(net bitcoin.Network) config.Config {
	startHash := "0000000000000000000000000000000000000000000000000000000000000000"
	cfg, err := config.NewConfig(net, true, "test", "Tokenized Test", startHash, 8,
		2000, 10, 10, 1000, true)
	if err != nil {
		panic(err)
	}
	return cfg
}

// runBlockRepo drives the real BlockRepository (through a real Node, for GetHeaders/BlockHash).
func runBlockRepo(c *Case) ([]Obs, any) {
	ctx := context.Background()
	// cfg.testnet: the node is configured for a test network (another genesis header, inserted by another branch of Load)
	testnet := cfgInt(c, "testnet", 0) != 0
	u := NewUniverseNet(testnet)
	store := NewVStore(cfgInt(c, "rm_err", 1) != 0)
	cfg := testConfig()
	if testnet {
		cfg = testConfigNet(bitcoin.TestNet)
	}
	node := spynode.NewNode(cfg, store, nil, nil)
	repo := node.VerifBlocks()
	if err := repo.Load(ctx); err != nil {
		panic(err)
	}
	var result []Obs
	crash := cfgInt(c, "crash", 0) != 0
	var snapshots [][]int64
	snapshot := func() {
		if !crash {
			return
		}
		var ids []int64
		for h := 0; h <= repo.LastHeight(); h++ {
			hash, err := repo.Hash(ctx, h)
			if err != nil {
				ids = append(ids, -66)
				continue
			}
			ids = append(ids, u.ID(hash))
		}
		snapshots = append(snapshots, ids)
	}
	snapshot()
	// the model's block 0 carries the main-net genesis time stamp: the test-net genesis time is reported as that
	normTime := func(t int64) int64 {
		if testnet && t == 1296688602 {
			return 1231006505
		}
		return t
	}
	nextTime := func(id int64) int64 { return 1300000000 + id*600 }
	for _, raw := range c.Ops {
		op := decodeOp(raw)
		obs := guard(func() Obs {
			switch op.Name {
			case "add": // id prev time
				h := u.Header(op.Int(0), op.Int(1), op.Int(2), nil)
				if err := repo.Add(ctx, h); err != nil {
					return Obs{ERR}
				}
				return Obs{OK}
			case "addn": // firstid n : extend the current tip by n fresh headers
				first, n := op.Int(0), op.Int(1)
				prev := u.ID(repo.LastHash())
				for i := int64(0); i < n; i++ {
					id := first + i
					h := u.Header(id, prev, nextTime(id), nil)
					if err := repo.Add(ctx, h); err != nil {
						return Obs{ERR, i}
					}
					prev = id
				}
				return Obs{OK}
			case "revert":
				if err := repo.Revert(ctx, int(op.Int(0))); err != nil {
					return Obs{ERR}
				}
				return Obs{OK}
			case "save":
				if err := repo.Save(ctx); err != nil {
					return Obs{ERR}
				}
				return Obs{OK}
			case "save_race_revert": // t : Save's storage write is in flight when Revert(t) is called by another goroutine
				paused, resume := store.ArmPause("blocks")
				sdone := make(chan error, 1)
				go func() { sdone <- repo.Save(ctx) }()
				reached := false
				var serr, rerr error
				select {
				case <-paused:
					reached = true
				case serr = <-sdone:
				case <-time.After(2 * time.Second):
				}
				store.DisarmPause()
				if !reached {
					rerr = repo.Revert(ctx, int(op.Int(0)))
					return Obs{OK, 0, b2i(serr != nil), b2i(rerr != nil)}
				}
				rdone := make(chan error, 1)
				go func() { rdone <- repo.Revert(ctx, int(op.Int(0))) }()
				got := false
				select {
				case rerr = <-rdone: // the revert ran to completion while the write was still in flight
					got = true
				case <-time.After(300 * time.Millisecond): // it waits for the save (the repository's mutex)
				}
				close(resume)
				serr = <-sdone
				if !got {
					rerr = <-rdone
				}
				return Obs{OK, 1, b2i(serr != nil), b2i(rerr != nil)}
			case "load": // restart: new node on the same storage
				node2 := spynode.NewNode(cfg, store, nil, nil)
				if err := node2.VerifBlocks().Load(ctx); err != nil {
					return Obs{ERR}
				}
				node = node2
				repo = node.VerifBlocks()
				return Obs{OK}
			case "load_fault": // j : restart whose j-th storage operation returns an error.  A Load that reports the
				// error means the process does not start: it is started again without a fault.  A Load that
				// succeeds is what the node then runs with.
				node2 := spynode.NewNode(cfg, store, nil, nil)
				store.FailAt = store.OpCount() + int(op.Int(0))
				err := node2.VerifBlocks().Load(ctx)
				fired := store.Failed
				store.FailAt = 0
				store.Failed = false
				if err != nil {
					node3 := spynode.NewNode(cfg, store, nil, nil)
					if err3 := node3.VerifBlocks().Load(ctx); err3 != nil {
						return Obs{ERR, b2i(fired), -1}
					}
					node = node3
					repo = node.VerifBlocks()
					return Obs{OK, b2i(fired), 0}
				}
				node = node2
				repo = node.VerifBlocks()
				return Obs{OK, b2i(fired), 1}
			case "revert_fault": // t j : Revert(t) during which the j-th storage operation returns an error; if the revert
				// reports the error it is tried again without a fault (the peer announces the fork again)
				if j := int(op.Int(1)); j > 0 {
					store.FailAt = store.OpCount() + j
				} else { // -j: the j-th write / remove of the revert
					store.FailAtMut = store.MutCount() - j
				}
				err := repo.Revert(ctx, int(op.Int(0)))
				fired := store.Failed
				store.FailAt, store.FailAtMut = 0, 0
				store.Failed = false
				if err != nil {
					if err2 := repo.Revert(ctx, int(op.Int(0))); err2 != nil {
						return Obs{ERR, b2i(fired), 2}
					}
					return Obs{OK, b2i(fired), 1}
				}
				return Obs{OK, b2i(fired), 0}
			case "reload": // Load on the SAME repository object (what a second Node.Run on one Node does)
				if err := repo.Load(ctx); err != nil {
					return Obs{ERR}
				}
				return Obs{OK}
			case "lastheight":
				return Obs{OK, int64(repo.LastHeight())}
			case "lasthash":
				return Obs{OK, u.ID(repo.LastHash())}
			case "contains":
				h := u.HashOf(op.Int(0))
				return Obs{OK, b2i(repo.Contains(&h))}
			case "height":
				h := u.HashOf(op.Int(0))
				height, ok := repo.Height(&h)
				if !ok {
					return Obs{OK, 0, 0}
				}
				return Obs{OK, 1, int64(height)}
			case "hash":
				h, err := repo.Hash(ctx, int(op.Int(0)))
				if err != nil {
					return Obs{ERR}
				}
				return Obs{OK, u.ID(h)}
			case "blockhash": // Node.BlockHash: -1 means tip
				h, err := node.BlockHash(ctx, int(op.Int(0)))
				if err != nil {
					return Obs{ERR}
				}
				return Obs{OK, u.ID(h)}
			case "time":
				t, err := repo.Time(ctx, int(op.Int(0)))
				if err != nil {
					return Obs{ERR}
				}
				return Obs{OK, normTime(int64(t))}
			case "nodetime":
				t, err := node.Time(ctx, int(op.Int(0)))
				if err != nil {
					return Obs{ERR}
				}
				return Obs{OK, normTime(int64(t))}
			case "header": // -1 means tip
				h, err := repo.Header(ctx, int(op.Int(0)))
				if err != nil {
					return Obs{ERR}
				}
				return Obs{OK, u.HeaderID(h), u.ID(&h.PrevBlock), normTime(int64(h.Timestamp))}
			case "getheaders": // height max -> request height, start height, ids
				hs, err := node.GetHeaders(ctx, int(op.Int(0)), int(op.Int(1)))
				if err != nil {
					return Obs{ERR}
				}
				o := Obs{OK, int64(hs.RequestHeight), int64(hs.StartHeight)}
				for _, h := range hs.Headers {
					o = append(o, u.HeaderID(h))
				}
				return o
			case "files": // stored block files: (index, header count) pairs
				o := Obs{OK}
				for _, k := range store.Keys() {
					if !strings.HasPrefix(k, "spynode/blocks/") {
						continue
					}
					var idx int64
					fmt.Sscanf(strings.TrimPrefix(k, "spynode/blocks/"), "%x", &idx)
					b, _ := store.Get(k)
					o = append(o, idx, int64(len(b)/80))
				}
				return o
			}
			panic(harnessErr("unknown op " + op.Name))
		})
		result = append(result, obs)
		switch op.Name {
		case "add", "addn", "revert", "revert_fault", "load", "load_fault", "reload", "save_race_revert":
			snapshot()
		}
	}
	if !crash {
		return result, nil
	}
	// every prefix of the real mutation log: a fresh repository must load a linked prefix of a chain
	// the repository held at some point
	var images [][]int64
	for i := 0; i <= len(store.Log); i++ {
		img := ImageOf(store.Log, i, store.RmMissingErr)
		n2 := spynode.NewNode(cfg, img, nil, nil)
		r2 := n2.VerifBlocks()
		row := func() (row []int64) {
			defer func() {
				if r := recover(); r != nil {
					row = []int64{PANIC}
				}
			}()
			if err := r2.Load(ctx); err != nil {
				return []int64{ERR}
			}
			var ids []int64
			linked := int64(1)
			var prev *bitcoin.Hash32
			for h := 0; h <= r2.LastHeight(); h++ {
				hdr, err := r2.Header(ctx, h)
				if err != nil {
					return []int64{ERR, int64(h)}
				}
				hash := hdr.BlockHash()
				hh, ok := r2.Height(hash)
				if !ok || hh != h {
					linked = 0
				}
				_ = prev
				prev = hash
				ids = append(ids, u.ID(hash))
			}
			isPrefix := int64(0)
			for _, snap := range snapshots {
				if len(ids) <= len(snap) {
					same := true
					for k := range ids {
						if ids[k] != snap[k] {
							same = false
							break
						}
					}
					if same {
						isPrefix = 1
						break
					}
				}
			}
			return []int64{OK, linked, isPrefix, int64(len(ids))}
		}()
		images = append(images, row)
	}
	var keys []string
	for _, m := range store.Log {
		keys = append(keys, m.Kind+":"+m.Key)
	}
	return result, map[string]any{"images": images, "log": keys}
}
