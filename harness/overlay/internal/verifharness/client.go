//go:build verif

package main

// Component "client": drives the real pkg/client RemoteClient in-package and deterministically
// (no sockets other than an in-memory pipe, no timers except where an op says so):
//   handleMessage (accept verification, data gating, message-id gate), processHandler (handler
//   order), handleRequestResponse through the real runRequests goroutine (response routing), the
//   public synchronous calls (registration key, result / reject / time-out mapping), GetOutputs.
// Hash keys: key k < 100 is the txid of universe transaction k, key k >= 100 the block hash of
// universe header k-100 (both are also used as opaque request hashes).

import (
	"context"
	"crypto/sha256"
	"encoding/json"
	"fmt"
	"io"
	"net"
	"runtime"
	"strings"
	"sync"
	"time"

	"github.com/tokenized/config"
	"github.com/tokenized/pkg/bitcoin"
	"github.com/tokenized/pkg/expanded_tx"
	"github.com/tokenized/pkg/wire"
	"github.com/tokenized/spynode/pkg/client"
)

func init() { register("client", runClient) }

// request kinds of the model
var clKinds = map[int64]uint64{
	1: client.MessageTypeSendTx, 2: client.MessageTypeSendExpandedTx, 3: client.MessageTypeSaveTxs,
	4: client.MessageTypeGetTx, 5: client.MessageTypeGetHeaders, 6: client.MessageTypeGetHeader,
	7: client.MessageTypeGetFeeQuotes, 8: client.MessageTypeReprocessTx,
	9: client.MessageTypeMarkHeaderInvalid, 10: client.MessageTypeMarkHeaderNotInvalid,
	// kinds that never have a pending request (for accept / reject of other messages)
	11: client.MessageTypeSubscribePushData, 12: client.MessageTypePostMerkleProofs,
}

func clKindOf(typ uint64) int64 {
	for k, v := range clKinds {
		if v == typ {
			return k
		}
	}
	return -int64(typ)
}

type clRecorder struct {
	mu  sync.Mutex
	evs [][2]int64
}

func (r *clRecorder) add(kind, id int64) {
	r.mu.Lock()
	r.evs = append(r.evs, [2]int64{kind, id})
	r.mu.Unlock()
}
func (r *clRecorder) HandleTx(ctx context.Context, tx *client.Tx)          { r.add(1, int64(tx.ID)) }
func (r *clRecorder) HandleTxUpdate(ctx context.Context, u *client.TxUpdate) { r.add(2, int64(u.ID)) }
func (r *clRecorder) HandleHeaders(ctx context.Context, h *client.Headers) {
	r.add(3, int64(h.RequestHeight))
}
func (r *clRecorder) HandleInSync(ctx context.Context) { r.add(4, 0) }
func (r *clRecorder) HandleMessage(ctx context.Context, p client.MessagePayload) {
	switch p.(type) {
	case *client.AcceptRegister:
		r.add(5, 0)
	case *client.ChainTip:
		r.add(6, 0)
	default:
		r.add(7, int64(p.Type()))
	}
}
func (r *clRecorder) take() [][2]int64 {
	r.mu.Lock()
	defer r.mu.Unlock()
	e := r.evs
	r.evs = nil
	return e
}

type clHandle struct {
	pend    *client.VerifPending // direct registration
	ptr     interface{}          // request pointer of a public call
	done    chan Obs             // public call result
	short   bool
	dead    bool // consumed / finished
	isCall  bool
	gotObs  Obs
	hasObs  bool
}

type clEnv struct {
	ctx       context.Context
	c         *client.RemoteClient
	cfg       *client.Config
	serverKey bitcoin.Key
	otherKey  bitcoin.Key
	rec       *clRecorder
	tu        *TxUniverse
	bu        *Universe
	interrupt chan interface{}
	sent      chan *client.Message
	written   chan *client.Message
	srvConn   net.Conn
	handles   []*clHandle
	pendAtSend map[*client.Message]int
	msgTimeout time.Duration
	hash      bitcoin.Hash32
	prevHash  bitcoin.Hash32
	hasPrev   bool
	sessions  int
	umu       sync.Mutex // the universes are used from call goroutines too
}

func keyFromInt(n byte) bitcoin.Key {
	b := make([]byte, 32)
	b[31] = n
	b[0] = 1
	k, err := bitcoin.KeyFromNumber(b, bitcoin.MainNet)
	if err != nil {
		panic(harnessErr("key: " + err.Error()))
	}
	return k
}

func (e *clEnv) clTx(k int64) *wire.MsgTx {
	e.umu.Lock()
	defer e.umu.Unlock()
	return e.tu.TxRel(k, []int64{9000 + k}, false)
}

func (e *clEnv) clHeader(k int64) *wire.BlockHeader {
	e.umu.Lock()
	defer e.umu.Unlock()
	return e.bu.Header(1000+k, 0, 1600000000+k, nil)
}

func (e *clEnv) keyHash(k int64) bitcoin.Hash32 {
	if k >= 100 {
		return *e.clHeader(k - 100).BlockHash()
	}
	return *e.clTx(k).TxHash()
}

// kindHash: the hash that identifies request (kind, k).  A save-txs request is identified by the SHA256 of
// the txids it carries (here: the one transaction k), every other kind by the txid / block hash itself.
func (e *clEnv) kindHash(kind, k int64) bitcoin.Hash32 {
	if kind == 3 {
		txid := e.keyHash(k)
		return bitcoin.Hash32(sha256.Sum256(txid[:]))
	}
	return e.keyHash(k)
}

func (e *clEnv) keyOfHash(h *bitcoin.Hash32) int64 {
	if h == nil {
		return -1
	}
	e.umu.Lock()
	defer e.umu.Unlock()
	if id := e.tu.ID(h); id >= 0 {
		return id
	}
	if id := e.bu.ID(h); id >= 1000 {
		return id - 1000 + 100
	}
	return -77
}

func newClEnv(c *Case) *clEnv {
	e := &clEnv{ctx: context.Background(), rec: &clRecorder{}, tu: NewTxUniverse(), bu: NewUniverse()}
	e.serverKey = keyFromInt(7)
	e.otherKey = keyFromInt(9)
	clientKey := keyFromInt(11)
	ct := client.ConnectionTypeFull
	if cfgInt(c, "full", 1) == 0 {
		ct = client.ConnectionTypeControl
	}
	e.cfg = client.NewConfig("127.0.0.1:1", e.serverKey.PublicKey(), clientKey, 100, ct)
	e.cfg.RequestTimeout = config.NewDuration(30 * time.Second)
	e.msgTimeout = time.Duration(cfgInt(c, "msg_timeout_ms", 120)) * time.Millisecond // long enough that a descheduled thread does not make a free channel look full
	e.cfg.MessageChannelTimeout = config.NewDuration(e.msgTimeout)
	rc, err := client.NewRemoteClient(e.cfg)
	if err != nil {
		panic(harnessErr("new client: " + err.Error()))
	}
	e.c = rc
	rc.VerifInit(int(cfgInt(c, "qcap", 100)))
	rc.RegisterHandler(e.rec)
	e.interrupt = make(chan interface{})
	e.sent = make(chan *client.Message, 1000)
	e.written = make(chan *client.Message, 1000)
	go rc.VerifRunRequests(e.ctx, e.interrupt)
	e.pendAtSend = map[*client.Message]int{}
	go rc.VerifSendLoopChecked(e.interrupt, e.sent, func(m *client.Message) {
		// how many requests are registered at the moment the message is written (the barrier synchronises
		// with the requests goroutine; callers started by the harness run with a 2 s message time-out)
		rc.VerifBarrier()
		n := len(rc.VerifPendingKeys())
		e.umu.Lock()
		e.pendAtSend[m] = n
		e.umu.Unlock()
	})
	return e
}

func (e *clEnv) close() {
	close(e.interrupt)
	if e.srvConn != nil {
		e.srvConn.Close()
	}
}

// newSession: what connect + the top of runConnection do (fresh session hash, flags reset).
func (e *clEnv) newSession() {
	if e.srvConn != nil {
		e.srvConn.Close()
	}
	cl, srv := net.Pipe()
	e.srvConn = srv
	written := e.written
	go func() {
		for {
			m := &client.Message{}
			if err := m.Deserialize(srv); err != nil {
				if err != io.EOF && err != io.ErrClosedPipe {
					_ = err
				}
				return
			}
			written <- m
		}
	}()
	h, err := e.c.VerifGenerateSession()
	if err != nil {
		panic(harnessErr("session: " + err.Error()))
	}
	e.prevHash, e.hasPrev = e.hash, e.sessions > 0
	e.sessions++
	e.hash = h
	e.c.VerifResetConnection(cl)
}

func (e *clEnv) acceptMsg(variant, pd, ut, mc int64) *client.Message {
	m := &client.AcceptRegister{PushDataCount: uint64(pd), UTXOCount: uint64(ut), MessageCount: uint64(mc)}
	sessKey, err := bitcoin.NextKey(e.serverKey, e.hash)
	if err != nil {
		panic(harnessErr("next key: " + err.Error()))
	}
	otherHash := dsha([]byte("another session"))
	sign := func(k bitcoin.Key, h bitcoin.Hash32) {
		sh, err := m.SigHash(h)
		if err != nil {
			panic(harnessErr("sighash: " + err.Error()))
		}
		m.Signature, err = k.Sign(*sh)
		if err != nil {
			panic(harnessErr("sign: " + err.Error()))
		}
	}
	switch variant {
	case 0: // genuine
		m.Key = sessKey.PublicKey()
		sign(sessKey, e.hash)
	case 1: // another key, correctly signed by it
		m.Key = e.otherKey.PublicKey()
		sign(e.otherKey, e.hash)
	case 2: // the key derived for another session hash, signed for that hash
		k2, _ := bitcoin.NextKey(e.serverKey, otherHash)
		m.Key = k2.PublicKey()
		sign(k2, otherHash)
	case 3: // right key, signature by another key
		m.Key = sessKey.PublicKey()
		sign(e.otherKey, e.hash)
	case 4: // right key, right signature, counts altered afterwards
		m.Key = sessKey.PublicKey()
		sign(sessKey, e.hash)
		m.MessageCount++
	case 5: // right key, signature over the contents with another session hash
		m.Key = sessKey.PublicKey()
		sign(sessKey, otherHash)
	case 6: // the server's root key instead of the session key
		m.Key = e.serverKey.PublicKey()
		sign(e.serverKey, e.hash)
	case 7: // right key, right signature, push data count altered
		m.Key = sessKey.PublicKey()
		sign(sessKey, e.hash)
		m.PushDataCount += 3
	case 8: // replay: the genuine accept of the PREVIOUS connection (its session key, signed for its hash)
		ph := dsha([]byte("no previous session"))
		if e.hasPrev {
			ph = e.prevHash
		}
		kp, _ := bitcoin.NextKey(e.serverKey, ph)
		m.Key = kp.PublicKey()
		sign(kp, ph)
	default:
		panic(harnessErr("accept variant"))
	}
	return &client.Message{Payload: m}
}

func errClass(err error) int64 {
	if err == nil {
		return 0
	}
	switch rootCause(err) {
	case client.ErrWrongKey:
		return 1
	case client.ErrBadSignature:
		return 2
	case client.ErrTimeout:
		return 4
	case client.ErrRequestNotFound:
		return 5
	}
	if _, ok := rootCause(err).(client.RejectError); ok {
		return 6
	}
	return 3
}

func rootCause(err error) error {
	type causer interface{ Cause() error }
	for err != nil {
		c, ok := err.(causer)
		if !ok || c.Cause() == nil {
			break
		}
		err = c.Cause()
	}
	return err
}

// deliveries: which live handles received a message; remaining pending handles in list order
func (e *clEnv) routingObs() Obs {
	e.c.VerifBarrier()
	var delivered []int64
	for i, h := range e.handles {
		if h.dead || h.isCall {
			continue
		}
		select {
		case <-h.pend.Ch:
			delivered = append(delivered, int64(i))
			h.dead = true
		default:
		}
	}
	keys := e.c.VerifPendingKeys()
	var pending []int64
	for _, k := range keys {
		found := int64(-7)
		for i, h := range e.handles {
			if h.isCall && h.ptr == k.Ptr {
				found = int64(i)
			}
			if !h.isCall && e.c.VerifIsPending(h.pend) && samePending(e.c, h.pend, k) {
				found = int64(i)
			}
		}
		pending = append(pending, found)
	}
	// calls whose request is gone complete now
	for i, h := range e.handles {
		if !h.isCall || h.dead {
			continue
		}
		still := false
		for _, k := range keys {
			if k.Ptr == h.ptr {
				still = true
			}
		}
		if !still {
			select {
			case o := <-h.done:
				h.gotObs, h.hasObs, h.dead = o, true, true
				delivered = append(delivered, int64(i))
			case <-time.After(400 * time.Millisecond):
				// its request left the pending list although nothing was delivered to it: the call is
				// stranded (it will time out); the pending list in the observation shows the anomaly
				h.dead = true
			}
		}
	}
	o := Obs{int64(len(delivered))}
	o = append(o, delivered...)
	o = append(o, int64(len(pending)))
	o = append(o, pending...)
	return o
}

func samePending(c *client.RemoteClient, p *client.VerifPending, k client.VerifKey) bool {
	return p.IsReq(k.Ptr)
}

func (e *clEnv) serverMsg(op Op) *client.Message {
	switch op.Str(0) {
	case "tx":
		// one spent output per input: the wire format derives the output count from the input count
		tx := e.clTx(op.Int(2))
		outs := make([]*wire.TxOut, len(tx.TxIn))
		for i := range outs {
			outs[i] = wire.NewTxOut(uint64(1000+i), []byte{0x51})
		}
		return &client.Message{Payload: &client.Tx{ID: uint64(op.Int(1)), Tx: tx, Outputs: outs}}
	case "update":
		return &client.Message{Payload: &client.TxUpdate{ID: uint64(op.Int(1)), TxID: e.keyHash(op.Int(2))}}
	case "insync":
		return &client.Message{Payload: &client.InSync{}}
	case "chaintip":
		return &client.Message{Payload: &client.ChainTip{Hash: e.keyHash(100 + op.Int(1)), Height: uint32(op.Int(1))}}
	case "headers":
		hs := &client.Headers{RequestHeight: int32(op.Int(1)), StartHeight: uint32(op.Int(1))}
		for i := int64(0); i < op.Int(2); i++ {
			hs.Headers = append(hs.Headers, e.clHeader(op.Int(1)+i))
		}
		return &client.Message{Payload: hs}
	case "header":
		return &client.Message{Payload: &client.Header{Header: *e.clHeader(op.Int(1) - 100), BlockHeight: 5}}
	case "fee":
		return &client.Message{Payload: &client.FeeQuotes{}}
	case "basetx":
		return &client.Message{Payload: &client.BaseTx{Tx: e.clTx(op.Int(1))}}
	case "accept":
		a := &client.Accept{MessageType: clKinds[op.Int(1)]}
		if op.Int(2) >= 0 {
			h := e.kindHash(op.Int(1), op.Int(2))
			a.Hash = &h
		}
		return &client.Message{Payload: a}
	case "reject":
		a := &client.Reject{MessageType: clKinds[op.Int(1)], Code: client.RejectCode(op.Int(3)), Message: "no"}
		if op.Int(2) >= 0 {
			h := e.kindHash(op.Int(1), op.Int(2))
			a.Hash = &h
		}
		return &client.Message{Payload: a}
	case "ping":
		return &client.Message{Payload: &client.Ping{TimeStamp: 5}}
	}
	panic(harnessErr("server message kind " + op.Str(0)))
}

// waitCallersParked returns when every goroutine started by startCall has passed sendMessage and sits in the
// select that waits for the reply (or has finished).  The callers read the client's request time-out between those
// two points; the harness changes that setting from op to op.
func waitCallersParked() {
	buf := make([]byte, 1<<20)
	deadline := time.Now().Add(5 * time.Second)
	for {
		n := runtime.Stack(buf, true)
		ok := true
		for _, g := range strings.Split(string(buf[:n]), "\n\n") {
			if !strings.Contains(g, ").startCall") {
				continue
			}
			open, cl := strings.Index(g, "["), strings.Index(g, "]")
			if open < 0 || cl < open {
				continue
			}
			if !strings.HasPrefix(g[open+1:cl], "select") || strings.Contains(g, ").sendMessage(") {
				ok = false
				break
			}
		}
		if ok || time.Now().After(deadline) {
			return
		}
		time.Sleep(100 * time.Microsecond)
	}
}

// startCall runs a public call in its own goroutine; the result is an observation
// [status, detail...]: 0 ok, 4 time-out, 6 reject (code), 3 other error
func (e *clEnv) startCall(kind, key int64) chan Obs {
	done := make(chan Obs, 1)
	c, ctx := e.c, e.ctx
	go func() {
		var o Obs
		fin := func(err error, ok Obs) {
			if err == nil {
				o = append(Obs{0}, ok...)
				return
			}
			cl := errClass(err)
			o = Obs{cl}
			if re, isRe := rootCause(err).(client.RejectError); isRe {
				o = append(o, int64(re.Code))
			}
		}
		defer func() {
			if r := recover(); r != nil {
				o = Obs{PANIC}
			}
			done <- o
		}()
		switch kind {
		case 1:
			fin(c.SendTx(ctx, e.clTx(key)), nil)
		case 2:
			fin(c.SendExpandedTxAndMarkOutputs(ctx, &expanded_tx.ExpandedTx{Tx: e.clTx(key)}, nil), nil)
		case 3:
			fin(c.SaveTxs(ctx, expanded_tx.AncestorTxs{&expanded_tx.AncestorTx{Tx: e.clTx(key)}}), nil)
		case 4:
			tx, err := c.GetTx(ctx, e.keyHash(key))
			if err == nil {
				fin(nil, Obs{e.keyOfHash(tx.TxHash())})
			} else {
				fin(err, nil)
			}
		case 5:
			hs, err := c.GetHeaders(ctx, int(key), 3)
			if err == nil {
				fin(nil, Obs{int64(hs.RequestHeight), int64(len(hs.Headers))})
			} else {
				fin(err, nil)
			}
		case 6:
			h, err := c.GetHeader(ctx, e.keyHash(key))
			if err == nil {
				fin(nil, Obs{e.keyOfHash(h.Header.BlockHash())})
			} else {
				fin(err, nil)
			}
		case 7:
			_, err := c.GetFeeQuotes(ctx)
			fin(err, nil)
		case 8:
			fin(c.ReprocessTx(ctx, e.keyHash(key), nil), nil)
		case 9:
			fin(c.MarkHeaderInvalid(ctx, e.keyHash(key)), nil)
		case 10:
			fin(c.MarkHeaderNotInvalid(ctx, e.keyHash(key)), nil)
		default:
			panic(harnessErr("call kind"))
		}
	}()
	return done
}

func sentKey(e *clEnv, m *client.Message) (int64, int64) {
	switch p := m.Payload.(type) {
	case *client.SendTx:
		return 1, e.keyOfHash(p.Tx.TxHash())
	case *client.SendExpandedTx:
		return 2, e.keyOfHash(p.Tx.Tx.TxHash())
	case *client.SaveTxs:
		if len(p.Txs) == 1 && p.Txs[0] != nil && p.Txs[0].Tx != nil {
			return 3, e.keyOfHash(p.Txs[0].Tx.TxHash())
		}
		return 3, -77
	case *client.GetTx:
		return 4, e.keyOfHash(&p.TxID)
	case *client.GetHeaders:
		return 5, int64(p.RequestHeight)
	case *client.GetHeader:
		return 6, e.keyOfHash(&p.BlockHash)
	case *client.GetFeeQuotes:
		return 7, -1
	case *client.ReprocessTx:
		return 8, e.keyOfHash(&p.TxID)
	case *client.MarkHeaderInvalid:
		return 9, e.keyOfHash(&p.BlockHash)
	case *client.MarkHeaderNotInvalid:
		return 10, e.keyOfHash(&p.BlockHash)
	}
	return clKindOf(m.Payload.Type()), -1
}

func runClient(c *Case) ([]Obs, any) {
	e := newClEnv(c)
	defer e.close()
	var out []Obs
	for _, raw := range c.Ops {
		op := decodeOp(raw)
		o := guard(func() Obs {
			switch op.Name {
			case "session":
				e.newSession()
				return Obs{OK}
			case "accept":
				err := e.c.VerifHandleMessage(e.ctx, e.acceptMsg(op.Int(0), op.Int(1), op.Int(2), op.Int(3)))
				a, h := e.c.VerifFlags()
				return Obs{errClass(err), b2i(a), b2i(h), int64(e.c.VerifHandlerQueueLen())}
			case "ready":
				err := e.c.Ready(e.ctx, uint64(op.Int(0)))
				_, h := e.c.VerifFlags()
				wrote := int64(-1)
				if err == nil {
					select {
					case m := <-e.written:
						if r, ok := m.Payload.(*client.Ready); ok {
							wrote = int64(r.NextMessageID)
						} else {
							wrote = -2
						}
					case <-time.After(2 * time.Second):
					}
				}
				return Obs{b2i(err != nil), int64(e.c.NextMessageID()), b2i(h), wrote}
			case "msg":
				sub := Op{Name: op.Str(0), Args: op.Args}
				m := e.serverMsg(sub)
				err := e.c.VerifHandleMessage(e.ctx, m)
				o := Obs{errClass(err), int64(e.c.NextMessageID()), int64(e.c.VerifHandlerQueueLen())}
				return append(o, e.routingObs()...)
			case "deq":
				if !e.c.VerifDequeue(e.ctx) {
					return Obs{-1}
				}
				evs := e.rec.take()
				o := Obs{}
				for _, ev := range evs {
					o = append(o, ev[0], ev[1])
				}
				return o
			case "pend":
				height := 0
				var hash bitcoin.Hash32
				if op.Int(0) == 5 {
					height = int(op.Int(1))
				} else if op.Int(0) != 7 {
					hash = e.kindHash(op.Int(0), op.Int(1))
				}
				p, err := e.c.VerifAddPending(clKinds[op.Int(0)], hash, height)
				if err != nil {
					return Obs{ERR}
				}
				e.handles = append(e.handles, &clHandle{pend: p})
				e.c.VerifBarrier()
				return Obs{OK, int64(len(e.handles) - 1)}
			case "unpend":
				h := e.handles[op.Int(0)]
				if h.isCall {
					panic(harnessErr("unpend of a call"))
				}
				err := e.c.VerifRemovePending(h.pend)
				e.c.VerifBarrier()
				return append(Obs{b2i(err != nil)}, e.routingObs()...)
			case "call":
				short := op.Int(2) != 0
				if short {
					e.c.VerifSetRequestTimeout(60 * time.Millisecond)
				} else {
					e.c.VerifSetRequestTimeout(30 * time.Second)
				}
				e.c.VerifBarrier()
				before := e.c.VerifPendingKeys()
				regBefore := len(before)
				e.c.VerifSetMessageTimeout(2 * time.Second) // read by the call when it starts
				done := e.startCall(op.Int(0), op.Int(1))
				var m *client.Message
				select {
				case m = <-e.sent:
				case <-time.After(3 * time.Second):
					e.c.VerifSetMessageTimeout(e.msgTimeout)
					return Obs{-5}
				}
				e.c.VerifSetMessageTimeout(e.msgTimeout)
				// the request time-out is one setting of the client, read by the caller after its message was
				// sent: do not let the next op change it before this caller is waiting for its reply
				waitCallersParked()
				// when the message was on the wire (the caller not yet told) the request must already have been
				// registered, otherwise a reply routed at that moment finds nobody (then: -6)
				e.umu.Lock()
				atSend := e.pendAtSend[m]
				delete(e.pendAtSend, m)
				e.umu.Unlock()
				e.c.VerifBarrier()
				if atSend <= regBefore {
					k, key := sentKey(e, m)
					e.handles = append(e.handles, &clHandle{isCall: true, done: done, short: short})
					return Obs{-6, int64(len(e.handles) - 1), k, key}
				}
				after := e.c.VerifPendingKeys()
				var ptr interface{}
				for _, k := range after {
					isNew := true
					for _, b := range before {
						if b.Ptr == k.Ptr {
							isNew = false
						}
					}
					if isNew {
						ptr = k.Ptr
					}
				}
				e.handles = append(e.handles, &clHandle{isCall: true, ptr: ptr, done: done, short: short})
				k, key := sentKey(e, m)
				return Obs{OK, int64(len(e.handles) - 1), k, key}
			case "await":
				h := e.handles[op.Int(0)]
				if h.hasObs {
					return append(Obs{OK}, h.gotObs...)
				}
				if !h.short {
					// still registered: the call is waiting
					e.c.VerifBarrier()
					for _, k := range e.c.VerifPendingKeys() {
						if k.Ptr == h.ptr {
							return Obs{OK, 9}
						}
					}
				}
				select {
				case o := <-h.done:
					h.gotObs, h.hasObs, h.dead = o, true, true
					e.c.VerifBarrier()
					return append(append(Obs{OK}, o...), e.routingObs()...)
				case <-time.After(3 * time.Second):
					return Obs{OK, 8}
				}
			case "outputs":
				return e.getOutputs(op)
			case "race":
				return e.race(op)
			}
			panic(harnessErr("unknown op " + op.Name))
		})
		out = append(out, o)
	}
	return out, nil
}

// GetOutputs against a server that knows the transactions listed in "known":
// obs [status, n, (value, script tag)*]
func (e *clEnv) getOutputs(op Op) Obs {
	pairs := op.IntLists(0)
	known := map[int64]bool{}
	for _, k := range op.Ints(1) {
		known[k] = true
	}
	ops := make([]wire.OutPoint, len(pairs))
	for i, p := range pairs {
		ops[i] = wire.OutPoint{Hash: e.keyHash(p[0]), Index: uint32(p[1])}
	}
	e.c.VerifSetRequestTimeout(30 * time.Second)
	e.c.VerifSetMessageTimeout(2 * time.Second)
	defer e.c.VerifSetMessageTimeout(e.msgTimeout)
	type res struct {
		utxos []bitcoin.UTXO
		err   error
		pan   bool
	}
	done := make(chan res, 1)
	go func() {
		var r res
		defer func() {
			if x := recover(); x != nil {
				r.pan = true
			}
			done <- r
		}()
		r.utxos, r.err = e.c.GetOutputs(e.ctx, ops)
	}()
	fetches := int64(0)
	for {
		select {
		case r := <-done:
			if r.pan {
				return Obs{PANIC, fetches}
			}
			if r.err != nil {
				return Obs{ERR, fetches, errClass(r.err)}
			}
			if r.utxos == nil {
				return Obs{ERR, fetches, -1}
			}
			o := Obs{OK, fetches, int64(len(r.utxos))}
			for _, u := range r.utxos {
				o = append(o, e.keyOfHash(&u.Hash), int64(u.Index), int64(u.Value))
			}
			return o
		case m := <-e.sent:
			g, ok := m.Payload.(*client.GetTx)
			if !ok {
				panic(harnessErr("unexpected message sent by GetOutputs"))
			}
			fetches++
			k := e.keyOfHash(&g.TxID)
			e.c.VerifBarrier()
			var resp *client.Message
			if known[k] {
				resp = &client.Message{Payload: &client.BaseTx{Tx: e.clTx(k)}}
			} else {
				h := g.TxID
				resp = &client.Message{Payload: &client.Reject{MessageType: client.MessageTypeGetTx, Hash: &h, Code: 3, Message: "unknown"}}
			}
			e.c.VerifHandleMessage(e.ctx, resp)
		case <-time.After(5 * time.Second):
			return Obs{ERR, fetches, -9}
		}
	}
}

// race: a registration and its response are both queued when the requests goroutine looks;
// obs [OK, number of trials in which the response reached the request, trials]
func (e *clEnv) race(op Op) Obs {
	trials := op.Int(2)
	good := int64(0)
	for i := int64(0); i < trials; i++ {
		rc, err := client.NewRemoteClient(e.cfg)
		if err != nil {
			panic(harnessErr("new client: " + err.Error()))
		}
		rc.VerifInit(10)
		kind, key := op.Int(0), op.Int(1)
		var m *client.Message
		var hash bitcoin.Hash32
		height := 0
		switch kind {
		case 4:
			hash = e.keyHash(key)
			m = &client.Message{Payload: &client.BaseTx{Tx: e.clTx(key)}}
		case 5:
			height = int(key)
			m = &client.Message{Payload: &client.Headers{RequestHeight: int32(key)}}
		default:
			panic(harnessErr("race kind"))
		}
		ch, ech := rc.VerifPrefill(clKinds[kind], hash, height, m)
		intr := make(chan interface{})
		go rc.VerifRunRequests(e.ctx, intr)
		select {
		case <-ech:
		case <-time.After(3 * time.Second):
			panic(harnessErr("race: response not served"))
		}
		rc.VerifBarrier()
		select {
		case <-ch:
			good++
		default:
		}
		close(intr)
	}
	return Obs{OK, good, trials}
}

var _ = json.Marshal
var _ = fmt.Sprintf
