//go:build verif

package main

// Component "clientnet": end-to-end scenarios of the remote client: the REAL RemoteClient.Run
// (connection loop, handshake, send / receive / handler / requests goroutines) against a scripted
// spynode service on a loopback TCP listener.  Observations are robust to timing: counts, message
// kinds / keys, call results, flags - never durations.

import (
	"context"
	"net"
	"sort"
	"sync"
	"time"

	"github.com/tokenized/config"
	"github.com/tokenized/pkg/bitcoin"
	"github.com/tokenized/spynode/pkg/client"
)

func init() { register("clientnet", runClientNet) }

type cnMsg struct {
	conn int
	m    *client.Message
}

type cnHandler struct {
	clRecorder
	c         *client.RemoteClient
	autoReady bool
	ctx       context.Context
}

func (h *cnHandler) HandleMessage(ctx context.Context, p client.MessagePayload) {
	h.clRecorder.HandleMessage(ctx, p)
	if _, ok := p.(*client.AcceptRegister); ok && h.autoReady {
		// what the repository's own client does: declare ready with the next expected message id
		go h.c.Ready(h.ctx, h.c.NextMessageID())
	}
}

func runClientNet(c *Case) ([]Obs, any) {
	e := newClEnvNoClient()
	ctx := context.Background()
	ln, err := net.Listen("tcp", "127.0.0.1:0")
	if err != nil {
		panic(harnessErr("listen: " + err.Error()))
	}
	defer ln.Close()
	ct := client.ConnectionTypeFull
	if cfgInt(c, "full", 1) == 0 {
		ct = client.ConnectionTypeControl
	}
	clientKey := keyFromInt(11)
	cfg := client.NewConfig(ln.Addr().String(), e.serverKey.PublicKey(), clientKey, 100, ct)
	cfg.RetryDelay = config.NewDuration(40 * time.Millisecond)
	cfg.MaxRetries = 1000
	cfg.RequestTimeout = config.NewDuration(time.Duration(cfgInt(c, "request_timeout_ms", 1500)) * time.Millisecond)
	cfg.MessageChannelTimeout = config.NewDuration(time.Duration(cfgInt(c, "msg_timeout_ms", 400)) * time.Millisecond)
	cfg.HandshakeTimeout = config.NewDuration(10 * time.Second)
	cfg.DialTimeout = config.NewDuration(time.Second)
	rc, err := client.NewRemoteClient(cfg)
	if err != nil {
		panic(harnessErr("new client: " + err.Error()))
	}
	e.c, e.cfg = rc, cfg
	h := &cnHandler{c: rc, autoReady: cfgInt(c, "auto_ready", 1) != 0, ctx: ctx}
	rc.RegisterHandler(h)

	interrupt := make(chan interface{})
	runDone := make(chan error, 1)
	stopOnce := new(sync.Once)
	stopped := false
	stop := func() {
		ch := interrupt
		stopOnce.Do(func() { close(ch); stopped = true })
	}
	defer func() { stop() }()

	inbox := make(chan cnMsg, 1000)
	var conns []net.Conn
	var hashes []bitcoin.Hash32
	defer func() {
		for _, cn := range conns {
			cn.Close()
		}
	}()
	type callH struct{ done chan Obs }
	var calls []*callH

	msgKind := func(m *client.Message) (int64, int64) {
		switch p := m.Payload.(type) {
		case *client.Ready:
			return 20, int64(p.NextMessageID)
		case *client.Register:
			return 21, 0
		case *client.SubscribeTx:
			return 22, e.keyOfHash(&p.TxID)
		}
		return sentKey(e, m)
	}

	var out []Obs
	for _, raw := range c.Ops {
		op := decodeOp(raw)
		o := guard(func() Obs {
			switch op.Name {
			case "run":
				if stopped {
					// Run again on the SAME client object after an earlier Run was stopped and has returned
					select {
					case <-runDone:
					default:
					}
					interrupt, stopOnce, stopped = make(chan interface{}), new(sync.Once), false
				}
				ich := interrupt
				go func() { runDone <- rc.Run(ctx, ich) }()
				return Obs{OK}
			case "srv_accept": // variant (-1: do not send an accept yet), wait ms
				type acc struct {
					cn  net.Conn
					err error
				}
				ach := make(chan acc, 1)
				go func() { cn, err := ln.Accept(); ach <- acc{cn, err} }()
				var cn net.Conn
				select {
				case a := <-ach:
					if a.err != nil {
						return Obs{ERR}
					}
					cn = a.cn
				case <-time.After(time.Duration(op.Int(1)) * time.Millisecond):
					return Obs{OK, -1}
				}
				conns = append(conns, cn)
				idx := len(conns) - 1
				m := &client.Message{}
				cn.SetReadDeadline(time.Now().Add(3 * time.Second))
				if err := m.Deserialize(cn); err != nil {
					return Obs{OK, -2}
				}
				cn.SetReadDeadline(time.Time{})
				reg, ok := m.Payload.(*client.Register)
				if !ok {
					return Obs{OK, -3}
				}
				sh, _ := reg.SigHash()
				sigOK := reg.Key.Equal(clientKey.PublicKey()) && reg.Signature.Verify(*sh, reg.Key)
				hashes = append(hashes, reg.Hash)
				e.hash = reg.Hash
				go func() {
					for {
						m := &client.Message{}
						if err := m.Deserialize(cn); err != nil {
							return
						}
						inbox <- cnMsg{idx, m}
					}
				}()
				if v := op.Int(0); v >= 0 {
					if err := e.acceptMsg(v, 1, 2, 3).Serialize(cn); err != nil {
						return Obs{OK, -4}
					}
				}
				return Obs{OK, b2i(sigOK), int64(reg.ConnectionType)}
			case "srv_send_accept":
				cn := conns[len(conns)-1]
				if err := e.acceptMsg(op.Int(0), 1, 2, 3).Serialize(cn); err != nil {
					return Obs{ERR}
				}
				return Obs{OK}
			case "srv_send":
				sub := Op{Name: op.Str(0), Args: op.Args}
				cn := conns[len(conns)-1]
				if err := e.serverMsg(sub).Serialize(cn); err != nil {
					return Obs{ERR}
				}
				return Obs{OK}
			case "srv_quiet": // ms: everything the service receives on the newest connection within ms
				o := Obs{OK}
				deadline := time.After(time.Duration(op.Int(0)) * time.Millisecond)
				for {
					select {
					case im := <-inbox:
						if im.conn != len(conns)-1 {
							continue
						}
						k, key := msgKind(im.m)
						o = append(o, k, key)
					case <-deadline:
						return o
					}
				}
			case "srv_collect": // n ms: the next n messages on the newest connection, sorted
				var got [][2]int64
				deadline := time.After(time.Duration(op.Int(1)) * time.Millisecond)
			loop:
				for int64(len(got)) < op.Int(0) {
					select {
					case im := <-inbox:
						if im.conn != len(conns)-1 {
							continue
						}
						k, key := msgKind(im.m)
						got = append(got, [2]int64{k, key})
					case <-deadline:
						break loop
					}
				}
				if op.Int(2) != 0 {
					sort.Slice(got, func(i, j int) bool {
						if got[i][0] != got[j][0] {
							return got[i][0] < got[j][0]
						}
						return got[i][1] < got[j][1]
					})
				}
				o := Obs{OK, int64(len(got))}
				for _, g := range got {
					o = append(o, g[0], g[1])
				}
				return o
			case "srv_close":
				conns[len(conns)-1].Close()
				return Obs{OK}
			case "ready":
				n := op.Int(0)
				if n < 0 {
					n = int64(rc.NextMessageID())
				}
				err := rc.Ready(ctx, uint64(n))
				return Obs{b2i(err != nil)}
			case "call":
				calls = append(calls, &callH{done: e.startCall(op.Int(0), op.Int(1))})
				return Obs{OK, int64(len(calls) - 1)}
			case "await": // handle ms
				select {
				case r := <-calls[op.Int(0)].done:
					return append(Obs{OK}, r...)
				case <-time.After(time.Duration(op.Int(1)) * time.Millisecond):
					return Obs{OK, 9}
				}
			case "sleep":
				time.Sleep(time.Duration(op.Int(0)) * time.Millisecond)
				return Obs{OK}
			case "handled": // ms [n]: handler callbacks so far, accept-register notifications left out. With n > 0: waits
				// (up to 8 s, so that a loaded machine does not matter) until n callbacks were seen, then ms/4 more
				// for any that should not come; without n: after waiting ms
				var evs [][2]int64
				collect := func() {
					for _, ev := range h.take() {
						if ev[0] != 5 {
							evs = append(evs, [2]int64{ev[0], ev[1]})
						}
					}
				}
				if len(op.Args) > 1 && op.Int(1) > 0 {
					deadline := time.Now().Add(8 * time.Second)
					for collect(); int64(len(evs)) < op.Int(1) && time.Now().Before(deadline); collect() {
						time.Sleep(20 * time.Millisecond)
					}
					time.Sleep(time.Duration(op.Int(0)/4+50) * time.Millisecond)
				} else {
					time.Sleep(time.Duration(op.Int(0)) * time.Millisecond)
				}
				collect()
				o := Obs{OK}
				for _, ev := range evs {
					o = append(o, ev[0], ev[1])
				}
				return o
			case "next":
				return Obs{OK, int64(rc.NextMessageID())}
			case "run_result": // ms
				select {
				case err := <-runDone:
					runDone <- err
					return Obs{OK, 1, errClassDeep(err)}
				case <-time.After(time.Duration(op.Int(0)) * time.Millisecond):
					return Obs{OK, 0}
				}
			case "stop":
				stop()
				select {
				case err := <-runDone:
					runDone <- err
					return Obs{OK, 1}
				case <-time.After(5 * time.Second):
					return Obs{OK, 0}
				}
			}
			panic(harnessErr("unknown op " + op.Name))
		})
		out = append(out, o)
	}
	stop()
	for _, cn := range conns {
		cn.Close()
	}
	select {
	case <-runDone:
	case <-time.After(3 * time.Second):
	}
	return out, nil
}

// errClassDeep looks for the authentication errors inside a combined error text
func errClassDeep(err error) int64 {
	if err == nil {
		return 0
	}
	if c := errClass(err); c != 3 {
		return c
	}
	s := err.Error()
	switch {
	case containsStr(s, client.ErrWrongKey.Error()):
		return 1
	case containsStr(s, client.ErrBadSignature.Error()):
		return 2
	}
	return 3
}

func containsStr(s, sub string) bool {
	for i := 0; i+len(sub) <= len(s); i++ {
		if s[i:i+len(sub)] == sub {
			return true
		}
	}
	return false
}

func newClEnvNoClient() *clEnv {
	e := &clEnv{ctx: context.Background(), rec: &clRecorder{}, tu: NewTxUniverse(), bu: NewUniverse()}
	e.serverKey = keyFromInt(7)
	e.otherKey = keyFromInt(9)
	return e
}
