//go:build verif

package main

// Components "codec" and "codec_hostile": drive the real (de)serializers of pkg/client
// (messages.go, models.go), of the tokenized/pkg dependency types they embed, and the stored-record
// parsers of internal/storage.  Values cross the JSON boundary as a generic VALUE TREE:
//
//	integer  -> "123" (decimal string)       bool -> true/false
//	bytes    -> {"b":"<hex>"}                ([]byte, [N]byte, string)
//	list     -> [v, ...]                     (slices other than []byte; nil and empty are both [])
//	struct   -> {"s":[["Field", v], ...]}    (struct or never-nil pointer to struct; declaration order)
//	optional -> {"o":null} | {"o":v}         (*bitcoin.Hash32 and *client.MerkleProof fields only)
//	opaque   -> {"b":"<hex of own serialization>"}  (BlockHeader, PublicKey, Signature,
//	            dependency MerkleProof, ExpandedTx, AncestorTxs); {"x":"error"} if a decoded opaque
//	            value cannot be serialized again
//
// Ops of "codec" (one observation and one `extra` entry per op):
//
//	["ser", T, value]      -> [0, bytes...] | [1] error | [2] panic | [-3] value not convertible
//	["de", T, hex]         -> [class, consumed, extra ints...]; extra entry = value tree if class 0
//	["stream", hex]        -> [class of last attempt, messages decoded, consumed]; extra = trees
//	["types"]              -> [0]; extra = [[name, "code"], ...] of all payload types
//	["sample", kind, seed] -> [0, bytes...] valid deterministic blob of an opaque type
//	["odec", name, hex]    -> [class, consumed] of the opaque decoder alone
//
// "codec_hostile": ops ["de", T, hex] run in a child process whose address space may grow by at most
// cfg aslimit_mb (default 2048) MiB; cfg timeout_ms (default 10000) per input:
// [class, consumed, totalalloc_delta] | [3,0,-1] child died | [4,0,-1] timeout.

import (
	"bufio"
	"bytes"
	"context"
	"crypto/sha256"
	"encoding/hex"
	"encoding/json"
	"errors"
	"fmt"
	"io"
	"os"
	"os/exec"
	"reflect"
	"runtime"
	"sort"
	"strconv"
	"strings"
	"sync"
	"syscall"
	"time"

	"github.com/tokenized/pkg/bitcoin"
	"github.com/tokenized/pkg/bsor"
	"github.com/tokenized/pkg/expanded_tx"
	"github.com/tokenized/pkg/merchant_api"
	"github.com/tokenized/pkg/merkle_proof"
	"github.com/tokenized/pkg/wire"
	"github.com/tokenized/spynode/internal/storage"
	"github.com/tokenized/spynode/pkg/client"
)

func init() {
	cdBuildTypes()
	if os.Getenv("VERIF_CODEC_CHILD") != "" {
		cdChildMain() // never returns
	}
	register("codec", runCodec)
	register("codec_hostile", runCodecHostile)
}

// cdTry runs f under recover: 0 ok, 1 error returned, 2 panic.
func cdTry(f func() error) (class int64) {
	defer func() {
		if r := recover(); r != nil {
			if he, ok := r.(harnessErr); ok {
				panic(he)
			}
			if os.Getenv("VERIF_DEBUG") != "" {
				buf := make([]byte, 4096)
				fmt.Fprintf(os.Stderr, "panic: %v\n%s\n", r, buf[:runtime.Stack(buf, false)])
			}
			class = PANIC
		}
	}()
	if err := f(); err != nil {
		return ERR
	}
	return OK
}

// ------------------------------------------------------------------------------------------------
// Value tree <-> Go value (reflection; only the opaque types are by hand)

type cdSerDe interface {
	Serialize(io.Writer) error
	Deserialize(io.Reader) error
}

// cdOpaque converts a special-cased type to / from the bytes of its own serialization.
// p is always a pointer to the value.  An empty blob on input is the zero value.
type cdOpaque struct {
	enc     func(p reflect.Value) ([]byte, error)
	dec     func(p reflect.Value, b []byte) error
	zeroOut bool // the zero value is written as the empty blob (it has no decodable serialization)
}

func cdOpaqueSerDe(zeroOut bool) cdOpaque {
	return cdOpaque{
		enc: func(p reflect.Value) ([]byte, error) {
			var buf bytes.Buffer
			err := p.Interface().(cdSerDe).Serialize(&buf)
			return buf.Bytes(), err
		},
		dec: func(p reflect.Value, b []byte) error {
			r := bytes.NewReader(b)
			if err := p.Interface().(cdSerDe).Deserialize(r); err != nil {
				return err
			}
			if r.Len() != 0 {
				return errors.New("trailing bytes in blob")
			}
			return nil
		},
		zeroOut: zeroOut,
	}
}

// cdOpaqueBsor mirrors messages.go: ExpandedTx is marshalled through its pointer, AncestorTxs by
// value; both are unmarshalled through a pointer; items remaining after the object are ignored.
func cdOpaqueBsor(byValue bool) cdOpaque {
	return cdOpaque{
		enc: func(p reflect.Value) ([]byte, error) {
			obj := p.Interface()
			if byValue {
				obj = p.Elem().Interface()
			}
			s, err := bsor.MarshalBinary(obj)
			return []byte(s), err
		},
		dec: func(p reflect.Value, b []byte) error {
			_, err := bsor.UnmarshalBinary(b, p.Interface())
			return err
		},
	}
}

var (
	cdTBlockHeader = reflect.TypeOf(wire.BlockHeader{})
	cdTPublicKey   = reflect.TypeOf(bitcoin.PublicKey{})
	cdTSignature   = reflect.TypeOf(bitcoin.Signature{})
	cdTDepProof    = reflect.TypeOf(merkle_proof.MerkleProof{})
	cdTExpandedTx  = reflect.TypeOf(expanded_tx.ExpandedTx{})
	cdTAncestorTxs = reflect.TypeOf(expanded_tx.AncestorTxs{})

	cdOpaques = map[reflect.Type]cdOpaque{
		cdTBlockHeader: cdOpaqueSerDe(false),
		cdTPublicKey:   cdOpaqueSerDe(true),
		cdTSignature:   cdOpaqueSerDe(true),
		cdTDepProof:    cdOpaqueSerDe(false),
		cdTExpandedTx:  cdOpaqueBsor(false),
		cdTAncestorTxs: cdOpaqueBsor(true),
	}
	// pointer types that may legitimately be nil ({"o":..} in the tree)
	cdOptional = map[reflect.Type]bool{
		reflect.TypeOf((*bitcoin.Hash32)(nil)):     true,
		reflect.TypeOf((*client.MerkleProof)(nil)): true,
	}
)

func cdBlob(b []byte) any { return map[string]any{"b": hex.EncodeToString(b)} }

func cdUnblob(x any) ([]byte, error) {
	m, _ := x.(map[string]any)
	s, ok := m["b"].(string)
	if !ok {
		return nil, fmt.Errorf("expected {\"b\":hex}, got %v", x)
	}
	return hex.DecodeString(s)
}

// cdFields parses {"s":[["Name", v], ...]} into name -> v.
func cdFields(x any) (map[string]any, error) {
	m, _ := x.(map[string]any)
	l, ok := m["s"].([]any)
	if !ok {
		return nil, fmt.Errorf("expected {\"s\":[..]}, got %v", x)
	}
	r := make(map[string]any, len(l))
	for _, f := range l {
		pair, _ := f.([]any)
		if len(pair) != 2 {
			return nil, fmt.Errorf("bad field entry %v", f)
		}
		name, ok := pair[0].(string)
		if !ok {
			return nil, fmt.Errorf("bad field name %v", pair[0])
		}
		r[name] = pair[1]
	}
	return r, nil
}

// cdToTree converts a Go value to its tree.
func cdToTree(v reflect.Value) any {
	t := v.Type()
	switch t.Kind() {
	case reflect.Interface:
		if v.IsNil() {
			return nil
		}
		return cdToTree(v.Elem())
	case reflect.Ptr:
		if cdOptional[t] {
			if v.IsNil() {
				return map[string]any{"o": nil}
			}
			return map[string]any{"o": cdToTree(v.Elem())}
		}
		if v.IsNil() {
			return nil // never produced by a successful decode
		}
		return cdToTree(v.Elem())
	}
	if op, ok := cdOpaques[t]; ok {
		if op.zeroOut && v.IsZero() {
			return cdBlob(nil)
		}
		p := reflect.New(t)
		p.Elem().Set(v)
		var b []byte
		err := errors.New("panic")
		if cdTry(func() error { b, err = op.enc(p); return err }) != OK {
			return map[string]any{"x": fmt.Sprint(err)}
		}
		return cdBlob(b)
	}
	switch t.Kind() {
	case reflect.Bool:
		return v.Bool()
	case reflect.Int, reflect.Int8, reflect.Int16, reflect.Int32, reflect.Int64:
		return strconv.FormatInt(v.Int(), 10)
	case reflect.Uint, reflect.Uint8, reflect.Uint16, reflect.Uint32, reflect.Uint64:
		return strconv.FormatUint(v.Uint(), 10)
	case reflect.String:
		return cdBlob([]byte(v.String()))
	case reflect.Slice, reflect.Array:
		if t.Elem().Kind() == reflect.Uint8 {
			b := make([]byte, v.Len())
			reflect.Copy(reflect.ValueOf(b), v)
			return cdBlob(b)
		}
		l := make([]any, v.Len())
		for i := range l {
			l[i] = cdToTree(v.Index(i))
		}
		return l
	case reflect.Struct:
		fields := []any{}
		for i := 0; i < t.NumField(); i++ {
			if t.Field(i).IsExported() {
				fields = append(fields, []any{t.Field(i).Name, cdToTree(v.Field(i))})
			}
		}
		return map[string]any{"s": fields}
	}
	panic(harnessErr("codec: unsupported type " + t.String()))
}

// cdFromTree builds a Go value of type t from a tree.
func cdFromTree(x any, t reflect.Type) (reflect.Value, error) {
	if t.Kind() == reflect.Ptr {
		if cdOptional[t] {
			m, _ := x.(map[string]any)
			o, has := m["o"]
			if !has {
				return reflect.Value{}, fmt.Errorf("%s: expected {\"o\":..}", t)
			}
			if o == nil {
				return reflect.Zero(t), nil
			}
			x = o
		}
		ev, err := cdFromTree(x, t.Elem())
		if err != nil {
			return ev, err
		}
		p := reflect.New(t.Elem())
		p.Elem().Set(ev)
		return p, nil
	}
	if op, ok := cdOpaques[t]; ok {
		b, err := cdUnblob(x)
		if err != nil {
			return reflect.Value{}, err
		}
		p := reflect.New(t)
		if len(b) > 0 {
			err = errors.New("panic")
			if cdTry(func() error { err = op.dec(p, b); return err }) != OK {
				return reflect.Value{}, fmt.Errorf("%s blob: %v", t, err)
			}
		}
		return p.Elem(), nil
	}
	v := reflect.New(t).Elem()
	bad := func() (reflect.Value, error) { return v, fmt.Errorf("%s: unexpected %v", t, x) }
	switch t.Kind() {
	case reflect.Bool:
		b, ok := x.(bool)
		if !ok {
			return bad()
		}
		v.SetBool(b)
	case reflect.Int, reflect.Int8, reflect.Int16, reflect.Int32, reflect.Int64:
		s, _ := x.(string)
		n, err := strconv.ParseInt(s, 10, t.Bits())
		if err != nil {
			return bad()
		}
		v.SetInt(n)
	case reflect.Uint, reflect.Uint8, reflect.Uint16, reflect.Uint32, reflect.Uint64:
		s, _ := x.(string)
		n, err := strconv.ParseUint(s, 10, t.Bits())
		if err != nil {
			return bad()
		}
		v.SetUint(n)
	case reflect.String:
		b, err := cdUnblob(x)
		if err != nil {
			return v, err
		}
		v.SetString(string(b))
	case reflect.Slice, reflect.Array:
		if t.Elem().Kind() == reflect.Uint8 {
			b, err := cdUnblob(x)
			if err != nil {
				return v, err
			}
			if t.Kind() == reflect.Slice {
				v.Set(reflect.ValueOf(b).Convert(t))
			} else if len(b) != t.Len() {
				return v, fmt.Errorf("%s: blob of %d bytes", t, len(b))
			} else {
				reflect.Copy(v, reflect.ValueOf(b))
			}
			break
		}
		l, ok := x.([]any)
		if !ok || t.Kind() == reflect.Array {
			return bad()
		}
		v.Set(reflect.MakeSlice(t, len(l), len(l)))
		for i, e := range l {
			ev, err := cdFromTree(e, t.Elem())
			if err != nil {
				return v, err
			}
			v.Index(i).Set(ev)
		}
	case reflect.Struct:
		fields, err := cdFields(x)
		if err != nil {
			return v, err
		}
		for name, fx := range fields {
			sf, ok := t.FieldByName(name)
			if !ok || !sf.IsExported() {
				return v, fmt.Errorf("%s: no field %s", t, name)
			}
			fv, err := cdFromTree(fx, sf.Type)
			if err != nil {
				return v, err
			}
			v.FieldByIndex(sf.Index).Set(fv)
		}
		// missing field = zero value; a non-optional pointer is never nil in a tree: allocate
		for i := 0; i < t.NumField(); i++ {
			ft := t.Field(i).Type
			if t.Field(i).IsExported() && ft.Kind() == reflect.Ptr && !cdOptional[ft] && v.Field(i).IsNil() {
				v.Field(i).Set(reflect.New(ft.Elem()))
			}
		}
	default:
		panic(harnessErr("codec: unsupported type " + t.String()))
	}
	return v, nil
}

// ------------------------------------------------------------------------------------------------
// Type table

type cdCodec struct {
	// build converts a tree and returns the serializing closure (nil: decode only type)
	build func(tree any) (func(io.Writer) error, error)
	// de decodes; val is the decoded Go value, consumed -1 when not observable (storage backed)
	de func(in []byte) (val any, consumed int64, extra []int64, err error)
}

type cdPayload struct {
	name string
	code uint64
}

var (
	cdTypes    map[string]*cdCodec
	cdPayloads []cdPayload
)

func cdLookup(name string) *cdCodec {
	cd, ok := cdTypes[name]
	if !ok {
		panic(harnessErr("codec: unknown type " + name))
	}
	return cd
}

// cdGeneric is a type with a serializer and a deserializer working on a pointer to the value.
func cdGeneric(t reflect.Type, ser func(p reflect.Value, w io.Writer) error,
	de func(p reflect.Value, r io.Reader) error) *cdCodec {
	return &cdCodec{
		build: func(tree any) (func(io.Writer) error, error) {
			ev, err := cdFromTree(tree, t)
			if err != nil {
				return nil, err
			}
			p := reflect.New(t)
			p.Elem().Set(ev)
			return func(w io.Writer) error { return ser(p, w) }, nil
		},
		de: func(in []byte) (any, int64, []int64, error) {
			p := reflect.New(t)
			r := bytes.NewReader(in)
			err := de(p, cdPlain{r})
			return p.Interface(), int64(len(in) - r.Len()), nil, err
		},
	}
}

// cdPlain hides everything but Read: the node decodes from a net.Conn, which has no Len(), no ReadByte() and
// cannot be rewound, so the wire decoders are run on a reader that offers nothing more either.
type cdPlain struct{ r *bytes.Reader }

func (p cdPlain) Read(b []byte) (int, error) { return p.r.Read(b) }

func cdSer(p reflect.Value, w io.Writer) error { return p.Interface().(cdSerDe).Serialize(w) }
func cdDe(p reflect.Value, r io.Reader) error  { return p.Interface().(cdSerDe).Deserialize(r) }

// cdMessage is the tree shape of client.Message.
type cdMessage struct {
	Type    uint64
	Payload client.MessagePayload
}

func cdDecodeMessage(r io.Reader) (cdMessage, error) {
	m := &client.Message{}
	if err := m.Deserialize(r); err != nil {
		return cdMessage{}, err
	}
	return cdMessage{m.Payload.Type(), m.Payload}, nil
}

// cdReaderDe: decode-only record read from a bytes.Reader.
func cdReaderDe(f func(r *bytes.Reader) (any, error)) *cdCodec {
	return &cdCodec{de: func(in []byte) (any, int64, []int64, error) {
		r := bytes.NewReader(in)
		val, err := f(r)
		return val, int64(len(in) - r.Len()), nil, err
	}}
}

// cdBufferDe: decode-only record read from a bytes.Buffer (as the repositories do).
func cdBufferDe(f func(b *bytes.Buffer) (any, error)) *cdCodec {
	return &cdCodec{de: func(in []byte) (any, int64, []int64, error) {
		b := bytes.NewBuffer(append([]byte(nil), in...))
		val, err := f(b)
		return val, int64(len(in) - b.Len()), nil, err
	}}
}

// cdStoreDe: decode-only, the bytes are stored under key in a fresh copying in-memory store
// (VStore) and parsed by a repository; observation [class, -1, n].
func cdStoreDe(key string, f func(ctx context.Context, store *VStore) (any, int, error)) *cdCodec {
	return &cdCodec{de: func(in []byte) (any, int64, []int64, error) {
		ctx := context.Background()
		store := NewVStore(true)
		if err := store.Write(ctx, key, in, nil); err != nil {
			panic(harnessErr("codec: store: " + err.Error()))
		}
		val, n, err := f(ctx, store)
		return val, -1, []int64{int64(n)}, err
	}}
}

const cdTxBlockHeight = 100

func cdBuildTypes() {
	cdTypes = map[string]*cdCodec{}
	// all payload types, found through PayloadForType
	codes := map[uint64]bool{}
	for c := range client.MessageTypeNames {
		codes[c] = true
	}
	for c := uint64(0); c < 1<<16; c++ {
		codes[c] = true
	}
	for c := range codes {
		if p := client.PayloadForType(c); p != nil {
			t := reflect.TypeOf(p).Elem()
			cdTypes[t.Name()] = cdGeneric(t, cdSer, cdDe)
			cdPayloads = append(cdPayloads, cdPayload{t.Name(), c})
		}
	}
	sort.Slice(cdPayloads, func(i, j int) bool { return cdPayloads[i].code < cdPayloads[j].code })

	cdTypes["Message"] = &cdCodec{
		build: func(tree any) (func(io.Writer) error, error) {
			f, err := cdFields(tree)
			if err != nil {
				return nil, err
			}
			ts, _ := f["Type"].(string)
			code, err := strconv.ParseUint(ts, 10, 64)
			if err != nil {
				return nil, err
			}
			p := client.PayloadForType(code)
			if p == nil {
				return nil, fmt.Errorf("no payload for type %d", code)
			}
			px, has := f["Payload"]
			if !has {
				px = map[string]any{"s": []any{}}
			}
			ev, err := cdFromTree(px, reflect.TypeOf(p).Elem())
			if err != nil {
				return nil, err
			}
			reflect.ValueOf(p).Elem().Set(ev)
			msg := client.Message{Payload: p}
			return func(w io.Writer) error { return msg.Serialize(w) }, nil
		},
		de: func(in []byte) (any, int64, []int64, error) {
			r := bytes.NewReader(in)
			m, err := cdDecodeMessage(cdPlain{r})
			return m, int64(len(in) - r.Len()), nil, err
		},
	}

	for name, t := range map[string]reflect.Type{
		"TxState": reflect.TypeOf(client.TxState{}), "MerkleProof": reflect.TypeOf(client.MerkleProof{}),
		"wire.MsgTx": reflect.TypeOf(wire.MsgTx{}), "wire.OutPoint": reflect.TypeOf(wire.OutPoint{}),
		"wire.BlockHeader": cdTBlockHeader, "bitcoin.PublicKey": cdTPublicKey,
		"bitcoin.Signature": cdTSignature, "merkle_proof.MerkleProof": cdTDepProof,
	} {
		cdTypes[name] = cdGeneric(t, cdSer, cdDe)
	}
	// as messages.go (Tx) calls them; tx version 1
	cdTypes["wire.TxOut"] = cdGeneric(reflect.TypeOf(wire.TxOut{}),
		func(p reflect.Value, w io.Writer) error {
			return p.Interface().(*wire.TxOut).Serialize(w, wire.ProtocolVersion, 1)
		},
		func(p reflect.Value, r io.Reader) error {
			return p.Interface().(*wire.TxOut).Deserialize(r, wire.ProtocolVersion, 1)
		})
	cdTypes["FeeQuote"] = cdGeneric(reflect.TypeOf(merchant_api.FeeQuote{}),
		func(p reflect.Value, w io.Writer) error {
			return client.SerializeFeeQuote(p.Interface().(*merchant_api.FeeQuote), w)
		},
		func(p reflect.Value, r io.Reader) error {
			fq, err := client.DeserializeFeeQuote(r)
			if err == nil {
				p.Elem().Set(reflect.ValueOf(*fq))
			}
			return err
		})

	// stored records (decode only)
	// (the record parser readPeer is only reached through PeerRepository.Load: the overlay calls no internal reader
	// directly, so that a change of an internal signature cannot break the harness build)
	cdTypes["storage.Peers"] = cdStoreDe(storage.VerifCodecPeersPath(),
		func(ctx context.Context, store *VStore) (any, int, error) {
			repo := storage.NewPeerRepository(store)
			err := repo.Load(ctx)
			l := repo.VerifCodecPeers()
			err2 := repo.Load(ctx) // a second load on the same object: same outcome, no lock left behind
			if (err == nil) != (err2 == nil) || (err == nil && len(repo.VerifCodecPeers()) != len(l)) {
				panic("second load of the same peers file differs from the first")
			}
			return l, len(l), err
		})
	cdTypes["storage.Reorg"] = cdBufferDe(func(b *bytes.Buffer) (any, error) {
		x := &storage.Reorg{}
		return x, x.Read(b)
	})
	cdTypes["storage.ReorgBlock"] = cdBufferDe(func(b *bytes.Buffer) (any, error) {
		x := &storage.ReorgBlock{}
		return x, x.Read(b)
	})
	cdTypes["storage.ReorgActive"] = cdStoreDe(storage.VerifCodecReorgActivePath(),
		func(ctx context.Context, store *VStore) (any, int, error) {
			repo := storage.NewReorgRepository(store)
			r, err := repo.GetActive(ctx)
			r2, err2 := repo.GetActive(ctx)
			if (err == nil) != (err2 == nil) || (r == nil) != (r2 == nil) {
				panic("second read of the same reorg record differs from the first")
			}
			return r, int(b2i(r != nil)), err
		})
	// List() searches the prefix "spynode/reorgs"; archived entries live at spynode/reorgs/<id hex>
	cdTypes["storage.ReorgList"] = cdStoreDe("spynode/reorgs/00verif",
		func(ctx context.Context, store *VStore) (any, int, error) {
			l, err := storage.NewReorgRepository(store).List(ctx)
			return l, len(l), err
		})
	// Load passes the version byte of the file (save writes 0); the parser ignores it
	cdTypes["storage.UnconfirmedTx"] = cdReaderDe(func(r *bytes.Reader) (any, error) {
		return storage.VerifCodecReadUnconfirmedTx(r, 0)
	})
	cdTypes["storage.Unconfirmed"] = cdStoreDe(storage.VerifCodecUnconfirmedPath(),
		func(ctx context.Context, store *VStore) (any, int, error) {
			repo := storage.NewTxRepository(store)
			err := repo.Load(ctx)
			l := repo.VerifCodecUnconfirmedList()
			err2 := repo.Load(ctx)
			if (err == nil) != (err2 == nil) || (err == nil && len(repo.VerifCodecUnconfirmedList()) != len(l)) {
				panic("second load of the same unconfirmed file differs from the first")
			}
			return l, len(l), err
		})
	// through the public path the headers handler uses (GetBlock takes the block lock; on success the caller
	// releases it), twice on the same repository: a decode that fails must leave the repository usable
	// (a lock kept on the error path makes the second call hang -> time-out class of the hostile run)
	cdTypes["storage.TxBlock"] = cdStoreDe(storage.VerifCodecTxBlockPath(cdTxBlockHeight),
		func(ctx context.Context, store *VStore) (any, int, error) {
			repo := storage.NewTxRepository(store)
			l, err := repo.GetBlock(ctx, cdTxBlockHeight)
			if err == nil {
				repo.ReleaseBlock(ctx, cdTxBlockHeight)
			}
			l2, err2 := repo.GetBlock(ctx, cdTxBlockHeight)
			if err2 == nil {
				repo.ReleaseBlock(ctx, cdTxBlockHeight)
			}
			if (err == nil) != (err2 == nil) || len(l) != len(l2) {
				panic("second decode of the same block tx file differs from the first")
			}
			return l, len(l), err
		})
}

// ------------------------------------------------------------------------------------------------
// Ops

func cdHexArg(o Op, i int) []byte {
	b, err := hex.DecodeString(o.Str(i))
	if err != nil {
		panic(harnessErr(fmt.Sprintf("op %s arg %d: %v", o.Name, i, err)))
	}
	return b
}

func cdOpSer(name string, raw json.RawMessage) Obs {
	cd := cdLookup(name)
	if cd.build == nil {
		panic(harnessErr("codec: " + name + " is decode only"))
	}
	var tree any
	if err := json.Unmarshal(raw, &tree); err != nil {
		return Obs{-3}
	}
	var ser func(io.Writer) error
	if cdTry(func() (err error) { ser, err = cd.build(tree); return }) != OK {
		return Obs{-3}
	}
	var buf bytes.Buffer
	if class := cdTry(func() error { return ser(&buf) }); class != OK {
		return Obs{class}
	}
	return append(Obs{OK}, bytesObs(buf.Bytes())...)
}

// cdOpDe returns [class, consumed, extra...] and the decoded value (nil unless class 0).
func cdOpDe(name string, in []byte) (Obs, any) {
	cd := cdLookup(name)
	var val any
	var consumed int64
	var extra []int64
	class := cdTry(func() (err error) { val, consumed, extra, err = cd.de(in); return })
	if class == PANIC {
		return Obs{PANIC, 0}, nil
	}
	if class != OK {
		val = nil
	}
	return append(Obs{class, consumed}, extra...), val
}

func cdTreeOf(val any) any {
	if val == nil {
		return nil
	}
	v := reflect.ValueOf(val)
	if v.Kind() == reflect.Ptr && !v.IsNil() {
		v = v.Elem() // the top level is never an optional
	}
	return cdToTree(v)
}

// cdOpStream decodes messages from one reader until it is empty or an attempt fails.  consumed is
// the reader position when the loop stops (for a panic: the start of the panicking message).
func cdOpStream(in []byte) (Obs, any) {
	r := bytes.NewReader(in)
	trees := []any{}
	class, consumed := int64(OK), int64(0)
	for r.Len() > 0 && class == OK {
		var m cdMessage
		class = cdTry(func() (err error) { m, err = cdDecodeMessage(cdPlain{r}); return })
		if class != PANIC {
			consumed = int64(len(in) - r.Len())
		}
		if class == OK {
			trees = append(trees, cdTreeOf(m))
		}
	}
	return Obs{class, int64(len(trees)), consumed}, trees
}

var cdOdecTypes = map[string]reflect.Type{
	"PublicKey": cdTPublicKey, "Signature": cdTSignature, "merkle_proof.MerkleProof": cdTDepProof,
	"BlockHeader": cdTBlockHeader, "ExpandedTx": cdTExpandedTx, "AncestorTxs": cdTAncestorTxs,
}

// cdOpOdec runs one opaque decoder alone.
func cdOpOdec(name string, in []byte) Obs {
	t, ok := cdOdecTypes[name]
	if !ok {
		panic(harnessErr("codec: unknown opaque decoder " + name))
	}
	p := reflect.New(t)
	if t == cdTExpandedTx || t == cdTAncestorTxs {
		class := cdTry(func() error { _, err := bsor.UnmarshalBinary(in, p.Interface()); return err })
		if class != OK {
			return Obs{class, 0}
		}
		return Obs{OK, int64(len(in))}
	}
	r := bytes.NewReader(in)
	class := cdTry(func() error { return p.Interface().(cdSerDe).Deserialize(r) })
	if class == PANIC {
		return Obs{PANIC, 0}
	}
	return Obs{class, int64(len(in) - r.Len())}
}

func runCodec(c *Case) ([]Obs, any) {
	result := []Obs{}
	extra := []any{}
	for _, raw := range c.Ops {
		op := decodeOp(raw)
		var obs Obs
		var ex any
		switch op.Name {
		case "ser":
			obs = cdOpSer(op.Str(0), op.Args[1])
		case "de":
			var val any
			obs, val = cdOpDe(op.Str(0), cdHexArg(op, 1))
			ex = cdTreeOf(val)
		case "stream":
			obs, ex = cdOpStream(cdHexArg(op, 0))
		case "types":
			l := []any{}
			for _, p := range cdPayloads {
				l = append(l, []any{p.name, strconv.FormatUint(p.code, 10)})
			}
			obs, ex = Obs{OK}, l
		case "sample":
			obs = append(Obs{OK}, bytesObs(cdSample(op.Str(0), op.Int(1)))...)
		case "odec":
			obs = cdOpOdec(op.Str(0), cdHexArg(op, 1))
		default:
			panic(harnessErr("unknown op " + op.Name))
		}
		result = append(result, obs)
		extra = append(extra, ex)
	}
	return result, extra
}

// ------------------------------------------------------------------------------------------------
// Samples of the opaque types (deterministic in seed; every sample is checked to round-trip)

func cdSeedHash(seed int64, tag string) bitcoin.Hash32 {
	return bitcoin.Hash32(sha256.Sum256([]byte(fmt.Sprintf("%d%s", seed, tag))))
}

// cdSampleKey: private key = sha256(decimal seed) (re-hashed with a counter if out of range).
func cdSampleKey(seed int64) bitcoin.Key {
	for i := 0; ; i++ {
		tag := ""
		if i > 0 {
			tag = fmt.Sprintf("#%d", i)
		}
		h := cdSeedHash(seed, tag)
		if k, err := bitcoin.KeyFromNumber(h[:], bitcoin.MainNet); err == nil {
			return k
		}
	}
}

func cdSampleScript(seed int64, tag string) bitcoin.Script { // P2PKH
	h := cdSeedHash(seed, tag)
	return append(append([]byte{0x76, 0xa9, 0x14}, h[:20]...), 0x88, 0xac)
}

func cdSampleTx(seed int64, tag string) *wire.MsgTx { // 1 input, 1 output
	h := cdSeedHash(seed, tag+"prev")
	tx := wire.NewMsgTx(1)
	tx.AddTxIn(wire.NewTxIn(wire.NewOutPoint(&h, uint32(h[0]&3)), append([]byte{4}, h[1:5]...)))
	tx.AddTxOut(wire.NewTxOut(1000+uint64(h[5]), cdSampleScript(seed, tag+"out")))
	return tx
}

func cdSampleHeader(seed int64) *wire.BlockHeader {
	a, b, c := cdSeedHash(seed, "hdr0"), cdSeedHash(seed, "hdr1"), cdSeedHash(seed, "hdr2")
	h := &wire.BlockHeader{}
	if err := h.Deserialize(bytes.NewReader(append(append(a[:], b[:]...), c[:16]...))); err != nil {
		panic(harnessErr("codec: sample header: " + err.Error()))
	}
	return h
}

// cdSampleProof: path length 0..3, target header / merkle root / block hash, with or without the
// tx embedded, optionally a duplicate node at layer 1.
func cdSampleProof(seed int64) *merkle_proof.MerkleProof {
	u := uint64(seed)
	n := int(u % 4)
	target := (u / 4) % 3
	withTx := (u/12)%2 == 1
	dup := (u/24)%2 == 1
	mp := &merkle_proof.MerkleProof{}
	if withTx {
		mp.Tx = cdSampleTx(seed, "mptx")
		mp.TxID = mp.Tx.TxHash()
	} else {
		h := cdSeedHash(seed, "txid")
		mp.TxID = &h
	}
	for i := 0; i < n; i++ {
		mp.Path = append(mp.Path, cdSeedHash(seed, fmt.Sprintf("path%d", i)))
	}
	idx := (u / 48) % (1 << uint(n+int(b2i(dup))))
	if dup {
		mp.DuplicatedIndexes = []int{1}
		idx &^= 1 // only a left node can be duplicated
	}
	mp.Index = int(idx)
	h := cdSeedHash(seed, "target")
	switch target {
	case 0:
		mp.BlockHeader = cdSampleHeader(seed)
	case 1:
		mp.MerkleRoot = &h
	default:
		mp.BlockHash = &h
	}
	return mp
}

func cdSampleAncestor(seed int64, tag string, withProof bool) *expanded_tx.AncestorTx {
	a := &expanded_tx.AncestorTx{Tx: cdSampleTx(seed, tag)}
	if withProof {
		a.MerkleProofs = merkle_proof.MerkleProofs{cdSampleProof(seed / 4)}
	}
	return a
}

func cdSample(kind string, seed int64) []byte {
	var t reflect.Type
	var p any // pointer to the sampled value
	switch kind {
	case "PublicKey":
		k := cdSampleKey(seed).PublicKey()
		t, p = cdTPublicKey, &k
	case "Signature":
		s, err := cdSampleKey(seed).Sign(cdSeedHash(seed, "msg"))
		if err != nil {
			panic(harnessErr("codec: sample sign: " + err.Error()))
		}
		t, p = cdTSignature, &s
	case "merkle_proof.MerkleProof":
		t, p = cdTDepProof, cdSampleProof(seed)
	case "BlockHeader":
		t, p = cdTBlockHeader, cdSampleHeader(seed)
	case "ExpandedTx":
		etx := &expanded_tx.ExpandedTx{Tx: cdSampleTx(seed, "etx")}
		etx.SpentOutputs = expanded_tx.Outputs{{Value: 2000, LockingScript: cdSampleScript(seed, "spent")}}
		if seed%2 != 0 {
			etx.Ancestors = expanded_tx.AncestorTxs{cdSampleAncestor(seed, "anc", seed%4 == 3)}
		}
		t, p = cdTExpandedTx, etx
	case "AncestorTxs":
		l := expanded_tx.AncestorTxs{}
		for i := 0; i < int(uint64(seed)%3); i++ {
			l = append(l, cdSampleAncestor(seed, fmt.Sprintf("anc%d", i), (seed/3)%2 == 1))
		}
		t, p = cdTAncestorTxs, &l
	default:
		panic(harnessErr("codec: unknown sample kind " + kind))
	}
	// self check: enc, dec, enc again gives the same bytes
	op := cdOpaques[t]
	b, err := op.enc(reflect.ValueOf(p))
	if err == nil {
		q := reflect.New(t)
		if err = op.dec(q, b); err == nil {
			var b2 []byte
			if b2, err = op.enc(q); err == nil && !bytes.Equal(b, b2) {
				err = errors.New("does not round-trip")
			}
		}
	}
	if err != nil {
		panic(harnessErr(fmt.Sprintf("codec: sample %s %d: %v", kind, seed, err)))
	}
	return b
}

// ------------------------------------------------------------------------------------------------
// codec_hostile: decode in a child process that may be killed

// cdChildMain is the child loop: after the line "ready" on fd 3, stdin lines "T hex" -> fd 3 lines
// "class consumed totalalloc_delta".
// (fd 3 rather than stdout, because the code under test may log to stdout/stderr.)
func cdChildMain() {
	mb, _ := strconv.ParseUint(os.Getenv("VERIF_CODEC_ASLIMIT_MB"), 10, 64)
	if mb == 0 {
		mb = 2048
	}
	// The Go runtime has already reserved about 1.2 GiB of address space that it never touches, so
	// the limit is set to the current size of the address space plus aslimit_mb of headroom.
	var pages uint64
	if b, err := os.ReadFile("/proc/self/statm"); err == nil {
		fmt.Sscanf(string(b), "%d", &pages)
	}
	lim := syscall.Rlimit{Cur: pages*uint64(os.Getpagesize()) + mb<<20}
	lim.Max = lim.Cur
	if err := syscall.Setrlimit(syscall.RLIMIT_AS, &lim); err != nil {
		fmt.Fprintln(os.Stderr, "fatal error: setrlimit:", err)
		os.Exit(3)
	}
	go func() { // do not outlive the harness (a stuck decode would not notice the closed stdin)
		for parent := os.Getppid(); os.Getppid() == parent; {
			time.Sleep(time.Second)
		}
		os.Exit(4)
	}()
	out := os.NewFile(3, "answers")
	fmt.Fprintln(out, "ready")
	in := bufio.NewReaderSize(os.Stdin, 1<<16)
	var m0, m1 runtime.MemStats
	for {
		line, err := in.ReadString('\n')
		if err != nil {
			os.Exit(0)
		}
		parts := strings.SplitN(strings.TrimRight(line, "\n"), " ", 2)
		data, err := hex.DecodeString(parts[len(parts)-1])
		if err != nil || len(parts) != 2 {
			fmt.Fprintln(os.Stderr, "fatal error: bad request line")
			os.Exit(3)
		}
		runtime.ReadMemStats(&m0)
		var obs Obs
		if strings.HasPrefix(parts[0], "odec:") {
			obs = cdOpOdec(strings.TrimPrefix(parts[0], "odec:"), data)
		} else {
			obs, _ = cdOpDe(parts[0], data)
		}
		runtime.ReadMemStats(&m1)
		fmt.Fprintf(out, "%d %d %d\n", obs[0], obs[1], m1.TotalAlloc-m0.TotalAlloc)
	}
}

const (
	cdKILLED  = 3
	cdTIMEOUT = 4
)

// cdCapture keeps the beginning of the child's stderr (Go's fatal error dump).
type cdCapture struct {
	mu  sync.Mutex
	buf []byte
}

func (c *cdCapture) Write(p []byte) (int, error) {
	c.mu.Lock()
	defer c.mu.Unlock()
	if room := 1<<16 - len(c.buf); room >= len(p) {
		c.buf = append(c.buf, p...)
	} else if room > 0 {
		c.buf = append(c.buf, p[:room]...)
	}
	return len(p), nil
}

// reason: the first stderr line that is not a JSON log line of the code under test
func (c *cdCapture) reason() string {
	c.mu.Lock()
	defer c.mu.Unlock()
	for _, l := range strings.Split(string(c.buf), "\n") {
		if l = strings.TrimSpace(l); l != "" && !strings.HasPrefix(l, "{") {
			if len(l) > 200 {
				l = l[:200]
			}
			return l
		}
	}
	return ""
}

type cdChild struct {
	cmd    *exec.Cmd
	stdin  io.WriteCloser
	lines  chan string // answers; closed when the child's answer pipe reaches EOF
	stderr *cdCapture
}

func cdStartChild(aslimitMB int64) *cdChild {
	exe, err := os.Executable()
	if err != nil {
		exe = os.Args[0]
	}
	r, w, err := os.Pipe()
	if err != nil {
		panic(harnessErr("codec_hostile: pipe: " + err.Error()))
	}
	ch := &cdChild{cmd: exec.Command(exe), lines: make(chan string, 1), stderr: &cdCapture{}}
	ch.cmd.Env = append(os.Environ(), "VERIF_CODEC_CHILD=1", fmt.Sprintf("VERIF_CODEC_ASLIMIT_MB=%d", aslimitMB))
	ch.cmd.ExtraFiles = []*os.File{w} // fd 3 in the child
	ch.cmd.Stderr = ch.stderr         // stdout: discarded
	if ch.stdin, err = ch.cmd.StdinPipe(); err == nil {
		err = ch.cmd.Start()
	}
	w.Close()
	if err != nil {
		panic(harnessErr("codec_hostile: start child: " + err.Error()))
	}
	go func() {
		defer r.Close()
		defer close(ch.lines)
		br := bufio.NewReader(r)
		for {
			l, err := br.ReadString('\n')
			if err != nil {
				return
			}
			ch.lines <- l
		}
	}()
	// the child announces itself once its limit is set, so that timeouts measure decoding only
	select {
	case l := <-ch.lines:
		if l == "ready\n" {
			return ch
		}
	case <-time.After(60 * time.Second):
	}
	panic(harnessErr("codec_hostile: child did not start: " + ch.stop()))
}

// stop kills (if still running) and reaps the child; returns why it ended.
func (ch *cdChild) stop() string {
	ch.stdin.Close()
	ch.cmd.Process.Kill()
	err := ch.cmd.Wait()
	return strings.TrimSpace(fmt.Sprint(err) + ": " + ch.stderr.reason())
}

// ask sends one input and waits for the answer; alive=false when the child has to be replaced.
func (ch *cdChild) ask(name, hexIn string, timeout time.Duration) (obs Obs, alive bool) {
	go io.WriteString(ch.stdin, name+" "+hexIn+"\n") // a failed write shows up as EOF on lines
	timer := time.NewTimer(timeout)
	defer timer.Stop()
	select {
	case l, ok := <-ch.lines:
		var class, consumed, delta int64
		if !ok {
			return Obs{cdKILLED, 0, -1}, false
		}
		if n, _ := fmt.Sscanf(l, "%d %d %d", &class, &consumed, &delta); n != 3 {
			panic(harnessErr("codec_hostile: bad child answer " + l))
		}
		return Obs{class, consumed, delta}, true
	case <-timer.C:
		return Obs{cdTIMEOUT, 0, -1}, false
	}
}

// runCodecHostile: cfg aslimit_mb (default 2048, headroom), timeout_ms (default 10000).  extra entry per op:
// null, or a string describing how the child ended (class 3 / 4).
func runCodecHostile(c *Case) ([]Obs, any) {
	aslimit := cfgInt(c, "aslimit_mb", 2048)
	timeout := time.Duration(cfgInt(c, "timeout_ms", 10000)) * time.Millisecond
	var child *cdChild
	defer func() {
		if child != nil {
			child.stop()
		}
	}()
	result := []Obs{}
	extra := []any{}
	for _, raw := range c.Ops {
		op := decodeOp(raw)
		name := op.Str(0)
		switch op.Name {
		case "de":
			cdLookup(name)
		case "odec": // the opaque (dependency) decoder alone, in the child: it may allocate without bound
			if _, ok := cdOdecTypes[name]; !ok {
				panic(harnessErr("codec_hostile: unknown opaque decoder " + name))
			}
			name = "odec:" + name
		default:
			panic(harnessErr("codec_hostile: unknown op " + op.Name))
		}
		cdHexArg(op, 1)
		if child == nil {
			child = cdStartChild(aslimit)
		}
		obs, alive := child.ask(name, op.Str(1), timeout)
		var ex any
		if !alive {
			ex = child.stop()
			child = nil
		} else if obs[2] > 64<<20 {
			// address space is never given back: do not let one big allocation starve later inputs
			child.stop()
			child = nil
		}
		result = append(result, obs)
		extra = append(extra, ex)
	}
	return result, extra
}
