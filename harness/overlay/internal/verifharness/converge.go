//go:build verif

package main

// Component "converge" (property C01): the real node (handler map, ProcessBlock, check,
// CheckTimeouts, Reset, new Node) connected to a Bitcoin-node-like peer that is a Go
// transcription of coq/model/Peer.v: same data, same deterministic order.  The peer reacts to the
// messages the node REALLY puts on its outgoing channel / returns from its handlers.
//
// ops:  ["deliver",k] ["dup",k] ["answer",k] ["process"] ["check"] ["advance",dt] ["timeouts"]
//       ["disconnect"] ["restartnode"] ["peer_set_best",[ids]] ["settle",n]
// observation: code, digest (as component sync), length of peer info, peer info, payload
//   peer info = missing count, sendheaders received, best chain, channel, unanswered node messages
// cfg: parents, start, m (most headers per getheaders reply)

import (
	"time"

	"github.com/tokenized/pkg/bitcoin"
	"github.com/tokenized/pkg/wire"
	"github.com/tokenized/spynode/internal/spynode"
)

func init() { register("converge", runConverge) }

type cmsg struct {
	kind int64 // 1 version, 2 headers, 3 block, 4 inv of a block
	ids  []int64
}

type creq struct {
	kind int64 // 1 getheaders, 2 getdata, 3 sendheaders
	ids  []int64
}

type convWorld struct {
	sibling bool
	f       *flowNode
	bu      *Universe
	su      *syncUniverse
	start   int64
	parents map[int64]int64
	m       int

	bg   bool                      // cfg bgblocks: blocks are processed by the REAL processBlocks goroutine
	bt   *spynode.VerifBlockThread // ... while it is held between its pop and ProcessBlock
	dead bool                      // ... it has ended on its own on this connection

	midBlock *gatedBlock // observation ops process_mid_hold / process_mid_release
	midDone  chan error
	injDone  chan struct{}

	best  []int64
	sh    bool
	chanl []cmsg
	reqs  []creq
	heard []int64
}

const (
	convHT  = 30
	convHDT = 60
	convBT  = 600
)

func (w *convWorld) parentOf(id int64) int64 {
	if p, ok := w.parents[id]; ok {
		return p
	}
	return id - 1 // Sync.table_fn's default
}

func (w *convWorld) header(id int64) *wire.BlockHeader {
	if h, ok := w.bu.Known(id); ok {
		return h
	}
	return w.su.header(id, w.parentOf(id))
}

// digest is the digest of component sync: computed from the real State and BlockRepository queries.
func (w *convWorld) digest() ([]int64, []int64) {
	f := w.f
	st := f.node.VerifState()
	repo := f.node.VerifBlocks()
	lh := st.LastHash()
	tipH := repo.LastHeight()
	linked, inverse := int64(1), int64(1)
	var ids []int64
	var prevHash *bitcoin.Hash32
	for h := 0; h <= tipH; h++ {
		hdr, err := repo.Header(f.ctx, h)
		if err != nil {
			linked, inverse = 0, 0
			ids = append(ids, -66)
			prevHash = nil
			continue
		}
		hash := hdr.BlockHash()
		ids = append(ids, w.bu.ID(hash))
		if h > 0 && (prevHash == nil || !hdr.PrevBlock.Equal(prevHash)) {
			linked = 0
		}
		hh, ok := repo.Height(hash)
		hash2, err2 := repo.Hash(f.ctx, h)
		if !ok || hh != h || err2 != nil || !hash2.Equal(hash) || !repo.Contains(hash) {
			inverse = 0
		}
		prevHash = hash
	}
	d := []int64{b2i(st.IsReady()), b2i(st.IsPendingSync()), int64(st.StartHeight()), w.bu.ID(&lh),
		int64(st.BlocksRequestedCount()), int64(st.BlocksToRequestCount()), linked, inverse, int64(tipH + 1)}
	return append(d, ids...), ids
}

func containsID(l []int64, x int64) bool {
	for _, y := range l {
		if y == x {
			return true
		}
	}
	return false
}

func (w *convWorld) missing(chain []int64) int64 {
	n := int64(0)
	for _, id := range w.heard {
		if containsID(w.best, id) && !containsID(chain, id) {
			n++
		}
	}
	return n
}

func (w *convWorld) pinfo(chain []int64) []int64 {
	p := []int64{w.missing(chain), b2i(w.sh), b2i(w.threadAlive()), int64(len(w.best))}
	p = append(p, w.best...)
	p = append(p, int64(len(w.chanl)), int64(len(w.reqs)))
	for _, m := range w.chanl {
		switch m.kind {
		case 1:
			p = append(p, 1)
		case 2:
			p = append(p, 2, int64(len(m.ids)))
			p = append(p, m.ids...)
		case 3, 4:
			p = append(p, m.kind, m.ids[0])
		}
	}
	for _, r := range w.reqs {
		switch r.kind {
		case 1, 2:
			p = append(p, r.kind, int64(len(r.ids)))
			p = append(p, r.ids...)
		case 3:
			p = append(p, 3)
		}
	}
	return p
}

// threadAlive: the block processing thread of the current connection has not ended on its own (always
// true when the harness processes blocks itself)
func (w *convWorld) threadAlive() bool { return !w.dead }

// newConnection: Run starts a new processBlocks goroutine for every connection
func (w *convWorld) newConnection() {
	if w.bt != nil { // a held thread of the old connection ends with it
		w.bt.Finish()
		w.bt = nil
	}
	w.dead = false
}

// bgProcess: the real block thread gets its turn and runs until it is idle.  Payload: announced
// (height, id) pairs, then the getdata messages it queued (one per processed block that let more blocks
// be requested).
func (w *convWorld) bgProcess() (int64, []int64) {
	f := w.f
	if !w.dead {
		bt := w.bt
		w.bt = nil
		if bt == nil {
			bt, _ = f.node.VerifStartBlockThread(f.ctx, false)
		}
		if bt.Finish() {
			w.dead = true
		}
	}
	var ann []int64
	for _, e := range f.rec.take() {
		if e.kind == 3 {
			ann = append(ann, e.h, w.bu.HeaderID(e.hdr))
		}
	}
	o := append([]int64{int64(len(ann) / 2)}, ann...)
	var gds [][]int64
	for _, m := range f.drainOutgoing() {
		ids := w.getdataIDs([]wire.Message{m})
		if len(ids) > 0 {
			gds = append(gds, ids)
			w.reqs = append(w.reqs, creq{kind: 2, ids: ids})
		}
	}
	o = append(o, int64(len(gds)))
	for _, ids := range gds {
		o = append(o, int64(len(ids)))
		o = append(o, ids...)
	}
	return OK, o
}

// bgHold: the block thread pops the delivered block at the head of the queue and is held before the
// parent check of ProcessBlock
func (w *convWorld) bgHold() bool {
	if w.dead || w.bt != nil {
		return false
	}
	bt, popped := w.f.node.VerifStartBlockThread(w.f.ctx, true)
	w.bt = bt
	return popped
}

// gatedBlock: a block whose merkle validation waits for the harness (for a large block the real
// validation hashes every transaction, so this window is not small in production either).
type gatedBlock struct {
	wire.Block
	reached chan struct{}
	gate    chan struct{}
}

func (b *gatedBlock) IsMerkleRootValid() bool {
	close(b.reached)
	<-b.gate
	return b.Block.IsMerkleRootValid()
}

func (w *convWorld) midHold() int64 {
	st := w.f.node.VerifState()
	blk := st.NextBlock()
	if blk == nil {
		return 0
	}
	g := &gatedBlock{Block: blk, reached: make(chan struct{}), gate: make(chan struct{})}
	done := make(chan error, 1)
	go func() {
		err := w.f.node.ProcessBlock(w.f.ctx, g)
		st.BlockProcessed()
		done <- err
	}()
	w.midBlock, w.midDone = g, done
	select {
	case <-g.reached:
		return 1
	case err := <-done:
		done <- err
		return 2
	}
}

// midRelease: 0 ProcessBlock returned nil, 1 it returned an error, -1 nothing was held
func (w *convWorld) midRelease() int64 {
	if w.midBlock == nil {
		return -1
	}
	select {
	case <-w.midBlock.reached:
		close(w.midBlock.gate)
	default:
	}
	err := <-w.midDone
	w.midBlock, w.midDone = nil, nil
	if w.injDone != nil {
		<-w.injDone
		w.injDone = nil
	}
	w.f.rec.take()
	w.f.drainOutgoing()
	if err != nil {
		return 1
	}
	return 0
}

func (w *convWorld) frame(code int64, payload []int64) Obs {
	d, chain := w.digest()
	pi := w.pinfo(chain)
	o := append(Obs{code}, d...)
	o = append(o, int64(len(pi)))
	o = append(o, pi...)
	return append(o, payload...)
}

func (w *convWorld) connReset() {
	w.sh = false
	w.chanl = []cmsg{{kind: 1}}
	w.reqs = nil
}

func (w *convWorld) getdataIDs(msgs []wire.Message) []int64 {
	var ids []int64
	for _, m := range msgs {
		if gd, ok := m.(*wire.MsgGetData); ok {
			for _, iv := range gd.InvList {
				if iv.Type == wire.InvTypeBlock {
					ids = append(ids, w.bu.ID(&iv.Hash))
				}
			}
		}
	}
	return ids
}

// ---- node steps: payload as in component sync (without the leading code), what the node sent ----

func (w *convWorld) nodeVersion() (int64, []int64) {
	me := wire.NewNetAddressIPPort([]byte{127, 0, 0, 1}, 8333, 0)
	v := wire.NewMsgVersion(me, me, 7, 0)
	if _, err := w.f.node.VerifHandlers()[wire.CmdVersion].Handle(w.f.ctx, v); err != nil {
		return ERR, nil
	}
	return OK, nil
}

func (w *convWorld) nodeHeaders(ids []int64) (int64, []int64) {
	msg := wire.NewMsgHeaders()
	for _, id := range ids {
		msg.AddBlockHeader(w.header(id))
	}
	resp, err := w.f.node.VerifHandlers()[wire.CmdHeaders].Handle(w.f.ctx, msg)
	if err != nil {
		return ERR, nil
	}
	if resp == nil {
		return OK, []int64{0}
	}
	gd := w.getdataIDs(resp)
	if len(gd) > 0 {
		w.reqs = append(w.reqs, creq{kind: 2, ids: gd})
	}
	return OK, append([]int64{1, int64(len(gd))}, gd...)
}

func (w *convWorld) nodeBlock(id int64) (int64, []int64) {
	hdr := w.header(id)
	blk := &wire.MsgBlock{Header: *hdr}
	blk.AddTransaction(blockTx(id, 0))
	if _, err := w.f.node.VerifHandlers()[wire.CmdBlock].Handle(w.f.ctx, blk); err != nil {
		return ERR, nil
	}
	return OK, nil
}

// nodeInv: a block inventory through the real inv handler of the trusted connection
func (w *convWorld) nodeInv(id int64) (int64, []int64) {
	h := w.bu.HashOf(id)
	inv := wire.NewMsgInv()
	inv.AddInvVect(wire.NewInvVect(wire.InvTypeBlock, &h))
	resp, err := w.f.node.VerifHandlers()[wire.CmdInv].Handle(w.f.ctx, inv)
	if err != nil {
		return ERR, nil
	}
	if len(resp) > 0 {
		return OK, []int64{int64(len(resp))} // the model expects no reaction
	}
	return OK, nil
}

func (w *convWorld) nodeProcess() (int64, []int64) {
	f := w.f
	blk, err := f.node.VerifProcessOne(f.ctx)
	if blk == nil {
		return OK, []int64{0}
	}
	hdr := blk.GetHeader()
	o := []int64{1, w.bu.HeaderID(&hdr)}
	code := int64(0)
	if err != nil {
		code = 1
	}
	o = append(o, code)
	for _, e := range f.rec.take() {
		if e.kind == 3 {
			o = append(o, e.h, w.bu.HeaderID(e.hdr))
		}
	}
	gd := w.getdataIDs(f.drainOutgoing())
	if len(gd) > 0 {
		w.reqs = append(w.reqs, creq{kind: 2, ids: gd})
	}
	o = append(o, int64(len(gd)))
	return OK, append(o, gd...)
}

// nodeCheck returns the payload and whether HandleInSync was delivered.
func (w *convWorld) nodeCheck() (int64, []int64, bool) {
	f := w.f
	if err := f.node.VerifCheck(f.ctx); err != nil {
		return ERR, nil, false
	}
	var o []int64
	msgs := f.drainOutgoing()
	for _, m := range msgs {
		if mm, ok := m.(*wire.MsgGetHeaders); ok {
			var loc []int64
			for _, h := range mm.BlockLocatorHashes {
				loc = append(loc, w.bu.ID(h))
			}
			o = append(o, 1, int64(len(loc)))
			o = append(o, loc...)
		}
	}
	for _, m := range msgs {
		if _, ok := m.(*wire.MsgSendHeaders); ok {
			o = append(o, 2)
		}
	}
	for _, m := range msgs {
		if _, ok := m.(*wire.MsgGetAddr); ok {
			o = append(o, 3)
		}
	}
	// what goes to the peer, in the order the node queued it
	for _, m := range msgs {
		switch mm := m.(type) {
		case *wire.MsgGetHeaders:
			var loc []int64
			for _, h := range mm.BlockLocatorHashes {
				loc = append(loc, w.bu.ID(h))
			}
			w.reqs = append(w.reqs, creq{kind: 1, ids: loc})
		case *wire.MsgSendHeaders:
			w.reqs = append(w.reqs, creq{kind: 3})
		}
	}
	insync := false
	for _, e := range f.rec.take() {
		if e.kind == 4 {
			o = append(o, 4)
			insync = true
		}
	}
	return OK, o, insync
}

func (w *convWorld) nodeAdvance(dt int64) {
	w.f.node.VerifState().VerifAge(time.Duration(dt) * time.Second)
}

// nodeTimeouts: CheckTimeouts; an error restarts the connection (Reset + MarkConnected)
func (w *convWorld) nodeTimeouts() (int64, []int64) {
	st := w.f.node.VerifState()
	if err := st.CheckTimeouts(); err != nil {
		w.newConnection()
		st.Reset()
		st.MarkConnected()
		w.connReset()
		return OK, []int64{1}
	}
	return OK, []int64{0}
}

func (w *convWorld) nodeDisconnect() {
	st := w.f.node.VerifState()
	w.newConnection()
	st.Reset()
	st.MarkConnected()
	w.connReset()
}

func (w *convWorld) nodeRestart() int64 {
	f := w.f
	w.newConnection()
	f.node.VerifBlocks().Save(f.ctx)
	f.node.VerifTxs().Save(f.ctx)
	code := int64(OK)
	if err := f.bootErr(w.start); err != nil {
		f.boot(w.start)
		code = ERR
	}
	f.node.VerifState().MarkConnected()
	w.connReset()
	return code
}

// ---- the peer (Peer.v) ----

func (w *convWorld) isChain(c []int64) bool {
	if len(c) == 0 || c[0] != 0 {
		return false
	}
	p := int64(0)
	for _, x := range c[1:] {
		if x == 0 || w.parentOf(x) != p {
			return false
		}
		p = x
	}
	return true
}

func (w *convWorld) peerSet(c []int64) {
	// cfg sibling: the peer may also replace its tip by a chain of the same length (a sibling with more work)
	same := w.sibling && len(w.best) == len(c) && len(c) > 0 && w.best[len(c)-1] != c[len(c)-1]
	if !w.isChain(c) || !(len(w.best) < len(c) || same) {
		return
	}
	k := 0
	for k < len(w.best) && k < len(c) && w.best[k] == c[k] {
		k++
	}
	ann := append([]int64{}, c[k:]...)
	w.best = append([]int64{}, c...)
	if w.sh {
		w.chanl = append(w.chanl, cmsg{kind: 2, ids: ann})
	} else {
		w.chanl = append(w.chanl, cmsg{kind: 4, ids: []int64{c[len(c)-1]}})
	}
}

func (w *convWorld) answerGetHeaders(loc []int64) []int64 {
	start := int64(0)
	for _, l := range loc {
		if containsID(w.best, l) {
			start = l
			break
		}
	}
	var after []int64
	for i, x := range w.best {
		if x == start {
			after = w.best[i+1:]
			break
		}
	}
	if len(after) > w.m {
		after = after[:w.m]
	}
	return append([]int64{}, after...)
}

func (w *convWorld) peerAnswer(k int64) {
	if len(w.reqs) == 0 {
		return
	}
	i := int(k % int64(len(w.reqs)))
	r := w.reqs[i]
	w.reqs = append(append([]creq{}, w.reqs[:i]...), w.reqs[i+1:]...)
	switch r.kind {
	case 1:
		w.chanl = append(w.chanl, cmsg{kind: 2, ids: w.answerGetHeaders(r.ids)})
	case 2:
		for _, id := range r.ids {
			w.chanl = append(w.chanl, cmsg{kind: 3, ids: []int64{id}})
		}
	case 3:
		w.sh = true
	}
}

// deliver: payload as the corresponding sync op
func (w *convWorld) deliver(k int64) (int64, []int64) {
	if len(w.chanl) == 0 {
		return OK, nil
	}
	i := int(k % int64(len(w.chanl)))
	m := w.chanl[i]
	w.chanl = append(append([]cmsg{}, w.chanl[:i]...), w.chanl[i+1:]...)
	switch m.kind {
	case 1:
		return w.nodeVersion()
	case 2:
		for _, id := range m.ids {
			if !containsID(w.heard, id) {
				w.heard = append(w.heard, id)
			}
		}
		return w.nodeHeaders(m.ids)
	case 4:
		return w.nodeInv(m.ids[0])
	default:
		return w.nodeBlock(m.ids[0])
	}
}

func (w *convWorld) dup(k int64) {
	if len(w.chanl) == 0 {
		return
	}
	i := int(k % int64(len(w.chanl)))
	w.chanl = append(w.chanl, w.chanl[i])
}

// ---- settling run (Peer.v settle1 / settle_run) ----

func (w *convWorld) checkEnabled() bool {
	st := w.f.node.VerifState()
	if !st.VersionReceived() {
		return false
	}
	if !st.HandshakeComplete() {
		return true
	}
	if st.IsReady() {
		return !st.SentSendHeaders() || !st.AddressesRequested() || !st.WasInSync() ||
			(!st.NotifiedSync() && st.TotalBlockRequestCount() == 0)
	}
	return st.HeadersRequested() == nil && st.TotalBlockRequestCount() < 5
}

func (w *convWorld) converged() bool {
	_, chain := w.digest()
	if len(chain) != len(w.best) {
		return false
	}
	for i := range chain {
		if chain[i] != w.best[i] {
			return false
		}
	}
	return w.f.node.VerifState().IsReady()
}

// one settle step; kind as in Peer.v; for a check that notifies: the missing count and the number of
// outstanding block requests at that moment (-1 otherwise)
func (w *convWorld) settle1() (int64, int64, int64) {
	st := w.f.node.VerifState()
	if len(w.chanl) > 0 {
		w.deliver(0)
		return 1, -1, -1
	}
	if len(w.reqs) > 0 {
		w.peerAnswer(0)
		return 2, -1, -1
	}
	if st.VerifHeadReady() {
		if w.bg {
			if !w.threadAlive() {
				return 0, -1, -1 // delivered blocks that nobody will ever process: no step possible
			}
			w.bgProcess()
		} else {
			w.nodeProcess()
		}
		return 3, -1, -1
	}
	if w.checkEnabled() {
		_, chain := w.digest()
		miss := w.missing(chain)
		outst := int64(st.TotalBlockRequestCount())
		_, _, insync := w.nodeCheck()
		if insync {
			return 4, miss, outst
		}
		return 4, -1, -1
	}
	if w.converged() {
		return 0, -1, -1
	}
	dt := int64(convBT + 1)
	w.nodeAdvance(dt)
	if err := st.CheckTimeouts(); err != nil {
		w.newConnection()
		st.Reset()
		st.MarkConnected()
		w.connReset()
		return 5, -1, -1
	}
	w.nodeAdvance(-dt) // nothing is armed: the clock is left alone
	return 0, -1, -1
}

func (w *convWorld) quiescent() bool {
	st := w.f.node.VerifState()
	if len(w.chanl) > 0 || len(w.reqs) > 0 || st.VerifHeadReady() || w.checkEnabled() {
		return false
	}
	if w.converged() {
		return true
	}
	dt := int64(convBT + 1)
	w.nodeAdvance(dt)
	err := st.CheckTimeouts()
	w.nodeAdvance(-dt)
	return err == nil
}

func runConverge(c *Case) ([]Obs, any) {
	bu := NewUniverse()
	tu := NewTxUniverse()
	su := &syncUniverse{bu}
	store := NewVStore(cfgInt(c, "rm_err", 1) != 0)
	start := cfgInt(c, "start", 0)
	parents := map[int64]int64{}
	if raw, ok := c.Cfg["parents"]; ok {
		var pl [][]int64
		jsonUnmarshal(raw, &pl)
		for _, p := range pl {
			parents[p[0]] = p[1]
		}
		var create func(id int64)
		create = func(id int64) {
			if id <= 0 {
				return
			}
			if _, ok := bu.Known(id); ok {
				return
			}
			if p, ok := parents[id]; ok {
				create(p)
				su.header(id, p)
			}
		}
		for _, p := range pl {
			create(p[0])
		}
	}
	f := newFlowNodeCfg(store, bu, tu, testCfg{delay: 2000, mempool: cfgInt(c, "mempool", 0) != 0}, start)
	f.node.VerifState().MarkConnected()
	w := &convWorld{f: f, bu: bu, su: su, start: start, parents: parents, m: int(cfgInt(c, "m", 2000)),
		best: []int64{0}, chanl: []cmsg{{kind: 1}}, bg: cfgInt(c, "bgblocks", 0) != 0, sibling: cfgInt(c, "sibling", 0) != 0}
	defer w.newConnection()

	var result []Obs
	for _, raw := range c.Ops {
		op := decodeOp(raw)
		obs := guard(func() Obs {
			switch op.Name {
			case "deliver":
				code, p := w.deliver(op.Int(0))
				return w.frame(code, p)
			case "dup":
				w.dup(op.Int(0))
				return w.frame(OK, nil)
			case "answer":
				w.peerAnswer(op.Int(0))
				return w.frame(OK, nil)
			case "process":
				if w.bg {
					code, p := w.bgProcess()
					return w.frame(code, p)
				}
				code, p := w.nodeProcess()
				return w.frame(code, p)
			case "process_hold":
				// the block thread pops the delivered block at the head of the queue and is held before the
				// parent check of ProcessBlock (payload: was a block popped)
				if !w.bg {
					panic(harnessErr("process_hold needs cfg bgblocks"))
				}
				return w.frame(OK, []int64{b2i(w.bgHold())})
			case "process_mid_hold":
				// OBSERVATION ops (no registered check uses them; findings/parent_race.py does): the next
				// delivered block is popped like processBlocks does and handed to the real ProcessBlock in a
				// goroutine; its merkle validation - which ProcessBlock runs AFTER the parent check and BEFORE
				// blocks.Add - waits.  payload: 0 nothing to pop, 1 held in the validation, 2 ProcessBlock
				// returned before reaching it
				return w.frame(OK, []int64{w.midHold()})
			case "inject_headers":
				// OBSERVATION op: a headers message with these blocks straight into the real headers handler
				// in a goroutine; the op returns when the handler has returned or after 300 ms (payload 1: the
				// handler is still waiting, e.g. for a lock held by the block in process_mid_hold; it is
				// awaited by process_mid_release)
				ids := op.Ints(0)
				done := make(chan struct{})
				go func() { w.nodeHeaders(ids); close(done) }()
				select {
				case <-done:
					return w.frame(OK, []int64{0})
				case <-time.After(300 * time.Millisecond):
					w.injDone = done
					return w.frame(OK, []int64{1})
				}
			case "process_mid_release":
				return w.frame(OK, []int64{w.midRelease()})
			case "process_release":
				if !w.bg {
					panic(harnessErr("process_release needs cfg bgblocks"))
				}
				code, p := w.bgProcess()
				return w.frame(code, p)
			case "check":
				code, p, _ := w.nodeCheck()
				return w.frame(code, p)
			case "advance":
				dt := op.Int(0)
				if dt < 0 {
					dt = 0
				}
				w.nodeAdvance(dt)
				return w.frame(OK, nil)
			case "timeouts":
				code, p := w.nodeTimeouts()
				return w.frame(code, p)
			case "disconnect":
				w.nodeDisconnect()
				return w.frame(OK, nil)
			case "restartnode":
				code := w.nodeRestart()
				return w.frame(code, nil)
			case "peer_set_best":
				w.peerSet(op.Ints(0))
				return w.frame(OK, nil)
			case "settle":
				n := op.Int(0)
				steps, touts := int64(0), int64(0)
				var ins []int64
				for i := int64(0); i < n; i++ {
					k, miss, outst := w.settle1()
					if k == 0 {
						break
					}
					steps++
					if k == 5 {
						touts++
					}
					if miss >= 0 {
						ins = append(ins, miss, outst)
					}
				}
				p := []int64{b2i(w.quiescent()), steps, touts, int64(len(ins) / 2)}
				return w.frame(OK, append(p, ins...))
			}
			panic(harnessErr("unknown op " + op.Name))
		})
		f.rec.take()
		f.drainOutgoing()
		result = append(result, obs)
	}
	return result, nil
}
