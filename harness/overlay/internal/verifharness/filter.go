//go:build verif

package main

import (
	"context"
	"encoding/json"

	"github.com/tokenized/pkg/bitcoin"
	"github.com/tokenized/pkg/wire"
	"github.com/tokenized/specification/dist/golang/actions"
	"github.com/tokenized/specification/dist/golang/protocol"
	"github.com/tokenized/spynode/internal/spynode"
	"github.com/tokenized/spynode/pkg/client"
)

func init() {
	register("filter", runFilter)
	register("scriptlib", runScriptLib)
}

func (o Op) Bytes(i int) []byte {
	v := o.Ints(i)
	b := make([]byte, len(v))
	for j, x := range v {
		b[j] = byte(x)
	}
	return b
}

func (o Op) ByteLists(i int) [][]byte {
	v := o.IntLists(i)
	r := make([][]byte, len(v))
	for k, l := range v {
		b := make([]byte, len(l))
		for j, x := range l {
			b[j] = byte(x)
		}
		r[k] = b
	}
	return r
}

func bytesObs(b []byte) []int64 {
	r := make([]int64, len(b))
	for i, x := range b {
		r[i] = int64(x)
	}
	return r
}

// runScriptLib returns real Tokenized action scripts for the generator (cfg.test = isTest):
// ops: ["mk", kind] with kind in cf | ic | transfer | message
func runScriptLib(c *Case) ([]Obs, any) {
	isTest := cfgInt(c, "test", 1) != 0
	var result []Obs
	for _, raw := range c.Ops {
		op := decodeOp(raw)
		var a actions.Action
		switch op.Str(0) {
		case "cf":
			a = &actions.ContractFormation{ContractName: "verif contract", Timestamp: 1600000000000000000}
		case "ic":
			a = &actions.InstrumentCreation{InstrumentCode: make([]byte, 20), InstrumentType: "COU", Timestamp: 1600000000000000000}
		case "transfer":
			a = &actions.Transfer{}
		default:
			a = &actions.Message{MessageCode: 2}
		}
		script, err := protocol.Serialize(a, isTest)
		if err != nil {
			panic(harnessErr("serialize action: " + err.Error()))
		}
		result = append(result, append(Obs{OK}, bytesObs(script)...))
	}
	return result, nil
}

func runFilter(c *Case) ([]Obs, any) {
	ctx := context.Background()
	node := spynode.NewNode(testConfig(), NewVStore(true), nil, nil)
	_ = json.Valid
	var result []Obs
	for _, raw := range c.Ops {
		op := decodeOp(raw)
		obs := guard(func() Obs {
			switch op.Name {
			case "subscribe":
				if err := node.SubscribePushDatas(ctx, op.ByteLists(0)); err != nil {
					return Obs{ERR}
				}
				return Obs{OK}
			case "unsubscribe":
				if err := node.UnsubscribePushDatas(ctx, op.ByteLists(0)); err != nil {
					return Obs{ERR}
				}
				return Obs{OK}
			case "subaddress": // [[20-byte hash]...] single : the client's helper for an address (one hash: a PKH
				// address, several: a multi-PKH address); single != 0: SubscribeAddress, else SubscribeAddresses
				pkhs := op.ByteLists(0)
				var ra bitcoin.RawAddress
				var err error
				if len(pkhs) == 1 {
					ra, err = bitcoin.NewRawAddressPKH(pkhs[0])
				} else {
					ra, err = bitcoin.NewRawAddressMultiPKH(1, pkhs)
				}
				if err != nil {
					panic(harnessErr("address: " + err.Error()))
				}
				if op.Int(1) != 0 {
					err = client.SubscribeAddress(ctx, ra, node)
				} else {
					err = client.SubscribeAddresses(ctx, []bitcoin.RawAddress{ra}, node)
				}
				if err != nil {
					return Obs{ERR}
				}
				return Obs{OK}
			case "subcontracts":
				node.SubscribeContracts(ctx)
				return Obs{OK}
			case "unsubcontracts":
				node.UnsubscribeContracts(ctx)
				return Obs{OK}
			case "isrelevant": // output scripts, input scripts
				tx := wire.NewMsgTx(1)
				for _, s := range op.ByteLists(1) {
					tx.AddTxIn(wire.NewTxIn(&wire.OutPoint{Index: 1}, s))
				}
				for _, s := range op.ByteLists(0) {
					tx.AddTxOut(wire.NewTxOut(1, s))
				}
				return Obs{OK, b2i(node.IsRelevant(ctx, tx))}
			case "rotate_race": // iterations : IsRelevant of a tx matching X (output) and Y (input) while another goroutine
				// rotates the subscription {Y} -> {Y,X} -> {X} -> {X,Y} -> {Y}; at every instant the tx matches
				x, y := bytes20(0x31), bytes20(0x32)
				if err := node.SubscribePushDatas(ctx, [][]byte{y}); err != nil {
					return Obs{ERR}
				}
				tx := wire.NewMsgTx(1)
				tx.AddTxIn(wire.NewTxIn(&wire.OutPoint{Index: 1}, append([]byte{20}, y...)))
				tx.AddTxOut(wire.NewTxOut(1, append([]byte{20}, x...)))
				stop := make(chan struct{})
				done := make(chan struct{})
				go func() {
					defer close(done)
					for {
						select {
						case <-stop:
							return
						default:
						}
						node.SubscribePushDatas(ctx, [][]byte{x})
						node.UnsubscribePushDatas(ctx, [][]byte{y})
						node.SubscribePushDatas(ctx, [][]byte{y})
						node.UnsubscribePushDatas(ctx, [][]byte{x})
					}
				}()
				missed := int64(0)
				for i := int64(0); i < op.Int(0); i++ {
					if !node.IsRelevant(ctx, tx) {
						missed++
					}
				}
				close(stop)
				<-done
				return Obs{OK, missed}
			case "hash160":
				return append(Obs{OK}, bytesObs(bitcoin.Hash160(op.Bytes(0)))...)
			case "subscribed":
				l := node.VerifPushDataHashes()
				o := Obs{OK, int64(len(l))}
				for _, h := range l {
					o = append(o, bytesObs(h)...)
				}
				return o
			}
			panic(harnessErr("unknown op " + op.Name))
		})
		result = append(result, obs)
	}
	return result, nil
}


func bytes20(b byte) []byte {
	r := make([]byte, 20)
	for i := range r {
		r[i] = b
	}
	return r
}
