//go:build verif

// verifharness executes generated operation sequences against the real spynode packages and
// prints one canonical observation (a list of integers) per operation.
//
// usage: verifharness <request.json> <response.json>
// request : {"component": "...", "cases": [ {"cfg": {...}, "ops": [["name", args...], ...]}, ...]}
// response: {"results": [ [[ints...], ...], ...]}   one list of observations per case
package main

import (
	"encoding/json"
	"fmt"
	"os"
	"runtime"
	"sync"
)

type Case struct {
	Cfg map[string]json.RawMessage `json:"cfg"`
	Ops []json.RawMessage          `json:"ops"`
}

type Request struct {
	Component string `json:"component"`
	Cases     []Case `json:"cases"`
}

type Obs []int64

type Response struct {
	Results [][]Obs `json:"results"`
	Extra   []any   `json:"extra,omitempty"`
}

// Outcome classes (first integer of every observation unless stated otherwise)
const (
	OK    = 0
	ERR   = 1
	PANIC = 2
)

type runner func(c *Case) ([]Obs, any)

var components = map[string]runner{}

func register(name string, r runner) { components[name] = r }

func cfgInt(c *Case, key string, def int64) int64 {
	raw, ok := c.Cfg[key]
	if !ok {
		return def
	}
	var v int64
	if err := json.Unmarshal(raw, &v); err != nil {
		var b bool
		if err2 := json.Unmarshal(raw, &b); err2 == nil {
			if b {
				return 1
			}
			return 0
		}
		panic(fmt.Sprintf("cfg %s: %v", key, err))
	}
	return v
}

// Op is a decoded operation: name + integer / nested arguments.
type Op struct {
	Name string
	Args []json.RawMessage
}

func decodeOp(raw json.RawMessage) Op {
	var parts []json.RawMessage
	if err := json.Unmarshal(raw, &parts); err != nil {
		panic(harnessErr(fmt.Sprintf("bad op %s: %v", string(raw), err)))
	}
	var name string
	if err := json.Unmarshal(parts[0], &name); err != nil {
		panic(fmt.Sprintf("bad op name %s: %v", string(raw), err))
	}
	return Op{Name: name, Args: parts[1:]}
}

func (o Op) Int(i int) int64 {
	var v int64
	if err := json.Unmarshal(o.Args[i], &v); err != nil {
		panic(harnessErr(fmt.Sprintf("op %s arg %d: %v", o.Name, i, err)))
	}
	return v
}

func (o Op) Ints(i int) []int64 {
	var v []int64
	if err := json.Unmarshal(o.Args[i], &v); err != nil {
		panic(harnessErr(fmt.Sprintf("op %s arg %d: %v", o.Name, i, err)))
	}
	return v
}

func (o Op) IntLists(i int) [][]int64 {
	var v [][]int64
	if err := json.Unmarshal(o.Args[i], &v); err != nil {
		panic(harnessErr(fmt.Sprintf("op %s arg %d: %v", o.Name, i, err)))
	}
	return v
}

func (o Op) Str(i int) string {
	var v string
	if err := json.Unmarshal(o.Args[i], &v); err != nil {
		panic(harnessErr(fmt.Sprintf("op %s arg %d: %v", o.Name, i, err)))
	}
	return v
}

// guard runs f and converts a run-time panic into the PANIC observation.
func guard(f func() Obs) (obs Obs) {
	defer func() {
		if r := recover(); r != nil {
			if he, ok := r.(harnessErr); ok {
				panic(he)
			}
			if os.Getenv("VERIF_DEBUG") != "" {
				buf := make([]byte, 4096)
				n := runtime.Stack(buf, false)
				fmt.Fprintf(os.Stderr, "panic: %v\n%s\n", r, buf[:n])
			}
			obs = Obs{PANIC}
		}
	}()
	return f()
}

// harnessErr is a fault of the harness itself (bad op name, bad argument); never an observation.
type harnessErr string

func b2i(b bool) int64 {
	if b {
		return 1
	}
	return 0
}

func main() {
	if len(os.Args) < 3 {
		fmt.Fprintln(os.Stderr, "usage: verifharness <request.json> <response.json>")
		os.Exit(2)
	}
	data, err := os.ReadFile(os.Args[1])
	if err != nil {
		fmt.Fprintln(os.Stderr, err)
		os.Exit(2)
	}
	var req Request
	if err := json.Unmarshal(data, &req); err != nil {
		fmt.Fprintln(os.Stderr, err)
		os.Exit(2)
	}
	run, ok := components[req.Component]
	if !ok {
		fmt.Fprintf(os.Stderr, "unknown component %q\n", req.Component)
		os.Exit(2)
	}

	resp := Response{Results: make([][]Obs, len(req.Cases)), Extra: make([]any, len(req.Cases))}
	workers := runtime.NumCPU()
	if serialComponents[req.Component] {
		workers = 1
	}
	var wg sync.WaitGroup
	ch := make(chan int)
	for w := 0; w < workers; w++ {
		wg.Add(1)
		go func() {
			defer wg.Done()
			for i := range ch {
				func() {
					defer func() {
						if r := recover(); r != nil {
							// a panic outside an op guard: harness error, reported as such
							fmt.Fprintf(os.Stderr, "harness panic in case %d: %v\n", i, r)
							buf := make([]byte, 8192)
							n := runtime.Stack(buf, false)
							fmt.Fprintf(os.Stderr, "%s\n", buf[:n])
							resp.Results[i] = []Obs{{-99}}
						}
					}()
					resp.Results[i], resp.Extra[i] = run(&req.Cases[i])
				}()
			}
		}()
	}
	for i := range req.Cases {
		ch <- i
	}
	close(ch)
	wg.Wait()

	out, err := json.Marshal(resp)
	if err != nil {
		fmt.Fprintln(os.Stderr, err)
		os.Exit(2)
	}
	if err := os.WriteFile(os.Args[2], out, 0644); err != nil {
		fmt.Fprintln(os.Stderr, err)
		os.Exit(2)
	}
}

// components that must not run cases in parallel (timing sensitive)
var serialComponents = map[string]bool{}

func jsonUnmarshal(raw json.RawMessage, v any) {
	if err := json.Unmarshal(raw, v); err != nil {
		panic(harnessErr("cfg: " + err.Error()))
	}
}
