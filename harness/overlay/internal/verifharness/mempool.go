//go:build verif

package main

import (
	"context"
	"time"

	"github.com/tokenized/spynode/internal/state"
)

func init() { register("mempool", runMemPool) }

func runMemPool(c *Case) ([]Obs, any) {
	ctx := context.Background()
	u := NewTxUniverse()
	mp := state.NewMemPool()
	u.Declare(c)
	var result []Obs
	for _, raw := range c.Ops {
		op := decodeOp(raw)
		obs := guard(func() Obs {
			switch op.Name {
			case "advance":
				mp.VerifAge(time.Duration(op.Int(0)) * time.Millisecond)
				return Obs{OK}
			case "addrequest": // txid trusted
				have, req := mp.AddRequest(ctx, u.HashOf(op.Int(0)), op.Int(1) != 0)
				return Obs{OK, b2i(have), b2i(req)}
			case "addtx": // txid body trusted
				tx := u.Tx(op.Int(0), op.Ints(1), nil, nil)
				conflicts, trusted, added := mp.AddTransaction(ctx, tx, op.Int(2) != 0)
				return append(Obs{OK, b2i(trusted), b2i(added)}, u.IDs(conflicts)...)
			case "removetx":
				return Obs{OK, b2i(mp.RemoveTransaction(u.HashOf(op.Int(0))))}
			case "exists":
				h := u.HashOf(op.Int(0))
				return Obs{OK, b2i(mp.TransactionExists(&h))}
			case "istrusted":
				return Obs{OK, b2i(mp.IsTrusted(ctx, u.HashOf(op.Int(0))))}
			case "conflicting": // body : a probe transaction that is not itself in the universe
				probe := u.Tx(-1000-int64(len(result)), op.Ints(0), nil, nil)
				return append(Obs{OK}, u.IDs(mp.Conflicting(probe))...)
			case "index": // outpoint
				opnt := u.OutPoint(op.Int(0))
				l, ok := mp.VerifIndex(*opnt.OutpointHash())
				if !ok {
					return Obs{OK, 0}
				}
				return append(Obs{OK, 1}, u.IDs(l)...)
			}
			panic(harnessErr("unknown op " + op.Name))
		})
		result = append(result, obs)
	}
	return result, nil
}
