//go:build verif

package main

import (
	"bytes"
	"context"

	"github.com/pkg/errors"
	"github.com/tokenized/pkg/bitcoin"
	"github.com/tokenized/pkg/wire"
	"github.com/tokenized/spynode/internal/handlers"
	"github.com/tokenized/spynode/internal/spynode"
	"github.com/tokenized/spynode/internal/state"
	"github.com/tokenized/spynode/pkg/client"
)

// Component "merkle" (property C04): drives the real Node.ProcessBlock with real wire.MsgBlock /
// wire.MsgParseBlock values (whose IsMerkleRootValid recomputes the root from the transactions) and
// records, per operation,
//
//	[code, chain height, header id of the tip, number of notifications, notifications...]
//
// a notification being
//
//	[3, height, header id]                                             HandleHeaders
//	[kind, txid, 0]                                                    HandleTx (1) / HandleTxUpdate (2) without proof
//	[kind, txid, 1, header id, index, depth, valid, npath, path..., ndups, dups...]
//
// where every path hash is replaced by the structural encoding of the symbolic node it is (the harness
// knows all leaves, recomputes the tree itself and so builds a table real hash -> symbolic node:
// a leaf is its txid number, -1 opens an inner node, -7 is a hash that is no node of the tree), `valid`
// is the result of the REAL client verifier client.MerkleProof.IsValid(txid) (0 nil, 1 ErrInvalid,
// 2 ErrWrongHash, 3 other) and `header id` is the id of the proof's header when that header is the one
// the node holds at the tip height (hash and merkle root), else -5.
//
// cfg:  insync 0/1 (node state in sync: mempool removal, save per block), parse 0/1 (0 wire.MsgBlock,
//
//	1 wire.MsgParseBlock obtained by encoding the block and decoding it like the connection does)
//
//	rel [t...] the relevant transactions (they pay to the subscribed hash)
//
// ops:  ["seen", t]                               tx t arrives unconfirmed (Node.HandleTx + processUnconfirmedTx)
//
//	["block", hid, prev, [committed], [body], lie]
//	                                          header hid (on prev) commits to the textbook root of `committed`;
//	                                          the body delivered with it is the listed transactions;
//	                                          lie=1 wraps the block in a type whose IsMerkleRootValid says true
//	["reorg", hid, prev, [committed], [body]] header hid on prev (any held header) is announced through the real
//	                                          handlers.HeadersHandler - a competing header makes it revert the chain to
//	                                          prev - then the block is supplied (state.AddBlock / NextBlock) and processed
//	["fault", [t...]]                         from now on the output fetcher fails when asked for the outputs spent by
//	                                          one of these transactions (replaces the previous set; [] = no fault):
//	                                          ProcessBlock then aborts in its second pass, after the first pass has
//	                                          recorded the block's new relevant txids in the per-height tx id file
//	["restart", graceful, insync]             the Node is dropped and a new one is built and loaded on the SAME storage;
//	                                          graceful=1 saves headers and the unconfirmed list first (shutdown),
//	                                          graceful=0 is a hard crash; insync = state of the new node
//	["refeed", [body]]                        probe only (never generated): Node.provideBlock, the refeed path
func init() { register("merkle", runMerkle) }

// symTable maps real hashes to the structural encoding of the symbolic node.
type symTable map[bitcoin.Hash32][]int64

// addTree recomputes the textbook tree (last node duplicated on odd levels) over the leaves.
func (st symTable) addTree(hashes []bitcoin.Hash32, ids []int64) {
	level := append([]bitcoin.Hash32{}, hashes...)
	for i, h := range level {
		if _, ok := st[h]; !ok {
			st[h] = []int64{ids[i]}
		}
	}
	for len(level) > 1 {
		if len(level)%2 == 1 {
			level = append(level, level[len(level)-1])
		}
		var next []bitcoin.Hash32
		for i := 0; i < len(level); i += 2 {
			h := dsha(append(append([]byte{}, level[i][:]...), level[i+1][:]...))
			if _, ok := st[h]; !ok {
				e := []int64{-1}
				e = append(e, st[level[i]]...)
				e = append(e, st[level[i+1]]...)
				st[h] = e
			}
			next = append(next, h)
		}
		level = next
	}
}

func (st symTable) enc(h bitcoin.Hash32) []int64 {
	if e, ok := st[h]; ok {
		return e
	}
	return []int64{-7}
}

// lyingBlock is a block whose IsMerkleRootValid does not look at the transactions.
type lyingBlock struct{ wire.Block }

func (b lyingBlock) IsMerkleRootValid() bool { return true }

// merkleTx builds (once) transaction t; it is relevant iff t is listed in cfg.rel; every transaction
// spends its own private outpoint, so there are no conflicts.
func merkleTx(tu *TxUniverse, rel map[int64]bool, t int64) *wire.MsgTx {
	return tu.TxRel(t, []int64{(100000 + t) * 10}, rel[t])
}

func (f *flowNode) encMerkleEvents(evs []recEvent, st symTable) []int64 {
	ctx := f.ctx
	var o []int64
	n := int64(0)
	for _, e := range evs {
		switch e.kind {
		case 3:
			n++
			o = append(o, 3, e.h, f.bu.HeaderID(e.hdr))
		case 1, 2:
			n++
			o = append(o, e.kind, f.tu.ID(&e.txid))
			mp := e.state.MerkleProof
			if mp == nil {
				o = append(o, 0)
				continue
			}
			hdr := int64(-5)
			blocks := f.node.VerifBlocks()
			if held, err := blocks.Header(ctx, blocks.LastHeight()); err == nil && held != nil {
				if held.BlockHash().Equal(mp.BlockHeader.BlockHash()) && held.MerkleRoot.Equal(&mp.BlockHeader.MerkleRoot) {
					hdr = f.bu.HeaderID(&mp.BlockHeader)
				}
			}
			valid := int64(0)
			if err := mp.IsValid(e.txid); err != nil {
				switch errors.Cause(err) {
				case client.ErrInvalid:
					valid = 1
				case client.ErrWrongHash:
					valid = 2
				default:
					valid = 3
				}
			}
			o = append(o, 1, hdr, int64(mp.Index), int64(e.state.UnconfirmedDepth), valid, int64(len(mp.Path)))
			for _, h := range mp.Path {
				o = append(o, st.enc(h)...)
			}
			o = append(o, int64(len(mp.DuplicatedIndexes)))
			for _, d := range mp.DuplicatedIndexes {
				o = append(o, int64(d))
			}
		}
	}
	return append([]int64{n}, o...)
}

// faultFetcher is the scripted output fetcher with fault injection: it fails when one of the requested
// outpoints is the private outpoint of a transaction in `fail`.
type faultFetcher struct {
	tu   *TxUniverse
	fail map[int64]bool
}

func (f *faultFetcher) GetOutputs(ctx context.Context, ops []wire.OutPoint) ([]bitcoin.UTXO, error) {
	for _, op := range ops {
		if id := f.tu.OutPointID(op); id >= 0 && f.fail[id/10-100000] {
			return nil, errors.New("injected output fetch fault")
		}
	}
	return (&scriptedFetcher{tu: f.tu}).GetOutputs(ctx, ops)
}

func (f *faultFetcher) GetTx(ctx context.Context, txid bitcoin.Hash32) (*wire.MsgTx, error) {
	return nil, errors.New("not available")
}

// bootMerkle builds a new Node on f.store and loads it (what flowNode.boot does, with the faulting fetcher).
func (f *flowNode) bootMerkle(fetcher *faultFetcher) {
	cfg := testConfig()
	cfg.SafeTxDelay = f.cfg.delay
	cfg.RequestMempool = false
	cfg.StartHash = f.bu.HashOf(0)
	f.node = spynode.NewNode(cfg, f.store, fetcher, fetcher)
	f.rec = &recorder{}
	f.node.RegisterHandler(f.rec)
	f.node.SubscribePushDatas(f.ctx, [][]byte{SubscribedData})
	if err := f.node.VerifLoad(f.ctx); err != nil {
		panic(harnessErr("load: " + err.Error()))
	}
	f.node.VerifTxChannel().Open(1000)
	f.node.VerifOutgoing().Open(1000)
	f.ustate = state.NewUntrustedState()
	f.utracker = state.NewTxTracker()
	f.untrust = handlers.NewUntrustedMessageHandlers(f.ctx, f.node.VerifState(), f.ustate, f.node.VerifPeers(),
		f.node.VerifBlocks(), f.utracker, f.node.VerifMemPool(), f.node.VerifTxChannel(), f.node, "untrusted:8333")
}

func runMerkle(c *Case) ([]Obs, any) {
	bu := NewUniverse()
	tu := NewTxUniverse()
	store := NewVStore(true)
	fetcher := &faultFetcher{tu: tu, fail: map[int64]bool{}}
	f := &flowNode{ctx: context.Background(), store: store, bu: bu, tu: tu, cfg: testCfg{delay: 2000}}
	f.bootMerkle(fetcher)
	ctx := f.ctx
	if cfgInt(c, "insync", 0) != 0 {
		f.node.VerifState().SetInSync()
	}
	parse := cfgInt(c, "parse", 0) != 0
	rel := map[int64]bool{}
	if raw, ok := c.Cfg["rel"]; ok {
		var l []int64
		jsonUnmarshal(raw, &l)
		for _, t := range l {
			rel[t] = true
		}
	}
	st := symTable{}
	var result []Obs
	for _, raw := range c.Ops {
		op := decodeOp(raw)
		obs := guard(func() Obs {
			finish := func(code int64) Obs {
				blocks := f.node.VerifBlocks()
				o := Obs{code, int64(blocks.LastHeight()), bu.ID(blocks.LastHash())}
				return append(o, f.encMerkleEvents(f.rec.take(), st)...)
			}
			switch op.Name {
			case "seen":
				tx := merkleTx(tu, rel, op.Int(0))
				if err := f.node.HandleTx(ctx, tx); err != nil {
					return finish(ERR)
				}
				if err := f.node.VerifDrainTxs(ctx); err != nil {
					return finish(ERR)
				}
				return finish(OK)
			case "block", "reorg":
				hid, prev := op.Int(0), op.Int(1)
				committed := op.Ints(2)
				var chashes []bitcoin.Hash32
				for _, t := range committed {
					chashes = append(chashes, *merkleTx(tu, rel, t).TxHash())
				}
				root := merkleRoot(chashes)
				hdr := bu.Header(hid, prev, 1400000000+hid*600, &root)
				var txs []*wire.MsgTx
				var hashes []bitcoin.Hash32
				ids := op.Ints(3)
				for _, t := range ids {
					tx := merkleTx(tu, rel, t)
					txs = append(txs, tx)
					hashes = append(hashes, *tx.TxHash())
				}
				st.addTree(chashes, committed)
				st.addTree(hashes, ids)
				mb := wire.NewMsgBlock(hdr)
				for _, tx := range txs {
					mb.AddTransaction(tx)
				}
				var blk wire.Block = mb
				// wire.MsgParseBlock.BtcDecode of a block message with ZERO transactions never returns:
				// calculateMerkleLevel([]) recurses on the empty list until the stack overflows (fatal, not
				// recoverable) - dependency defect, reported; such a body is delivered as wire.MsgBlock here.
				if parse && len(txs) > 0 {
					var buf bytes.Buffer
					if err := mb.BtcEncode(&buf, wire.ProtocolVersion); err != nil {
						panic(harnessErr("encode block: " + err.Error()))
					}
					pb := &wire.MsgParseBlock{}
					if err := pb.BtcDecode(bytes.NewReader(buf.Bytes()), wire.ProtocolVersion); err != nil {
						panic(harnessErr("decode block: " + err.Error()))
					}
					blk = pb
				}
				if op.Name == "reorg" {
					// the header is announced through the REAL headers handler (which reverts the chain, the
					// per-height tx id files and the in-sync flag when the header competes with processed
					// blocks); the block is then supplied and processed like Node.processBlocks does.
					// state.lastHash = the tip: what the normal flow has when no block request is pending.
					nstate := f.node.VerifState()
					nstate.SetLastHash(*f.node.VerifBlocks().LastHash())
					msg := wire.NewMsgHeaders()
					h := *hdr
					msg.AddBlockHeader(&h)
					if _, err := f.node.VerifHandlers()[wire.CmdHeaders].Handle(ctx, msg); err != nil {
						return finish(ERR)
					}
					if !nstate.AddBlock(hdr.BlockHash(), blk) {
						return finish(ERR) // the handler did not ask for this block
					}
					next := nstate.NextBlock()
					if next == nil {
						return finish(ERR)
					}
					perr := f.node.ProcessBlock(ctx, next)
					nstate.BlockProcessed()
					if perr != nil {
						return finish(ERR)
					}
					return finish(OK)
				}
				if op.Int(4) != 0 {
					blk = lyingBlock{blk}
				}
				if err := f.node.ProcessBlock(ctx, blk); err != nil {
					return finish(ERR)
				}
				return finish(OK)
			case "fault":
				fetcher.fail = map[int64]bool{}
				for _, t := range op.Ints(0) {
					merkleTx(tu, rel, t) // its outpoint id must be known before the fetcher is asked
					fetcher.fail[t] = true
				}
				return finish(OK)
			case "restart":
				if op.Int(0) != 0 {
					f.node.VerifBlocks().Save(ctx)
					if err := f.node.VerifTxs().Save(ctx); err != nil {
						return finish(ERR)
					}
				}
				f.bootMerkle(fetcher)
				if op.Int(1) != 0 {
					f.node.VerifState().SetInSync()
				}
				return finish(OK)
			case "refeed": // [body]: the refeed path provideBlock on the tip's header with this body (probe, not generated)
				blocks := f.node.VerifBlocks()
				held, err := blocks.Header(ctx, blocks.LastHeight())
				if err != nil || held == nil {
					return finish(ERR)
				}
				mb := wire.NewMsgBlock(held)
				var hashes []bitcoin.Hash32
				for _, t := range op.Ints(0) {
					tx := merkleTx(tu, rel, t)
					mb.AddTransaction(tx)
					hashes = append(hashes, *tx.TxHash())
				}
				st.addTree(hashes, op.Ints(0))
				if err := f.node.VerifProvideBlock(ctx, mb, blocks.LastHeight()); err != nil {
					return finish(ERR)
				}
				return finish(OK)
			}
			panic(harnessErr("unknown op " + op.Name))
		})
		if obs[0] == PANIC {
			blocks := f.node.VerifBlocks()
			obs = Obs{PANIC, int64(blocks.LastHeight()), bu.ID(blocks.LastHash())}
			obs = append(obs, f.encMerkleEvents(f.rec.take(), st)...)
		}
		f.drainOutgoing()
		result = append(result, obs)
	}
	return result, nil
}
