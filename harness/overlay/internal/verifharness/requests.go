//go:build verif

package main

import (
	"context"

	"github.com/tokenized/pkg/wire"
	"github.com/tokenized/spynode/internal/state"
)

func init() { register("requests", runRequests) }

// fakeBlock is a wire.Block of a given header and serialized size.
type fakeBlock struct {
	header wire.BlockHeader
	size   int
}

func (b *fakeBlock) GetHeader() wire.BlockHeader        { return b.header }
func (b *fakeBlock) IsMerkleRootValid() bool            { return true }
func (b *fakeBlock) GetTxCount() uint64                 { return 0 }
func (b *fakeBlock) GetNextTx() (*wire.MsgTx, error)    { return nil, nil }
func (b *fakeBlock) ResetTxs()                          {}
func (b *fakeBlock) SerializeSize() int                 { return b.size }

func runRequests(c *Case) ([]Obs, any) {
	ctx := context.Background()
	u := NewUniverse()
	st := state.NewState()
	st.SetLastHash(u.HashOf(0))
	digest := func() []int64 {
		return []int64{int64(st.BlocksRequestedCount()), int64(st.BlocksToRequestCount()),
			int64(st.VerifPendingBlockSize())}
	}
	var result []Obs
	for _, raw := range c.Ops {
		op := decodeOp(raw)
		obs := guard(func() Obs {
			switch op.Name {
			case "announce": // prev h
				prev, h := u.HashOf(op.Int(0)), u.HashOf(op.Int(1))
				now, err := st.AddBlockRequest(&prev, &h)
				if err != nil {
					return Obs{ERR}
				}
				return Obs{OK, b2i(now)}
			case "deliver": // h size
				h := u.HashOf(op.Int(0))
				ok := st.AddBlock(&h, &fakeBlock{size: int(op.Int(1))})
				return Obs{OK, b2i(ok)}
			case "pop":
				b := st.NextBlock()
				if b == nil {
					return Obs{OK, 0}
				}
				st.BlockProcessed() // processBlocks: the popped block has been processed
				// the popped block is identified by the new last saved hash
				lh := st.LastHash()
				_ = lh
				saved := st.VerifLastSaved()
				return Obs{OK, 1, u.ID(&saved)}
			case "next":
				h, n := st.GetNextBlockToRequest()
				if h == nil {
					return Obs{OK, 0}
				}
				return Obs{OK, 1, u.ID(h), int64(n)}
			case "clearall":
				st.ClearBlockRequests(ctx)
				return Obs{OK}
			case "clearafter":
				st.ClearBlockRequestsAfter(ctx, u.HashOf(op.Int(0)))
				return Obs{OK}
			case "setlast":
				st.SetLastHash(u.HashOf(op.Int(0)))
				return Obs{OK}
			case "reset":
				st.Reset()
				return Obs{OK}
			case "lasthash":
				h := st.LastHash()
				return Obs{OK, u.ID(&h)}
			case "reqhash":
				h := st.BlockRequestHash(int(op.Int(0)))
				if h == nil {
					return Obs{OK, 0}
				}
				return Obs{OK, 1, u.ID(h)}
			case "isrequested":
				h := u.HashOf(op.Int(0))
				return Obs{OK, b2i(st.BlockIsRequested(&h))}
			case "istoberequested":
				h := u.HashOf(op.Int(0))
				return Obs{OK, b2i(st.BlockIsToBeRequested(&h))}
			}
			panic(harnessErr("unknown op " + op.Name))
		})
		if obs[0] != PANIC {
			obs = append(obs, digest()...)
		}
		result = append(result, obs)
	}
	return result, nil
}
