//go:build verif

package main

// Component "sendmachine": deterministic schedules of the remote client's send path with the REAL
// runConnection (its real sendMessages / receiveMessages goroutines and its teardown), the real
// sendMessage / sendDirect and the real Ready, over an in-memory connection that records every
// write, can stop accepting writes, can end its read side, and closes slowly (so that whatever the
// teardown does before the close returns really happens before the socket is closed).
// Request ids: odd ids are handshake-type messages (SubscribeTx), even ids are not (GetTx).

import (
	"fmt"
	"os"
	"bytes"
	"context"
	"errors"
	"io"
	"net"
	"sync"
	"time"

	"github.com/tokenized/config"
	"github.com/tokenized/pkg/bitcoin"
	"github.com/tokenized/pkg/wire"
	"github.com/tokenized/spynode/pkg/client"
)

func init() {
	register("sendmachine", runSendMachine)
	serialComponents["sendmachine"] = false
}

type vconn struct {
	mu        sync.Mutex
	id        int64
	buf       bytes.Buffer
	closed    bool
	broken    bool
	readEnd   chan struct{}
	readOnce  sync.Once
	closeWait time.Duration
}

func newVConn(id int64) *vconn {
	return &vconn{id: id, readEnd: make(chan struct{}), closeWait: 40 * time.Millisecond}
}

func (c *vconn) Read(b []byte) (int, error) {
	<-c.readEnd
	return 0, io.EOF
}

func (c *vconn) Write(b []byte) (int, error) {
	c.mu.Lock()
	defer c.mu.Unlock()
	if c.closed || c.broken {
		return 0, errors.New("use of closed network connection")
	}
	c.buf.Write(b)
	return len(b), nil
}

func (c *vconn) Close() error {
	time.Sleep(c.closeWait) // a slow close: the socket stays writable until Close returns
	c.mu.Lock()
	c.closed = true
	c.mu.Unlock()
	c.endRead()
	return nil
}

func (c *vconn) endRead()  { c.readOnce.Do(func() { close(c.readEnd) }) }
func (c *vconn) breakNow() { c.mu.Lock(); c.broken = true; c.mu.Unlock() }

func (c *vconn) LocalAddr() net.Addr                { return &net.TCPAddr{} }
func (c *vconn) RemoteAddr() net.Addr               { return &net.TCPAddr{} }
func (c *vconn) SetDeadline(t time.Time) error      { return nil }
func (c *vconn) SetReadDeadline(t time.Time) error  { return nil }
func (c *vconn) SetWriteDeadline(t time.Time) error { return nil }

type smSend struct {
	id   int64
	done chan error
	res  error
	fin  bool
}

func runSendMachine(c *Case) ([]Obs, any) {
	ctx := context.Background()
	tu := NewTxUniverse()
	cfg := client.NewConfig("127.0.0.1:1", keyFromInt(7).PublicKey(), keyFromInt(11), 100, client.ConnectionTypeFull)
	cfg.MessageChannelTimeout = config.NewDuration(150 * time.Millisecond)
	cfg.HandshakeTimeout = config.NewDuration(time.Duration(cfgInt(c, "hs_timeout_ms", 60000)) * time.Millisecond)
	rc, err := client.NewRemoteClient(cfg)
	if err != nil {
		panic(harnessErr("new client: " + err.Error()))
	}
	rc.VerifInit(100)
	interrupt := make(chan interface{})
	defer close(interrupt)
	receive := make(chan *client.Message, 100)

	var conns []*vconn
	completed := map[int64]bool{}
	completedAt := map[int64]int{}
	var carried *client.VerifCarried
	type connRes struct {
		carried *client.VerifCarried
		err     error
	}
	var running chan connRes
	sends := map[int64]*smSend{}
	var sessions []bitcoin.Hash32
	dataN := int64(0)

	txid := func(id int64) bitcoin.Hash32 { return *tu.TxRel(id, []int64{9000 + id}, false).TxHash() }
	msgFor := func(id int64) *client.Message {
		if id%2 != 0 {
			return &client.Message{Payload: &client.SubscribeTx{TxID: txid(id)}}
		}
		return &client.Message{Payload: &client.GetTx{TxID: txid(id)}}
	}
	idOf := func(m *client.Message) int64 {
		switch p := m.Payload.(type) {
		case *client.SubscribeTx:
			return tu.ID(&p.TxID)
		case *client.GetTx:
			return tu.ID(&p.TxID)
		case *client.Ready:
			return -1
		case *client.Ping:
			return 300 // a request type (even id: not a handshake message)
		}
		return -2
	}
	settle := func() { time.Sleep(25 * time.Millisecond) }
	poll := func(s *smSend, wait time.Duration) {
		if s.fin {
			return
		}
		select {
		case e := <-s.done:
			s.res, s.fin = e, true
		case <-time.After(wait):
		}
	}

	var out []Obs
	for _, raw := range c.Ops {
		op := decodeOp(raw)
		o := guard(func() Obs {
			switch op.Name {
			case "connect":
				if running != nil {
					panic(harnessErr("connect while a connection runs"))
				}
				vc := newVConn(int64(len(conns) + 1))
				conns = append(conns, vc)
				running = make(chan connRes, 1)
				ch := running
				cr := carried
				carried = nil
				go func() {
					r, e := rc.VerifRunConnection(ctx, vc, receive, cr, interrupt)
					ch <- connRes{r, e}
				}()
				settle()
				return Obs{OK}
			case "complete":
				pre := 0
				if len(conns) > 0 {
					vc := conns[len(conns)-1]
					vc.mu.Lock()
					pre = vc.buf.Len()
					vc.mu.Unlock()
				}
				err := rc.Ready(ctx, 1)
				if err == nil && len(conns) > 0 {
					vc := conns[len(conns)-1]
					if !completed[vc.id] {
						completedAt[vc.id] = pre
					}
					completed[vc.id] = true
				}
				settle()
				return Obs{b2i(err != nil)}
			case "send":
				id := op.Int(0)
				s := &smSend{id: id, done: make(chan error, 1)}
				sends[id] = s
				go func() { s.done <- rc.VerifSendMessage(ctx, msgFor(id), 150*time.Millisecond) }()
				settle()
				poll(s, 10*time.Millisecond)
				return Obs{OK, b2i(s.fin && s.res == nil)}
			case "break":
				if len(conns) > 0 {
					conns[len(conns)-1].breakNow()
				}
				return Obs{OK}
			case "drop":
				if running == nil {
					panic(harnessErr("drop without a connection"))
				}
				settle()
				conns[len(conns)-1].endRead()
				var r connRes
				select {
				case r = <-running:
				case <-time.After(5 * time.Second):
					panic(harnessErr("runConnection did not return"))
				}
				running = nil
				carried = r.carried
				settle()
				return Obs{OK}
			case "pinger": // Run starts the keep-alive goroutine (real ping: one Ping every two minutes)
				go func() {
					err := rc.VerifPing(ctx, interrupt)
					if os.Getenv("VERIF_DEBUG") != "" {
						fmt.Fprintf(os.Stderr, "ping goroutine ended: %v\n", err)
					}
				}()
				return Obs{OK}
			case "sleep":
				time.Sleep(time.Duration(op.Int(0)) * time.Millisecond)
				return Obs{OK}
			case "gensession": // what connect() does before it dials: a fresh session hash / server session key
				h, err := rc.VerifGenerateSession()
				if err != nil {
					return Obs{ERR}
				}
				sessions = append(sessions, h)
				return Obs{OK}
			case "srv_accept": // n: the message-handling goroutine handles the accept the service made for session n
				// (0: an accept signed by a key that is not the service's)
				m := &client.AcceptRegister{PushDataCount: 1, UTXOCount: 2, MessageCount: 3}
				n := int(op.Int(0))
				var key bitcoin.Key
				var hash bitcoin.Hash32
				if n >= 1 && n <= len(sessions) {
					hash = sessions[n-1]
					k, err := bitcoin.NextKey(keyFromInt(7), hash)
					if err != nil {
						panic(harnessErr("next key: " + err.Error()))
					}
					key = k
				} else {
					if len(sessions) > 0 {
						hash = sessions[len(sessions)-1]
					}
					key = keyFromInt(13)
				}
				m.Key = key.PublicKey()
				sh, err := m.SigHash(hash)
				if err != nil {
					panic(harnessErr("sighash: " + err.Error()))
				}
				if m.Signature, err = key.Sign(*sh); err != nil {
					panic(harnessErr("sign: " + err.Error()))
				}
				herr := rc.VerifHandleMessage(ctx, &client.Message{Payload: m})
				a, _ := rc.VerifFlags()
				return Obs{b2i(herr != nil), b2i(a)}
			case "flags":
				a, _ := rc.VerifFlags()
				return Obs{OK, b2i(a)}
			case "srv_data": // the message-handling goroutine handles a tx message carrying the expected message id
				next := rc.NextMessageID()
				dataN++
				tx := tu.TxRel(5000+dataN, []int64{90000 + dataN}, false)
				outs := []*wire.TxOut{wire.NewTxOut(1000, []byte{0x51})}
				if err := rc.VerifHandleMessage(ctx, &client.Message{Payload: &client.Tx{ID: next, Tx: tx, Outputs: outs}}); err != nil {
					return Obs{ERR}
				}
				return Obs{OK, b2i(rc.NextMessageID() != next)}
			case "writes":
				o := Obs{OK}
				for _, vc := range conns {
					vc.mu.Lock()
					data := append([]byte(nil), vc.buf.Bytes()...)
					vc.mu.Unlock()
					r := bytes.NewReader(data)
					for r.Len() > 0 {
						off := len(data) - r.Len()
						m := &client.Message{}
						if err := m.Deserialize(r); err != nil {
							break
						}
						id := idOf(m)
						if id == -1 {
							continue // the ready message itself
						}
						o = append(o, vc.id, id, b2i(completed[vc.id] && off >= completedAt[vc.id]))
					}
				}
				return o
			}
			panic(harnessErr("unknown op " + op.Name))
		})
		out = append(out, o)
	}
	if running != nil {
		conns[len(conns)-1].endRead()
		select {
		case <-running:
		case <-time.After(5 * time.Second):
		}
	}
	return out, nil
}
