//go:build verif

package main

// Component "shutdown" (property C19): the REAL Node.Run in a goroutine against a scripted fake
// trusted peer on a loopback TCP listener speaking the bitcoin wire protocol, over the copying
// store, with a recording handler whose callbacks (and an output fetcher whose calls) can be held
// at a chosen point.  Every operation is synchronous: it waits (bounded) for the node's reaction,
// so that the observations are counts / booleans / "within the bound" flags and never raw times.
//
// ops                         observation
//  start                      [0]
//  unlisten / listen          [0]                      the peer's port refuses / accepts connections
//  peer_accept                [0, got, lastBlock]      connection + the node's version message
//  peer_version               [0, verack, getheaders, locatorTip]
//  peer_headers n             [0, requested]           n more headers; blocks requested by getdata
//  peer_blocks k              [0, announced]           next k blocks; heights announced to handlers
//  peer_sync                  [0, ready]               empty headers message
//  peer_inv t                 [0, asked]               tx t announced by inventory; getdata requests for t so far
//  tx_age s                   [0]                      mempool request times and tracker times aged by s seconds
//  peer_getdata t             [0, pong, asked]         peer activity (pings), then getdata requests for t so far
//  peer_txblock t rel         [0, requested, announced, txDelivered]   next block with tx t next to its coinbase
//  peer_burst_rel n           [0, full]                n distinct relevant txs, not waiting for their delivery
//  wait_delivered k           [0, distinct]            distinct txs delivered as new txs (waits for k)
//  peer_tx t rel              [0, delivered]
//  peer_burst n               [0, full]                n irrelevant txs; is the tx channel full and a producer blocked
//  peer_ping                  [0, pong]
//  peer_addr n                [0, peers]
//  peer_blockinv k            [0, ready]               a block announced by inventory: in sync is cleared
//  api_tx t rel               [0, err, delivered]      the application calls Node.HandleTx (no sync check)
//  api_fill n                 [0, returned, blocked]   one application goroutine calls Node.HandleTx n times
//  api_result                 [0, finished, ok, errors, panics]
//  restart                    [0]                      a new Node on the same storage (after Stop returned)
//  peer_close / peer_reset / peer_silence  [0]
//  peer_close_stop r          [0, hit, returned, runReturned, reconnected]   close (r=1: reset), Stop inside the restart shutdown
//  sleep ms                   [0]
//  age s                      [0, restarted]           every stored request time is aged by s seconds
//  hold k                     [0]                      k: 1 HandleTx, 3 HandleHeaders, 100 output fetcher
//  release e                  [0]                      e = 1: the held fetcher call fails
//  stop                       [0, returned, runReturned]
//  stop_async                 [0, returned]            (after 400 ms)
//  stop_wait                  [0, returned, runReturned]
//  quiet ms                   [0, callbacksSinceStop, inFlight]
//  stored                     [0, diskTip, memTip, announcedTip, sameHash, diskUnconf, memUnconf, sameUnconf, diskPeers, memPeers]
//  announced                  [0, h1, id1, h2, id2, ...]
//  counts                     [0, incoming, processing]
//  drain                      [0, drained>0]           harness empties the tx channel (ends a hung scenario)
//
// untrusted peers of the real run loop (scripted loopback listeners, see shutdown_upeers.go):
//  u_count n                  [0]                      cfg.UntrustedCount (before start)
//  u_peer kind                [0]                      one more scripted untrusted peer, its address stored in the peer repository
//                                                      (before start); kind 1 good, 2 fresh (never checked), 3 slow dial, 4 silent,
//                                                      5 good and not stored (told later by u_addr)
//  u_addr i                   [0]                      the trusted peer tells the address of peer i in an addr message
//  u_wait_conn i ms           [0, connected]           peer i (-1: any) has a connection whose handshake is complete
//  u_wait_seen i ms           [0, seen]                peer i has completed a handshake with the node at least once (scanning nodes leave again)
//  u_conns i                  [0, connections]         connections peer i has accepted so far
//  u_listed i                 [0, lockFree, listed]    untrustedLock can be taken / the address of peer i is in the node's list
//  u_release i                [0]                      the hanging dial to slow peer i may complete
//  u_inv i t                  [0, pong, asked]         peer i announces tx t; getdata requests for t received by peer i so far
//  u_getdata i t              [0, pong, asked]         activity of peer i (pings), then the requests for t received by peer i so far
//  u_close i                  [0]                      peer i closes its connection (and its listener)
//  wait_scanning v ms         [0, reached]             the scan flag has value v
//  broadcast t                [0, err]                 the application calls Node.BroadcastTx
//  counts_u                   [0, untrusted]           untrusted node goroutines running

import (
	"context"
	"errors"
	"net"
	"sort"
	"sync"
	"sync/atomic"
	"time"

	"github.com/tokenized/pkg/bitcoin"
	"github.com/tokenized/pkg/wire"
	"github.com/tokenized/spynode/internal/platform/config"
	"github.com/tokenized/spynode/internal/spynode"
	"github.com/tokenized/spynode/pkg/client"
)

func init() { register("shutdown", runShutdown) }

// ---- recording handler with a gate ----

type sdEvent struct {
	kind int64 // 1 tx, 2 update, 3 headers, 4 insync, 5 message
	h    int64
	id   int64
}

type sdRecorder struct {
	mu       sync.Mutex
	umu      *sync.Mutex // guards the id universes (their maps are also written by the scenario thread)
	bu       *Universe
	tu       *TxUniverse
	events   []sdEvent
	calls    int64
	inflight int64
	holdKind int64
	gate     chan struct{}
	held     int64
}

func (r *sdRecorder) enter(kind int64, evs ...sdEvent) {
	r.mu.Lock()
	r.calls++
	r.inflight++
	r.events = append(r.events, evs...)
	var g chan struct{}
	if r.holdKind == kind && r.gate != nil {
		g = r.gate
		r.held++
	}
	r.mu.Unlock()
	if g != nil {
		<-g
	}
	r.mu.Lock()
	if g != nil {
		r.held--
	}
	r.inflight--
	r.mu.Unlock()
}

func (r *sdRecorder) HandleTx(ctx context.Context, tx *client.Tx) {
	r.umu.Lock()
	id := r.tu.ID(tx.Tx.TxHash())
	r.umu.Unlock()
	r.enter(1, sdEvent{1, -1, id})
}
func (r *sdRecorder) HandleTxUpdate(ctx context.Context, u *client.TxUpdate) {
	r.umu.Lock()
	id := r.tu.ID(&u.TxID)
	r.umu.Unlock()
	r.enter(2, sdEvent{2, -1, id})
}
func (r *sdRecorder) HandleHeaders(ctx context.Context, h *client.Headers) {
	var evs []sdEvent
	r.umu.Lock()
	for i, hdr := range h.Headers {
		evs = append(evs, sdEvent{3, int64(h.StartHeight) + int64(i), r.bu.HeaderID(hdr)})
	}
	r.umu.Unlock()
	r.enter(3, evs...)
}
func (r *sdRecorder) HandleInSync(ctx context.Context) { r.enter(4, sdEvent{4, -1, -1}) }
func (r *sdRecorder) HandleMessage(ctx context.Context, p client.MessagePayload) {
	r.enter(5, sdEvent{5, -1, -1})
}

func (r *sdRecorder) snapshot() (calls, inflight, held int64) {
	r.mu.Lock()
	defer r.mu.Unlock()
	return r.calls, r.inflight, r.held
}

func (r *sdRecorder) count(pred func(e sdEvent) bool) int64 {
	r.mu.Lock()
	defer r.mu.Unlock()
	n := int64(0)
	for _, e := range r.events {
		if pred(e) {
			n++
		}
	}
	return n
}

// ---- output fetcher with a gate ----

type sdFetcher struct {
	tu      *TxUniverse
	mu      sync.Mutex
	gate    chan struct{}
	fail    bool
	entered int64
	exited  int64
}

func (f *sdFetcher) GetOutputs(ctx context.Context, ops []wire.OutPoint) ([]bitcoin.UTXO, error) {
	f.mu.Lock()
	g := f.gate
	f.mu.Unlock()
	if g != nil {
		atomic.AddInt64(&f.entered, 1)
		<-g
		f.mu.Lock()
		fail := f.fail
		f.fail = false
		f.mu.Unlock()
		defer atomic.AddInt64(&f.exited, 1)
		if fail {
			return nil, errors.New("injected output fetcher failure")
		}
	}
	r := make([]bitcoin.UTXO, 0, len(ops))
	for _, op := range ops {
		r = append(r, bitcoin.UTXO{Hash: op.Hash, Index: op.Index, Value: uint64(f.tu.OutPointID(op)),
			LockingScript: []byte{0x51}})
	}
	return r, nil
}

func (f *sdFetcher) GetTx(ctx context.Context, txid bitcoin.Hash32) (*wire.MsgTx, error) {
	return nil, errors.New("not available")
}

// ---- the scripted peer ----

type sdPeer struct {
	mu        sync.Mutex
	umu       *sync.Mutex
	net       wire.BitcoinNet
	bu        *Universe
	addr      string
	ln        *net.TCPListener
	conn      net.Conn
	gen       int
	locTip    int64 // block id of the first locator hash of the last getheaders (-100: none yet)
	getHdrs   int64
	verAcks   int64
	versions  int64
	verLast   int64
	pongs     int64
	requested map[int64]bool
	tu        *TxUniverse
	txreq     map[int64]int64 // getdata requests received per tx id (all connections of the case)
	sent      int64 // highest header id sent on this connection (-1: none)
	silent    bool
}

func (p *sdPeer) pump(conn net.Conn, gen int) {
	for {
		_, msg, _, err := wire.ReadMessageN(conn, wire.ProtocolVersion, p.net)
		if err != nil {
			if me, ok := err.(*wire.MessageError); ok && me.Type == wire.MessageErrorUnknownCommand {
				continue
			}
			return
		}
		p.mu.Lock()
		if gen == p.gen {
			switch m := msg.(type) {
			case *wire.MsgVersion:
				p.versions++
				p.verLast = int64(m.LastBlock)
			case *wire.MsgVerAck:
				p.verAcks++
			case *wire.MsgGetHeaders:
				p.getHdrs++
				if len(m.BlockLocatorHashes) > 0 {
					p.umu.Lock()
					p.locTip = p.bu.ID(m.BlockLocatorHashes[0])
					p.umu.Unlock()
				}
			case *wire.MsgGetData:
				for _, iv := range m.InvList {
					if iv.Type == wire.InvTypeTx && p.tu != nil {
						p.umu.Lock()
						p.txreq[p.tu.ID(&iv.Hash)]++
						p.umu.Unlock()
					}
					if iv.Type == wire.InvTypeBlock {
						p.umu.Lock()
						p.requested[p.bu.ID(&iv.Hash)] = true
						p.umu.Unlock()
					}
				}
			case *wire.MsgPong:
				p.pongs++
			}
		}
		p.mu.Unlock()
	}
}

func (p *sdPeer) send(msg wire.Message) bool {
	p.mu.Lock()
	conn := p.conn
	p.mu.Unlock()
	if conn == nil {
		return false
	}
	conn.SetWriteDeadline(time.Now().Add(2 * time.Second))
	_, err := wire.WriteMessageN(conn, msg, wire.ProtocolVersion, p.net)
	return err == nil
}

func (p *sdPeer) get(f func() int64) int64 {
	p.mu.Lock()
	defer p.mu.Unlock()
	return f()
}

// one application goroutine calling the public API
type sdAPI struct {
	n      int64
	ok     int64
	errs   int64
	panics int64
	done   chan struct{}
}

func waitFor(cond func() bool, d time.Duration) bool {
	deadline := time.Now().Add(d)
	for {
		if cond() {
			return true
		}
		if time.Now().After(deadline) {
			return false
		}
		time.Sleep(4 * time.Millisecond)
	}
}

func sdConfig(addr string, delay, retry int) config.Config {
	cfg := testConfig()
	cfg.NodeAddress = addr
	cfg.UntrustedCount = 0
	cfg.SafeTxDelay = delay
	cfg.RequestMempool = false
	cfg.MaxRetries = 1000
	cfg.RetryDelay = retry
	return cfg
}

func runShutdown(c *Case) ([]Obs, any) {
	ctx := context.Background()
	bu := NewUniverse()
	tu := NewTxUniverse()
	su := &syncUniverse{bu}
	store := NewVStore(true)
	bound := time.Duration(cfgInt(c, "bound_ms", 4000)) * time.Millisecond
	react := time.Duration(cfgInt(c, "react_ms", 3000)) * time.Millisecond

	l, err := net.Listen("tcp", "127.0.0.1:0")
	if err != nil {
		panic(harnessErr("listen: " + err.Error()))
	}
	cfg := sdConfig(l.Addr().String(), int(cfgInt(c, "delay", 2000)), int(cfgInt(c, "retry", 200)))
	cfg.StartHash = bu.HashOf(0)
	peer := &sdPeer{net: wire.BitcoinNet(cfg.Net), bu: bu, addr: l.Addr().String(), ln: l.(*net.TCPListener),
		locTip: -100, requested: map[int64]bool{}, sent: -1, tu: tu, txreq: map[int64]int64{}}

	umu := &sync.Mutex{}
	peer.umu = umu
	rec := &sdRecorder{bu: bu, tu: tu, umu: umu}
	mkTx := func(t int64, body []int64, rel bool) *wire.MsgTx {
		umu.Lock()
		defer umu.Unlock()
		return tu.TxRel(t, body, rel)
	}
	mkHeader := func(id int64) *wire.BlockHeader {
		umu.Lock()
		defer umu.Unlock()
		return su.header(id, id-1)
	}
	fetch := &sdFetcher{tu: tu}
	var node *spynode.Node
	var runDone chan struct{}
	var stopDone chan struct{}
	var callsAtStop int64 = -1
	served := int64(0) // blocks served so far = the tip the node should have processed
	pingNonce := uint64(1000)
	markerSeq := int64(0)
	relSeq := int64(0)
	var api *sdAPI
	apiSeq := int64(0)
	burstSeq := int64(0)
	addrSeq := int64(0)
	var upeers []*sdUPeer
	upeer := func(i int64) *sdUPeer {
		if i == -1 {
			for _, u := range upeers {
				if u.connected() {
					return u
				}
			}
			return nil
		}
		if i < 0 || int(i) >= len(upeers) {
			panic(harnessErr("no such untrusted peer"))
		}
		return upeers[i]
	}
	nodeTip := func() int64 {
		if node == nil {
			return 0
		}
		return int64(node.VerifBlocks().LastHeight())
	}

	newNode := func() *spynode.Node {
		n := spynode.NewNode(cfg, store, fetch, fetch)
		n.RegisterHandler(rec)
		n.SubscribePushDatas(ctx, [][]byte{SubscribedData})
		return n
	}
	barrier := func() bool {
		pingNonce++
		before := peer.get(func() int64 { return peer.pongs })
		if !peer.send(wire.NewMsgPing(pingNonce)) {
			return false
		}
		return waitFor(func() bool { return peer.get(func() int64 { return peer.pongs }) > before }, react)
	}
	chanDone := func(ch chan struct{}) bool {
		if ch == nil {
			return false
		}
		select {
		case <-ch:
			return true
		default:
			return false
		}
	}
	waitChan := func(ch chan struct{}, d time.Duration) bool {
		if ch == nil {
			return false
		}
		select {
		case <-ch:
			return true
		case <-time.After(d):
			return false
		}
	}
	startStop := func() {
		if stopDone != nil {
			return
		}
		stopDone = make(chan struct{})
		sd := stopDone
		n := node
		go func() {
			n.Stop(ctx)
			calls, _, _ := rec.snapshot()
			atomic.StoreInt64(&callsAtStop, calls)
			close(sd)
		}()
	}
	announcedIDs := func() map[int64]int64 {
		m := map[int64]int64{}
		rec.mu.Lock()
		for _, e := range rec.events {
			if e.kind == 3 {
				m[e.id]++
			}
		}
		rec.mu.Unlock()
		return m
	}

	var out []Obs
	for _, raw := range c.Ops {
		op := decodeOp(raw)
		o := guard(func() Obs {
			switch op.Name {
			case "start":
				if node != nil {
					panic(harnessErr("start twice"))
				}
				node = newNode()
				runDone = make(chan struct{})
				rd := runDone
				n := node
				go func() {
					n.Run(ctx)
					close(rd)
				}()
				return Obs{OK}
			case "unlisten":
				if peer.ln != nil {
					peer.ln.Close()
					peer.ln = nil
				}
				return Obs{OK}
			case "listen":
				if peer.ln == nil {
					ok := waitFor(func() bool {
						l2, err := net.Listen("tcp", peer.addr)
						if err != nil {
							return false
						}
						peer.ln = l2.(*net.TCPListener)
						return true
					}, react)
					if !ok {
						panic(harnessErr("cannot listen again on " + peer.addr))
					}
				}
				return Obs{OK}
			case "peer_accept":
				if peer.ln == nil {
					return Obs{OK, 0, -1}
				}
				peer.ln.SetDeadline(time.Now().Add(bound))
				conn, err := peer.ln.Accept()
				if err != nil {
					return Obs{OK, 0, -1}
				}
				peer.mu.Lock()
				if peer.conn != nil {
					peer.conn.Close()
				}
				peer.conn = conn
				peer.gen++
				gen := peer.gen
				peer.locTip, peer.sent = -100, -1
				peer.getHdrs, peer.verAcks, peer.versions, peer.pongs = 0, 0, 0, 0
				peer.requested = map[int64]bool{}
				peer.silent = false
				peer.mu.Unlock()
				go peer.pump(conn, gen)
				got := waitFor(func() bool { return peer.get(func() int64 { return peer.versions }) > 0 }, react)
				return Obs{OK, b2i(got), peer.get(func() int64 { return peer.verLast })}
			case "peer_version":
				me := wire.NewNetAddressIPPort(net.IPv4(127, 0, 0, 1), 8333, 0)
				v := wire.NewMsgVersion(me, me, 7, int32(1000))
				peer.send(v)
				peer.send(wire.NewMsgVerAck())
				waitFor(func() bool {
					return peer.get(func() int64 { return b2i(peer.verAcks > 0 && peer.getHdrs > 0) }) == 1
				}, react)
				return Obs{OK, peer.get(func() int64 { return b2i(peer.verAcks > 0) }),
					peer.get(func() int64 { return b2i(peer.getHdrs > 0) }), peer.get(func() int64 { return peer.locTip })}
			case "peer_headers":
				n := op.Int(0)
				base := peer.get(func() int64 {
					if peer.sent >= 0 {
						return peer.sent
					}
					return peer.locTip
				})
				if base < 0 {
					panic(harnessErr("peer_headers before the node asked for headers"))
				}
				msg := wire.NewMsgHeaders()
				for id := base + 1; id <= base+n; id++ {
					msg.AddBlockHeader(mkHeader(id))
				}
				peer.send(msg)
				peer.mu.Lock()
				peer.sent = base + n
				peer.mu.Unlock()
				cnt := func() int64 {
					return peer.get(func() int64 {
						k := int64(0)
						for id := base + 1; id <= base+n; id++ {
							if peer.requested[id] {
								k++
							}
						}
						return k
					})
				}
				waitFor(func() bool { return cnt() == n }, react)
				return Obs{OK, cnt()}
			case "peer_blocks":
				k := op.Int(0)
				before := announcedIDs()
				first := served + 1
				for id := first; id < first+k; id++ {
					hdr := mkHeader(id)
					blk := &wire.MsgBlock{Header: *hdr}
					blk.AddTransaction(blockTx(id, 0))
					peer.send(blk)
				}
				served += k
				cnt := func() int64 {
					now := announcedIDs()
					n := int64(0)
					for id := first; id < first+k; id++ {
						if now[id] > before[id] {
							n++
						}
					}
					return n
				}
				waitFor(func() bool {
					if cnt() == k {
						return true
					}
					_, _, held := rec.snapshot()
					return held > 0
				}, react)
				return Obs{OK, cnt()}
			case "peer_txblock":
				// the next block, announced by a headers message of its own, carrying one more tx (t, relevant
				// or not) next to its coinbase: header, getdata, block, processing
				t, rel := op.Int(0), op.Int(1) != 0
				base := peer.get(func() int64 {
					if peer.sent >= 0 {
						return peer.sent
					}
					return peer.locTip
				})
				id := base + 1
				if id != served+1 {
					panic(harnessErr("peer_txblock with headers outstanding"))
				}
				tx := mkTx(t, []int64{90000 + t*10}, rel)
				umu.Lock()
				root := merkleRoot([]bitcoin.Hash32{*blockTx(id, 0).TxHash(), *tx.TxHash()})
				hdr := bu.Header(id, id-1, 1400000000+id*600, &root)
				umu.Unlock()
				msg := wire.NewMsgHeaders()
				msg.AddBlockHeader(hdr)
				peer.send(msg)
				peer.mu.Lock()
				peer.sent = id
				peer.mu.Unlock()
				reqd := waitFor(func() bool { return peer.get(func() int64 { return b2i(peer.requested[id]) }) == 1 }, react)
				before := announcedIDs()
				txBefore := rec.count(func(e sdEvent) bool { return e.kind == 1 && e.id == t })
				enteredBefore := atomic.LoadInt64(&fetch.entered)
				blk := &wire.MsgBlock{Header: *hdr}
				blk.AddTransaction(blockTx(id, 0))
				blk.AddTransaction(tx)
				peer.send(blk)
				served++
				waitFor(func() bool {
					if atomic.LoadInt64(&fetch.entered) > enteredBefore {
						return true
					}
					_, _, held := rec.snapshot()
					if held > 0 {
						return true
					}
					if announcedIDs()[id] <= before[id] {
						return false
					}
					return !rel || rec.count(func(e sdEvent) bool { return e.kind == 1 && e.id == t }) > txBefore
				}, react)
				ann := announcedIDs()[id] > before[id]
				dl := rec.count(func(e sdEvent) bool { return e.kind == 1 && e.id == t }) > txBefore
				return Obs{OK, b2i(reqd), b2i(ann), b2i(dl)}
			case "peer_burst_rel":
				// n DISTINCT RELEVANT txs, not waiting for their delivery
				n := op.Int(0)
				for i := int64(0); i < n; i++ {
					peer.send(mkTx(6000+relSeq, []int64{960000 + relSeq*10}, true))
					relSeq++
				}
				pingNonce++
				pb := peer.get(func() int64 { return peer.pongs })
				peer.send(wire.NewMsgPing(pingNonce))
				waitFor(func() bool { return peer.get(func() int64 { return peer.pongs }) > pb }, 1500*time.Millisecond)
				ch := node.VerifTxChannel()
				full := len(ch.Channel) == cap(ch.Channel)
				if full {
					time.Sleep(100 * time.Millisecond)
					full = len(ch.Channel) == cap(ch.Channel)
				}
				return Obs{OK, b2i(full)}
			case "wait_delivered":
				// distinct relevant txs delivered to the handlers as new txs (waits for k, at most 6 s)
				k := op.Int(0)
				distinct := func() int64 {
					m := map[int64]bool{}
					rec.mu.Lock()
					for _, e := range rec.events {
						if e.kind == 1 {
							m[e.id] = true
						}
					}
					rec.mu.Unlock()
					return int64(len(m))
				}
				waitFor(func() bool { return distinct() >= k }, 6*time.Second)
				time.Sleep(100 * time.Millisecond)
				return Obs{OK, distinct()}
			case "peer_inv":
				// the trusted peer announces tx t by inventory (it does not send the tx)
				t := op.Int(0)
				tx := mkTx(t, []int64{90000 + t*10}, true)
				h := *tx.TxHash()
				inv := wire.NewMsgInv()
				inv.AddInvVect(wire.NewInvVect(wire.InvTypeTx, &h))
				peer.send(inv)
				barrier()
				barrier()
				umu.Lock()
				n := peer.txreq[t]
				umu.Unlock()
				return Obs{OK, n}
			case "tx_age":
				// the request window passes: request times of the mempool and announcement times of the tracker are aged
				d := time.Duration(op.Int(0)) * time.Second
				node.VerifMemPool().VerifAge(d)
				node.VerifTxTracker().VerifAge(d)
				return Obs{OK}
			case "peer_getdata":
				// activity of the peer (two pings: the check that follows the first one queues its requests behind
				// the first pong), then how often tx t was asked for so far
				t := op.Int(0)
				ok1 := barrier()
				ok2 := barrier()
				time.Sleep(30 * time.Millisecond)
				umu.Lock()
				n := peer.txreq[t]
				umu.Unlock()
				return Obs{OK, b2i(ok1 && ok2), n}
			case "peer_sync":
				peer.send(wire.NewMsgHeaders())
				ready := waitFor(func() bool { return node.IsReady(ctx) }, react)
				if ready {
					barrier() // the check after this message (sendheaders, getaddr, in-sync notification) has run
				}
				return Obs{OK, b2i(ready)}
			case "peer_tx":
				t, rel := op.Int(0), op.Int(1) != 0
				tx := mkTx(t, []int64{90000 + t*10}, rel)
				enteredBefore := atomic.LoadInt64(&fetch.entered)
				countBefore := rec.count(func(e sdEvent) bool { return e.kind == 1 && e.id == t })
				peer.send(tx)
				delivered := false
				if rel && node.IsReady(ctx) {
					rec.mu.Lock()
					gated := rec.gate != nil
					rec.mu.Unlock()
					fetch.mu.Lock()
					gated = gated || fetch.gate != nil
					fetch.mu.Unlock()
					isDelivered := func() bool {
						return rec.count(func(e sdEvent) bool { return e.kind == 1 && e.id == t }) > countBefore
					}
					if gated {
						// the consumer will be parked in the held call: wait until it is there
						waitFor(func() bool { return isDelivered() || atomic.LoadInt64(&fetch.entered) > enteredBefore }, react)
					} else {
						// the tx is in the channel once the ping behind it is answered; a marker tx pushed through
						// the API behind it has been taken by the (sequential) consumer only after this tx was
						// processed completely: delivered or deliberately not delivered
						barrier()
						markerSeq++
						marker := mkTx(8000+markerSeq, []int64{980000 + markerSeq*10}, false)
						mh := *marker.TxHash()
						if err := node.HandleTx(ctx, marker); err == nil {
							waitFor(func() bool { return isDelivered() || node.VerifMemPool().TransactionExists(&mh) }, react)
						}
					}
					delivered = isDelivered()
				} else {
					barrier()
				}
				return Obs{OK, b2i(delivered)}
			case "api_tx":
				// the application feeds a tx through the public API (Node.HandleTx): no sync check
				t, rel := op.Int(0), op.Int(1) != 0
				tx := mkTx(t, []int64{90000 + t*10}, rel)
				enteredBefore := atomic.LoadInt64(&fetch.entered)
				countBefore := rec.count(func(e sdEvent) bool { return e.kind == 1 && e.id == t })
				err := node.HandleTx(ctx, tx)
				delivered := false
				if rel && err == nil {
					waitFor(func() bool {
						if rec.count(func(e sdEvent) bool { return e.kind == 1 && e.id == t }) > countBefore {
							return true
						}
						return atomic.LoadInt64(&fetch.entered) > enteredBefore
					}, time.Duration(cfgInt(c, "tx_wait_ms", 3000))*time.Millisecond)
					delivered = rec.count(func(e sdEvent) bool { return e.kind == 1 && e.id == t }) > countBefore
				} else if err == nil {
					ch := node.VerifTxChannel()
					waitFor(func() bool { return len(ch.Channel) == 0 }, react)
					time.Sleep(20 * time.Millisecond)
				}
				return Obs{OK, b2i(err != nil), b2i(delivered)}
			case "api_fill":
				// one application goroutine calls Node.HandleTx n times in a row (txs that are not relevant)
				n := op.Int(0)
				api = &sdAPI{n: n, done: make(chan struct{})}
				a, nd, base := api, node, apiSeq
				go func() {
					defer close(a.done)
					defer func() {
						if r := recover(); r != nil {
							atomic.AddInt64(&a.panics, 1)
						}
					}()
					for i := int64(0); i < a.n; i++ {
						tx := mkTx(7000+base+i, []int64{970000 + (base+i)*10}, false)
						if err := nd.HandleTx(ctx, tx); err != nil {
							atomic.AddInt64(&a.errs, 1)
						} else {
							atomic.AddInt64(&a.ok, 1)
						}
					}
				}()
				apiSeq += n
				// until all calls have returned, or the calls have stopped returning (the channel is full)
				last, since := int64(-1), time.Now()
				waitFor(func() bool {
					select {
					case <-a.done:
						return true
					default:
					}
					cur := atomic.LoadInt64(&a.ok) + atomic.LoadInt64(&a.errs)
					if cur != last {
						last, since = cur, time.Now()
						return false
					}
					return time.Since(since) > 250*time.Millisecond
				}, react+2*time.Second)
				blocked := !chanDone(a.done)
				return Obs{OK, atomic.LoadInt64(&a.ok) + atomic.LoadInt64(&a.errs), b2i(blocked)}
			case "api_result":
				if api == nil {
					panic(harnessErr("api_result without api_fill"))
				}
				fin := waitChan(api.done, 2*time.Second)
				return Obs{OK, b2i(fin), atomic.LoadInt64(&api.ok), atomic.LoadInt64(&api.errs), atomic.LoadInt64(&api.panics)}
			case "peer_blockinv":
				// a block announced by inventory (not by headers): the node is no longer in sync
				h := pseudo("blk-inv", op.Int(0))
				inv := wire.NewMsgInv()
				inv.AddInvVect(wire.NewInvVect(wire.InvTypeBlock, &h))
				peer.send(inv)
				barrier()
				return Obs{OK, b2i(node.IsReady(ctx))}
			case "restart":
				// a new process on the same storage: new Node, same store, same peer address, same handler
				if node == nil || !chanDone(runDone) {
					panic(harnessErr("restart while the node runs"))
				}
				node = newNode()
				runDone = make(chan struct{})
				stopDone = nil
				atomic.StoreInt64(&callsAtStop, -1)
				rd := runDone
				n := node
				go func() {
					n.Run(ctx)
					close(rd)
				}()
				return Obs{OK}
			case "peer_burst":
				n := op.Int(0)
				for i := int64(0); i < n; i++ {
					peer.send(mkTx(5000+burstSeq, []int64{950000 + burstSeq*10}, false))
					burstSeq++
				}
				// barrier: a pong means monitorIncoming has handled all of them (it is not blocked)
				pingNonce++
				before := peer.get(func() int64 { return peer.pongs })
				peer.send(wire.NewMsgPing(pingNonce))
				waitFor(func() bool { return peer.get(func() int64 { return peer.pongs }) > before }, 1500*time.Millisecond)
				ch := node.VerifTxChannel()
				full := len(ch.Channel) == cap(ch.Channel)
				if full {
					time.Sleep(100 * time.Millisecond)
					full = len(ch.Channel) == cap(ch.Channel)
				}
				return Obs{OK, b2i(full)}
			case "peer_ping":
				return Obs{OK, b2i(barrier())}
			case "peer_addr":
				n := op.Int(0)
				msg := wire.NewMsgAddr()
				for i := int64(0); i < n; i++ {
					msg.AddAddress(wire.NewNetAddressIPPort(net.IPv4(10, 0, byte(addrSeq/250), byte(1+addrSeq%250)), 8333, 0))
					addrSeq++
				}
				peer.send(msg)
				barrier()
				return Obs{OK, int64(node.VerifPeers().Count())}
			case "peer_close":
				peer.mu.Lock()
				if peer.conn != nil {
					peer.conn.Close()
					peer.conn = nil
				}
				peer.mu.Unlock()
				return Obs{OK}
			case "peer_reset":
				peer.mu.Lock()
				if peer.conn != nil {
					if tc, ok := peer.conn.(*net.TCPConn); ok {
						tc.SetLinger(0)
					}
					peer.conn.Close()
					peer.conn = nil
				}
				peer.mu.Unlock()
				return Obs{OK}
			case "peer_close_stop":
				// the peer closes (0) / resets (1) the connection; Stop is called exactly when the run loop is
				// inside the shutdown that precedes the reconnect: restart requested (needsRestart, stopping)
				// and the connection already closed and cleared by Run
				peer.mu.Lock()
				if peer.conn != nil {
					if tc, ok := peer.conn.(*net.TCPConn); ok && op.Int(0) != 0 {
						tc.SetLinger(0)
					}
					peer.conn.Close()
					peer.conn = nil
				}
				peer.mu.Unlock()
				hit := false
				deadline := time.Now().Add(react)
				for !hit && time.Now().Before(deadline) {
					stopping, _, needs := node.VerifFlags()
					hit = stopping && needs && node.VerifConnNil()
					if !hit {
						time.Sleep(time.Millisecond)
					}
				}
				startStop()
				ret := waitChan(stopDone, bound)
				run := false
				if ret {
					run = waitChan(runDone, time.Second)
				}
				reconn := false
				if peer.ln != nil {
					peer.ln.SetDeadline(time.Now().Add(500 * time.Millisecond))
					if cn, err := peer.ln.Accept(); err == nil {
						reconn = true
						cn.Close()
					}
				}
				return Obs{OK, b2i(hit), b2i(ret), b2i(run), b2i(reconn)}
			case "peer_silence":
				peer.mu.Lock()
				peer.silent = true
				peer.mu.Unlock()
				return Obs{OK}
			case "sleep":
				time.Sleep(time.Duration(op.Int(0)) * time.Millisecond)
				return Obs{OK}
			case "age":
				// the clock passes every request time-out (stored timestamps are shifted back); the
				// time-out goroutine looks every 5 s
				gen0 := peer.get(func() int64 { return int64(peer.gen) })
				_ = gen0
				node.VerifState().VerifAge(time.Duration(op.Int(0)) * time.Second)
				seen := waitFor(func() bool {
					stopping, _, needs := node.VerifFlags()
					return stopping || needs
				}, 7*time.Second)
				return Obs{OK, b2i(seen)}
			case "wait_restart":
				// the node noticed the lost connection and went through its phased shutdown: it is in
				// the reconnect loop again (not stopping) or connected again
				ok := waitFor(func() bool {
					stopping, _, needs := node.VerifFlags()
					in, pr, _ := node.VerifCounts()
					return !stopping && !needs && in == 0 && pr == 0
				}, bound)
				return Obs{OK, b2i(ok)}
			case "hold":
				k := op.Int(0)
				if k == 100 {
					fetch.mu.Lock()
					fetch.gate = make(chan struct{})
					fetch.mu.Unlock()
				} else {
					rec.mu.Lock()
					rec.holdKind = k
					rec.gate = make(chan struct{})
					rec.mu.Unlock()
				}
				return Obs{OK}
			case "release":
				fetch.mu.Lock()
				if fetch.gate != nil {
					fetch.fail = op.Int(0) != 0
					close(fetch.gate)
					fetch.gate = nil
				}
				fetch.mu.Unlock()
				rec.mu.Lock()
				if rec.gate != nil {
					close(rec.gate)
					rec.gate = nil
					rec.holdKind = 0
				}
				rec.mu.Unlock()
				if op.Int(0) != 0 {
					// the failing call has returned to its caller; the tx thread then requests a stop, the block
					// thread just leaves: give either a moment
					waitFor(func() bool { return atomic.LoadInt64(&fetch.exited) >= atomic.LoadInt64(&fetch.entered) }, react)
					waitFor(func() bool { s, _, _ := node.VerifFlags(); return s }, 300*time.Millisecond)
				}
				return Obs{OK}
			case "u_count":
				if node != nil {
					panic(harnessErr("u_count after start"))
				}
				cfg.UntrustedCount = int(op.Int(0))
				return Obs{OK}
			case "u_peer":
				if node != nil {
					panic(harnessErr("u_peer after start"))
				}
				kind := op.Int(0)
				u := newUPeer(kind, wire.BitcoinNet(cfg.Net), bu, tu, umu, nodeTip)
				upeers = append(upeers, u)
				if kind != 5 {
					// through the repository of a node on the same storage, the way the node itself stores them
					pre := spynode.NewNode(cfg, store, fetch, fetch)
					repo := pre.VerifPeers()
					if err := repo.Load(ctx); err != nil {
						panic(harnessErr("load peers: " + err.Error()))
					}
					repo.Add(ctx, u.addr)
					if kind != 2 {
						repo.UpdateScore(ctx, u.addr, 5)
					}
					if err := repo.Save(ctx); err != nil {
						panic(harnessErr("save peers: " + err.Error()))
					}
				}
				return Obs{OK}
			case "u_addr":
				u := upeer(op.Int(0))
				ta, _ := net.ResolveTCPAddr("tcp", u.addr)
				m := wire.NewMsgAddr()
				m.AddAddress(wire.NewNetAddressIPPort(net.IPv4(127, 0, 0, 1), uint16(ta.Port), 0))
				peer.send(m)
				barrier()
				return Obs{OK}
			case "u_wait_conn":
				d := time.Duration(op.Int(1)) * time.Millisecond
				ok := waitFor(func() bool { u := upeer(op.Int(0)); return u != nil && u.connected() }, d)
				return Obs{OK, b2i(ok)}
			case "u_wait_seen":
				u := upeer(op.Int(0))
				ok := waitFor(func() bool { u.mu.Lock(); defer u.mu.Unlock(); return u.shakes > 0 }, time.Duration(op.Int(1))*time.Millisecond)
				return Obs{OK, b2i(ok)}
			case "u_conns":
				u := upeer(op.Int(0))
				u.mu.Lock()
				defer u.mu.Unlock()
				return Obs{OK, u.conns}
			case "u_listed":
				u := upeer(op.Int(0))
				if u == nil {
					return Obs{OK, 0, 0}
				}
				free, listed := false, false
				look := func() bool {
					l, ok := node.VerifUntrustedAddresses()
					free, listed = ok, false
					for _, a := range l {
						if a == u.addr {
							listed = true
						}
					}
					return free && listed
				}
				waitFor(look, 700*time.Millisecond)
				return Obs{OK, b2i(free), b2i(listed)}
			case "u_release":
				upeer(op.Int(0)).release()
				return Obs{OK}
			case "u_inv", "u_getdata":
				u, t := upeer(op.Int(0)), op.Int(1)
				if u == nil {
					return Obs{OK, 0, 0}
				}
				if op.Name == "u_inv" {
					h := *mkTx(t, []int64{90000 + t*10}, true).TxHash()
					m := wire.NewMsgInv()
					m.AddInvVect(wire.NewInvVect(wire.InvTypeTx, &h))
					u.send(m)
				}
				pingNonce++
				ok1 := u.barrier(pingNonce, react)
				pingNonce++
				ok2 := u.barrier(pingNonce, react)
				time.Sleep(30 * time.Millisecond)
				u.mu.Lock()
				n := u.txreq[t]
				u.mu.Unlock()
				return Obs{OK, b2i(ok1 && ok2), n}
			case "u_close":
				u := upeer(op.Int(0))
				if u != nil {
					u.close()
				}
				return Obs{OK}
			case "wait_scanning":
				v := op.Int(0) != 0
				ok := waitFor(func() bool { return node.VerifScanning() == v }, time.Duration(op.Int(1))*time.Millisecond)
				return Obs{OK, b2i(ok)}
			case "broadcast":
				err := node.BroadcastTx(ctx, mkTx(op.Int(0), []int64{970000 + op.Int(0)*10}, true))
				return Obs{OK, b2i(err != nil)}
			case "counts_u":
				_, _, un := node.VerifCounts()
				stable := time.Now()
				deadline := time.Now().Add(2 * time.Second)
				for time.Now().Before(deadline) && time.Since(stable) < 150*time.Millisecond {
					time.Sleep(5 * time.Millisecond)
					_, _, u2 := node.VerifCounts()
					if u2 != un {
						un, stable = u2, time.Now()
					}
				}
				return Obs{OK, un}
			case "stop":
				startStop()
				ret := waitChan(stopDone, bound)
				run := false
				if ret {
					run = waitChan(runDone, time.Second)
				}
				return Obs{OK, b2i(ret), b2i(run)}
			case "stop_async":
				startStop()
				return Obs{OK, b2i(waitChan(stopDone, 400*time.Millisecond))}
			case "stop_wait":
				if stopDone == nil {
					panic(harnessErr("stop_wait without stop_async"))
				}
				ret := waitChan(stopDone, bound)
				run := false
				if ret {
					run = waitChan(runDone, time.Second)
				}
				return Obs{OK, b2i(ret), b2i(run)}
			case "quiet":
				time.Sleep(time.Duration(op.Int(0)) * time.Millisecond)
				calls, inflight, _ := rec.snapshot()
				at := atomic.LoadInt64(&callsAtStop)
				if at < 0 {
					return Obs{OK, -1, inflight}
				}
				return Obs{OK, calls - at, inflight}
			case "stored":
				if !chanDone(stopDone) {
					return Obs{OK, -1}
				}
				fresh := newNode()
				if err := fresh.VerifLoad(ctx); err != nil {
					return Obs{ERR}
				}
				diskTip := int64(fresh.VerifBlocks().LastHeight())
				memTip := int64(node.VerifBlocks().LastHeight())
				sameHash := fresh.VerifBlocks().LastHash().Equal(node.VerifBlocks().LastHash())
				annTip := int64(0)
				rec.mu.Lock()
				for _, e := range rec.events {
					if e.kind == 3 && e.h > annTip {
						annTip = e.h
					}
				}
				rec.mu.Unlock()
				ids := func(n *spynode.Node) []int64 {
					var r []int64
					for _, u := range n.VerifTxs().VerifUnconfirmed() {
						umu.Lock()
						r = append(r, tu.ID(&u.TxID)*4+b2i(u.Safe)*2+b2i(u.Unsafe))
						umu.Unlock()
					}
					sort.Slice(r, func(i, j int) bool { return r[i] < r[j] })
					return r
				}
				du, mu := ids(fresh), ids(node)
				sameU := len(du) == len(mu)
				if sameU {
					for i := range du {
						if du[i] != mu[i] {
							sameU = false
						}
					}
				}
				return Obs{OK, diskTip, memTip, annTip, b2i(sameHash), int64(len(du)), int64(len(mu)), b2i(sameU),
					int64(fresh.VerifPeers().Count()), int64(node.VerifPeers().Count())}
			case "announced":
				o := Obs{OK}
				rec.mu.Lock()
				for _, e := range rec.events {
					if e.kind == 3 {
						o = append(o, e.h, e.id)
					}
				}
				rec.mu.Unlock()
				return o
			case "counts":
				// reported once unchanged for 150 ms (the counters are incremented inside the goroutines)
				in, pr, _ := node.VerifCounts()
				stable := time.Now()
				deadline := time.Now().Add(2 * time.Second)
				for time.Now().Before(deadline) && time.Since(stable) < 150*time.Millisecond {
					time.Sleep(5 * time.Millisecond)
					i2, p2, _ := node.VerifCounts()
					if i2 != in || p2 != pr {
						in, pr, stable = i2, p2, time.Now()
					}
				}
				return Obs{OK, in, pr}
			case "drain":
				ch := node.VerifTxChannel()
				n := 0
				deadline := time.Now().Add(600 * time.Millisecond)
				closed := false
				for time.Now().Before(deadline) && !closed {
					select {
					case _, ok := <-ch.Channel:
						if !ok {
							closed = true // the run loop has closed the channel: nothing is left
						} else {
							n++
						}
					default:
						time.Sleep(5 * time.Millisecond)
					}
				}
				return Obs{OK, b2i(n > 0)}
			}
			panic(harnessErr("unknown op " + op.Name))
		})
		out = append(out, o)
	}

	// clean up: release everything, stop the node, close the sockets
	fetch.mu.Lock()
	if fetch.gate != nil {
		close(fetch.gate)
		fetch.gate = nil
	}
	fetch.mu.Unlock()
	rec.mu.Lock()
	if rec.gate != nil {
		close(rec.gate)
		rec.gate = nil
	}
	rec.mu.Unlock()
	for _, u := range upeers {
		u.close()
	}
	if node != nil && !chanDone(runDone) {
		startStop()
		if !waitChan(stopDone, 2*time.Second) {
			// a hung shutdown: empty the tx channel so that the blocked producer can leave
			ch := node.VerifTxChannel()
			deadline := time.Now().Add(time.Second)
			for time.Now().Before(deadline) && !chanDone(stopDone) {
				select {
				case _, ok := <-ch.Channel:
					if !ok {
						deadline = time.Now()
					}
				default:
					time.Sleep(5 * time.Millisecond)
				}
			}
			waitChan(stopDone, 2*time.Second)
		}
	}
	peer.mu.Lock()
	if peer.conn != nil {
		peer.conn.Close()
	}
	peer.mu.Unlock()
	if peer.ln != nil {
		peer.ln.Close()
	}
	return out, nil
}
