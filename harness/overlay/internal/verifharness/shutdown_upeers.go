//go:build verif

package main

// Scripted UNTRUSTED peers for the real run loop (component "shutdown" with untrusted_count > 0): loopback
// listeners whose addresses are preloaded into the node's peer repository.  Kinds:
//   1 good    - score 5: answers the handshake and the header request (the node verifies it)
//   2 fresh   - like good but score 0 and never checked: scan() dials it and keeps its ~10 s window open
//   3 slow    - like good, but the listen socket has backlog 0 and is filled by a dummy connection: the node's
//               dial hangs (SYN retransmits) until the harness releases it (u_release)
//   4 silent  - score 5: accepts and never answers

import (
	"fmt"
	"net"
	"os"
	"sync"
	"syscall"
	"time"

	"github.com/tokenized/pkg/wire"
)

type sdUPeer struct {
	mu       sync.Mutex
	umu      *sync.Mutex
	kind     int64
	net      wire.BitcoinNet
	bu       *Universe
	tu       *TxUniverse
	tipID    func() int64
	addr     string
	ln       net.Listener
	fd       int // raw listen socket of a slow peer
	filler   net.Conn
	released bool
	conn     net.Conn
	conns    int64 // connections accepted so far
	shaken   bool  // handshake completed on the current connection (the node asked for headers and was answered)
	shakes   int64 // handshakes completed so far
	pongs    int64
	txreq    map[int64]int64
	closed   bool
}

func newUPeer(kind int64, btcnet wire.BitcoinNet, bu *Universe, tu *TxUniverse, umu *sync.Mutex, tipID func() int64) *sdUPeer {
	p := &sdUPeer{kind: kind, net: btcnet, bu: bu, tu: tu, umu: umu, tipID: tipID, txreq: map[int64]int64{}, fd: -1}
	if kind == 3 {
		fd, err := syscall.Socket(syscall.AF_INET, syscall.SOCK_STREAM, 0)
		if err != nil {
			panic(harnessErr("socket: " + err.Error()))
		}
		if err := syscall.Bind(fd, &syscall.SockaddrInet4{Addr: [4]byte{127, 0, 0, 1}}); err != nil {
			panic(harnessErr("bind: " + err.Error()))
		}
		if err := syscall.Listen(fd, 0); err != nil {
			panic(harnessErr("listen: " + err.Error()))
		}
		sa, err := syscall.Getsockname(fd)
		if err != nil {
			panic(harnessErr("getsockname: " + err.Error()))
		}
		p.fd = fd
		p.addr = fmt.Sprintf("127.0.0.1:%d", sa.(*syscall.SockaddrInet4).Port)
		// exactly one not yet accepted connection fits: this one; the SYNs of the node's dial are dropped
		f, err := net.DialTimeout("tcp", p.addr, time.Second)
		if err != nil {
			panic(harnessErr("filler: " + err.Error()))
		}
		p.filler = f
		return p
	}
	l, err := net.Listen("tcp", "127.0.0.1:0")
	if err != nil {
		panic(harnessErr("listen: " + err.Error()))
	}
	p.ln = l
	p.addr = l.Addr().String()
	go p.acceptLoop()
	return p
}

func (p *sdUPeer) acceptLoop() {
	for {
		c, err := p.ln.Accept()
		if err != nil {
			return
		}
		p.attach(c)
	}
}

// release lets the hanging dial of a slow peer complete: the dummy connection is accepted and closed, the
// node's retransmitted SYN then gets through
func (p *sdUPeer) release() {
	p.mu.Lock()
	if p.kind != 3 || p.released {
		p.mu.Unlock()
		return
	}
	p.released = true
	fd := p.fd
	p.mu.Unlock()
	go func() {
		for {
			nfd, _, err := syscall.Accept(fd)
			if err != nil {
				return
			}
			f := os.NewFile(uintptr(nfd), "upeer")
			c, err := net.FileConn(f)
			f.Close()
			if err != nil {
				continue
			}
			// the first accepted connection is the filler
			p.mu.Lock()
			first := p.filler != nil
			if first {
				p.filler.Close()
				p.filler = nil
			}
			p.mu.Unlock()
			if first {
				c.Close()
				continue
			}
			p.attach(c)
		}
	}()
}

func (p *sdUPeer) attach(c net.Conn) {
	p.mu.Lock()
	if p.conn != nil {
		p.conn.Close()
	}
	p.conn = c
	p.conns++
	p.shaken = false
	p.mu.Unlock()
	go p.pump(c)
}

func (p *sdUPeer) write(c net.Conn, m wire.Message) {
	c.SetWriteDeadline(time.Now().Add(2 * time.Second))
	wire.WriteMessageN(c, m, wire.ProtocolVersion, p.net)
}

func (p *sdUPeer) pump(c net.Conn) {
	for {
		_, msg, _, err := wire.ReadMessageN(c, wire.ProtocolVersion, p.net)
		if err != nil {
			if me, ok := err.(*wire.MessageError); ok && me.Type == wire.MessageErrorUnknownCommand {
				continue
			}
			p.mu.Lock()
			if p.conn == c {
				p.conn = nil
				p.shaken = false
			}
			p.mu.Unlock()
			return
		}
		if p.kind == 4 {
			continue
		}
		switch m := msg.(type) {
		case *wire.MsgVersion:
			me := wire.NewNetAddressIPPort(net.IPv4(127, 0, 0, 1), 8333, 0)
			p.write(c, wire.NewMsgVersion(me, me, 9, 0))
			p.write(c, wire.NewMsgVerAck())
		case *wire.MsgGetHeaders:
			// answer with the header of the node's tip: a block the node knows, near enough to its tip
			p.umu.Lock()
			hdr, ok := p.bu.Known(p.tipID())
			p.umu.Unlock()
			if ok {
				h := wire.NewMsgHeaders()
				h.AddBlockHeader(hdr)
				p.write(c, h)
				p.mu.Lock()
				if p.conn == c {
					p.shaken = true
				}
				p.shakes++
				p.mu.Unlock()
			}
		case *wire.MsgGetData:
			for _, iv := range m.InvList {
				if iv.Type == wire.InvTypeTx {
					p.umu.Lock()
					id := p.tu.ID(&iv.Hash)
					p.umu.Unlock()
					p.mu.Lock()
					p.txreq[id]++
					p.mu.Unlock()
				}
			}
		case *wire.MsgPing:
			p.write(c, &wire.MsgPong{Nonce: m.Nonce})
		case *wire.MsgPong:
			p.mu.Lock()
			p.pongs++
			p.mu.Unlock()
		}
	}
}

func (p *sdUPeer) send(m wire.Message) bool {
	p.mu.Lock()
	c := p.conn
	p.mu.Unlock()
	if c == nil {
		return false
	}
	p.write(c, m)
	return true
}

func (p *sdUPeer) connected() bool {
	p.mu.Lock()
	defer p.mu.Unlock()
	return p.conn != nil && (p.shaken || p.kind == 4)
}

// barrier: a ping of this peer has been answered (the untrusted node has handled everything sent before)
func (p *sdUPeer) barrier(nonce uint64, d time.Duration) bool {
	p.mu.Lock()
	before := p.pongs
	p.mu.Unlock()
	if !p.send(wire.NewMsgPing(nonce)) {
		return false
	}
	return waitFor(func() bool { p.mu.Lock(); defer p.mu.Unlock(); return p.pongs > before }, d)
}

func (p *sdUPeer) close() {
	p.mu.Lock()
	defer p.mu.Unlock()
	p.closed = true
	if p.conn != nil {
		p.conn.Close()
		p.conn = nil
	}
	if p.ln != nil {
		p.ln.Close()
	}
	if p.filler != nil {
		p.filler.Close()
		p.filler = nil
	}
	if p.fd >= 0 {
		syscall.Close(p.fd)
		p.fd = -1
	}
}
