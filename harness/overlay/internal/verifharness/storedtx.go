//go:build verif

package main

// Component "storedtx": the stored transaction record through the real SaveTxState / FetchTxState
// on a store that - like storage.MockStorage, and as the storage interface allows - KEEPS the slice
// it is given (cfg alias = 1) or copies it (alias = 0).  Ops: ["save", t] ["fetch", t]; a fetch
// answers [0, txid id, number of spent outputs, first spent value, safe, proof index or -1].

import (
	"context"

	"github.com/tokenized/pkg/storage"
	"github.com/tokenized/pkg/wire"
	internalstorage "github.com/tokenized/spynode/internal/storage"
	"github.com/tokenized/spynode/pkg/client"
)

func init() { register("storedtx", runStoredTx) }

type aliasStore struct {
	*VStore
	alias bool
	kept  map[string][]byte
}

func (s *aliasStore) Write(ctx context.Context, key string, body []byte, options *storage.Options) error {
	if s.alias {
		s.kept[key] = body // no copy: what storage.MockStorage does
		return nil
	}
	return s.VStore.Write(ctx, key, body, options)
}

func (s *aliasStore) Read(ctx context.Context, key string) ([]byte, error) {
	if s.alias {
		if b, ok := s.kept[key]; ok {
			return b, nil
		}
		return nil, storage.ErrNotFound
	}
	return s.VStore.Read(ctx, key)
}

func runStoredTx(c *Case) ([]Obs, any) {
	ctx := context.Background()
	tu := NewTxUniverse()
	tu.VarOuts = true
	st := &aliasStore{VStore: NewVStore(true), alias: cfgInt(c, "alias", 0) != 0, kept: map[string][]byte{}}
	var out []Obs
	for _, raw := range c.Ops {
		op := decodeOp(raw)
		o := guard(func() Obs {
			t := op.Int(0)
			tx := tu.TxRel(t, []int64{9000 + 10*t, 9001 + 10*t}[:1+t%2], t%2 == 0)
			switch op.Name {
			case "save":
				rec := &client.Tx{Tx: tx, State: client.TxState{Safe: t%3 == 0, UnconfirmedDepth: uint32(t % 2)}}
				for i := range tx.TxIn {
					rec.Outputs = append(rec.Outputs, wire.NewTxOut(uint64(100*t+int64(i)), []byte{0x51, byte(t)}))
				}
				if err := internalstorage.SaveTxState(ctx, st, rec); err != nil {
					return Obs{ERR}
				}
				return Obs{OK}
			case "fetch":
				rec, err := internalstorage.FetchTxState(ctx, st, *tx.TxHash())
				if err != nil || rec == nil || rec.Tx == nil {
					return Obs{ERR}
				}
				first := int64(-1)
				if len(rec.Outputs) > 0 && rec.Outputs[0] != nil {
					first = int64(rec.Outputs[0].Value)
				}
				return Obs{OK, tu.ID(rec.Tx.TxHash()), int64(len(rec.Outputs)), first, b2i(rec.State.Safe), int64(rec.State.UnconfirmedDepth)}
			}
			panic(harnessErr("unknown op " + op.Name))
		})
		out = append(out, o)
	}
	return out, nil
}
