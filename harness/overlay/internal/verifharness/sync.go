//go:build verif

package main

import (
	"bytes"
	"encoding/binary"
	"time"

	"github.com/tokenized/pkg/bitcoin"
	"github.com/tokenized/pkg/wire"
)

func init() { register("sync", runSync) }

// blockTx is the single (coinbase-like) transaction of block id; variant 1 is a forged body.
func blockTx(id int64, variant int64) *wire.MsgTx {
	tx := wire.NewMsgTx(1)
	script := make([]byte, 9)
	script[0] = 0x08
	binary.LittleEndian.PutUint64(script[1:], uint64(id)*2+uint64(variant))
	tx.AddTxIn(wire.NewTxIn(&wire.OutPoint{Index: wire.MaxPrevOutIndex}, script))
	tx.AddTxOut(wire.NewTxOut(5000000000, []byte{0x51}))
	return tx
}

type syncUniverse struct {
	bu *Universe
}

// header id with parent prev; the merkle root commits to blockTx(id, 0)
func (su *syncUniverse) header(id, prev int64) *wire.BlockHeader {
	root := *blockTx(id, 0).TxHash()
	return su.bu.Header(id, prev, 1400000000+id*600, &root)
}

func runSync(c *Case) ([]Obs, any) {
	bu := NewUniverse()
	tu := NewTxUniverse()
	su := &syncUniverse{bu}
	store := NewVStore(cfgInt(c, "rm_err", 1) != 0)
	start := cfgInt(c, "start", 0)
	// the start block's header must exist before the node is configured with its hash
	var parents map[int64]int64 = map[int64]int64{}
	if raw, ok := c.Cfg["parents"]; ok {
		var pl [][]int64
		jsonUnmarshal(raw, &pl)
		for _, p := range pl {
			parents[p[0]] = p[1]
		}
		// create headers parents first
		var create func(id int64)
		create = func(id int64) {
			if id <= 0 {
				return
			}
			if _, ok := bu.Known(id); ok {
				return
			}
			if p, ok := parents[id]; ok {
				create(p)
				su.header(id, p)
			}
		}
		for _, p := range pl {
			create(p[0])
		}
	}
	f := newFlowNode(store, bu, tu, 2000, start)
	ctx := f.ctx
	if fa := int(cfgInt(c, "fail_at", 0)); fa > 0 {
		store.FailAt = store.OpCount() + fa // the j-th storage operation after start-up fails once
	}
	bootOps := store.OpCount()
	f.node.VerifState().MarkConnected()

	digest := func() []int64 {
		st := f.node.VerifState()
		repo := f.node.VerifBlocks()
		lh := st.LastHash()
		tipH := repo.LastHeight()
		linked, inverse := int64(1), int64(1)
		var ids []int64
		var prevHash *bitcoin.Hash32
		for h := 0; h <= tipH; h++ {
			hdr, err := repo.Header(ctx, h)
			if err != nil {
				linked, inverse = 0, 0
				ids = append(ids, -66)
				prevHash = nil
				continue
			}
			hash := hdr.BlockHash()
			ids = append(ids, bu.ID(hash))
			if h > 0 && (prevHash == nil || !hdr.PrevBlock.Equal(prevHash)) {
				linked = 0
			}
			hh, ok := repo.Height(hash)
			hash2, err2 := repo.Hash(ctx, h)
			if !ok || hh != h || err2 != nil || !hash2.Equal(hash) || !repo.Contains(hash) {
				inverse = 0
			}
			prevHash = hash
		}
		// hash -> height -> hash for every header of the universe (also the ones no longer / not yet stored)
		for _, uh := range bu.headers {
			hash := uh.BlockHash()
			hh, ok := repo.Height(hash)
			if ok != repo.Contains(hash) {
				inverse = 0
			}
			if ok {
				hash2, err2 := repo.Hash(ctx, hh)
				if hh < 0 || hh > tipH || err2 != nil || !hash2.Equal(hash) {
					inverse = 0
				}
			}
		}
		d := []int64{b2i(st.IsReady()), b2i(st.IsPendingSync()), int64(st.StartHeight()), bu.ID(&lh),
			int64(st.BlocksRequestedCount()), int64(st.BlocksToRequestCount()), linked, inverse, int64(tipH + 1)}
		return append(d, ids...)
	}

	getdataIDs := func(msgs []wire.Message) []int64 {
		var ids []int64
		for _, m := range msgs {
			if gd, ok := m.(*wire.MsgGetData); ok {
				for _, iv := range gd.InvList {
					if iv.Type == wire.InvTypeBlock {
						ids = append(ids, bu.ID(&iv.Hash))
					}
				}
			}
		}
		return ids
	}

	mkHeaders := func(pairs [][]int64) *wire.MsgHeaders {
		msg := wire.NewMsgHeaders()
		for _, p := range pairs {
			msg.AddBlockHeader(su.header(p[0], p[1]))
		}
		return msg
	}

	mkBlock := func(id int64, valid bool) *wire.MsgBlock {
		hdr, ok := bu.Known(id)
		if !ok {
			p, okp := parents[id]
			if !okp {
				p = -50
			}
			hdr = su.header(id, p)
		}
		blk := &wire.MsgBlock{Header: *hdr}
		if valid {
			blk.AddTransaction(blockTx(id, 0))
		} else {
			blk.AddTransaction(blockTx(id, 1))
		}
		return blk
	}

	var result []Obs
	for _, raw := range c.Ops {
		op := decodeOp(raw)
		obs := guard(func() Obs {
			switch op.Name {
			case "version":
				me := wire.NewNetAddressIPPort([]byte{127, 0, 0, 1}, 8333, 0)
				v := wire.NewMsgVersion(me, me, 7, 0)
				if _, err := f.node.VerifHandlers()[wire.CmdVersion].Handle(ctx, v); err != nil {
					return Obs{ERR}
				}
				return Obs{OK}
			case "headers":
				resp, err := f.node.VerifHandlers()[wire.CmdHeaders].Handle(ctx, mkHeaders(op.IntLists(0)))
				if err != nil {
					return Obs{ERR}
				}
				if resp == nil {
					return Obs{OK, 0}
				}
				ids := getdataIDs(resp)
				return append(Obs{OK, 1, int64(len(ids))}, ids...)
			case "block":
				if _, err := f.node.VerifHandlers()[wire.CmdBlock].Handle(ctx, mkBlock(op.Int(0), op.Int(1) != 0)); err != nil {
					return Obs{ERR}
				}
				return Obs{OK}
			case "process":
				blk, err := f.node.VerifProcessOne(ctx)
				if blk == nil {
					return Obs{OK, 0}
				}
				hdr := blk.GetHeader()
				o := Obs{OK, 1, bu.HeaderID(&hdr)}
				code := int64(0)
				if err != nil {
					code = 1
				}
				o = append(o, code)
				for _, e := range f.rec.take() {
					if e.kind == 3 {
						o = append(o, e.h, bu.HeaderID(e.hdr))
					}
				}
				ids := getdataIDs(f.drainOutgoing())
				o = append(o, int64(len(ids)))
				return append(o, ids...)
			case "check":
				if err := f.node.VerifCheck(ctx); err != nil {
					return Obs{ERR}
				}
				o := Obs{OK}
				msgs := f.drainOutgoing()
				for _, m := range msgs {
					switch mm := m.(type) {
					case *wire.MsgGetHeaders:
						o = append(o, 1, int64(len(mm.BlockLocatorHashes)))
						for _, h := range mm.BlockLocatorHashes {
							o = append(o, bu.ID(h))
						}
					}
				}
				for _, m := range msgs {
					if _, ok := m.(*wire.MsgSendHeaders); ok {
						o = append(o, 2)
					}
				}
				for _, m := range msgs {
					if _, ok := m.(*wire.MsgGetAddr); ok {
						o = append(o, 3)
					}
				}
				for _, e := range f.rec.take() {
					if e.kind == 4 {
						o = append(o, 4)
					}
				}
				return o
			case "advance":
				d := time.Duration(op.Int(0)) * time.Second
				f.node.VerifState().VerifAge(d)
				return Obs{OK}
			case "timeouts":
				if err := f.node.VerifState().CheckTimeouts(); err != nil {
					f.node.VerifState().Reset()
					f.node.VerifState().MarkConnected()
					return Obs{OK, 1}
				}
				return Obs{OK, 0}
			case "reconnect":
				f.node.VerifState().Reset()
				f.node.VerifState().MarkConnected()
				return Obs{OK}
			case "restartnode":
				f.node.VerifBlocks().Save(ctx)
				f.node.VerifTxs().Save(ctx)
				if err := f.bootErr(start); err != nil {
					// start-up failed (injected fault): the operator starts the node again
					f.boot(start)
					f.node.VerifState().MarkConnected()
					return Obs{ERR}
				}
				f.node.VerifState().MarkConnected()
				return Obs{OK}
			case "ublock":
				blk := mkBlock(op.Int(0), op.Int(1) != 0)
				if h, ok := f.untrust[wire.CmdBlock]; ok {
					h.Handle(ctx, blk)
				}
				var buf bytes.Buffer
				blk.BtcEncode(&buf, 0)
				ext := &wire.MsgExtended{ExtCommand: wire.CmdBlock, Length: uint64(buf.Len()), Payload: buf.Bytes()}
				if h, ok := f.untrust[wire.CmdExtended]; ok {
					h.Handle(ctx, ext)
				}
				return Obs{OK}
			case "utx", "uinv": // gate only: is the message acted upon (queued / answered) at all
				t := op.Int(0)
				tx := tu.TxRel(1000+t, []int64{90000 + t*10}, true)
				before := len(f.node.VerifTxChannel().Channel)
				acted := false
				if op.Name == "utx" {
					f.untrust[wire.CmdTx].Handle(ctx, tx)
					acted = len(f.node.VerifTxChannel().Channel) > before
					f.node.VerifDrainTxs(ctx)
				} else {
					h := *tx.TxHash()
					inv := wire.NewMsgInv()
					inv.AddInvVect(wire.NewInvVect(wire.InvTypeTx, &h))
					resp, _ := f.untrust[wire.CmdInv].Handle(ctx, inv)
					acted = len(resp) > 0 || f.utracker.VerifHas(h) || f.node.VerifMemPool().TransactionExists(&h)
				}
				return Obs{OK, b2i(acted)}
			case "uheaders":
				_, err := f.untrust[wire.CmdHeaders].Handle(ctx, mkHeaders(op.IntLists(0)))
				code := int64(OK)
				if err != nil {
					code = ERR
				}
				return Obs{code, b2i(f.ustate.IsReady())}
			}
			panic(harnessErr("unknown op " + op.Name))
		})
		f.rec.take()
		f.drainOutgoing()
		if obs[0] != PANIC {
			// outcome code, digest of the state after the step, payload
			full := append(Obs{obs[0]}, digest()...)
			obs = append(full, obs[1:]...)
		}
		result = append(result, obs)
	}

	// crash / fault analysis (C10)
	var mutOps []int
	for _, o := range store.MutOps {
		if o > bootOps {
			mutOps = append(mutOps, o-bootOps)
		}
	}
	extra := map[string]any{"storage_ops": store.OpCount() - bootOps, "mutations": len(store.Log), "fault_hit": store.Failed,
		"mutation_ops": mutOps}
	loadChain := func(img *VStore) []int64 {
		g := &flowNode{ctx: f.ctx, store: img, bu: bu, tu: tu, cfg: testCfg{delay: 2000}}
		var res []int64
		func() {
			defer func() {
				if r := recover(); r != nil {
					res = []int64{PANIC}
				}
			}()
			if err := g.bootErr(start); err != nil {
				res = []int64{ERR}
				return
			}
			repo := g.node.VerifBlocks()
			res = []int64{OK}
			var prevHash *bitcoin.Hash32
			linked := int64(1)
			var ids []int64
			for h := 0; h <= repo.LastHeight(); h++ {
				hdr, err := repo.Header(g.ctx, h)
				if err != nil {
					res = []int64{ERR, int64(h)}
					return
				}
				hash := hdr.BlockHash()
				if h > 0 && !hdr.PrevBlock.Equal(prevHash) {
					linked = 0
				}
				hh, ok := repo.Height(hash)
				if !ok || hh != h {
					linked = 0
				}
				ids = append(ids, bu.ID(hash))
				prevHash = hash
			}
			res = append(res, linked)
			res = append(res, ids...)
		}()
		return res
	}
	if cfgInt(c, "crash", 0) != 0 {
		var images [][]int64
		for i := 0; i <= len(store.Log); i++ {
			images = append(images, loadChain(ImageOf(store.Log, i, store.RmMissingErr)))
		}
		extra["images"] = images
		var keys []string
		for _, m := range store.Log {
			keys = append(keys, m.Kind+":"+m.Key)
		}
		extra["log"] = keys
	}
	if store.FailAt != 0 {
		// after the fault: what a restart on the surviving storage loads
		img := store.Clone()
		extra["after_fault_load"] = loadChain(img)
	}
	return result, extra
}
