//go:build verif

package main

import (
	"sort"
	"time"

	"github.com/tokenized/pkg/bitcoin"
	"github.com/tokenized/pkg/wire"
	"github.com/tokenized/spynode/internal/spynode"
	"github.com/tokenized/spynode/internal/state"
)

func init() { register("tracker", runTracker) }

// runTracker: connection 0 is the trusted one (real inv handler, real Node.check -> txTracker.Check),
// connections 1.. are real UntrustedNode objects registered with the node (real handleMessage, real check).
func runTracker(c *Case) ([]Obs, any) {
	bu := NewUniverse()
	tu := NewTxUniverse()
	tu.Declare(c)
	store := NewVStore(true)
	f := newFlowNode(store, bu, tu, 60000, 0)
	ctx := f.ctx
	st := f.node.VerifState()
	st.SetVersionReceived()
	st.SetHandshakeComplete()
	st.SetInSync()
	st.SetSentSendHeaders()
	st.SetAddressesRequested()
	st.SetWasInSync()
	st.SetNotifiedSync()
	nconn := int(cfgInt(c, "nconn", 3))
	var uns []*spynode.UntrustedNode
	for i := 1; i < nconn; i++ {
		uns = append(uns, f.node.VerifNewUntrusted(ctx, "untrusted:"+string(rune('0'+i))))
	}
	trackerOf := func(conn int64) *state.TxTracker {
		if conn == 0 {
			return f.node.VerifTxTracker()
		}
		return uns[conn-1].VerifTracker()
	}
	txRequests := func(msgs []wire.Message) []int64 {
		var ids []int64
		for _, m := range msgs {
			if gd, ok := m.(*wire.MsgGetData); ok {
				for _, iv := range gd.InvList {
					if iv.Type == wire.InvTypeTx {
						ids = append(ids, tu.ID(&iv.Hash))
					}
				}
			}
		}
		sort.Slice(ids, func(i, j int) bool { return ids[i] < ids[j] })
		return ids
	}
	next := int64(1)
	tip := int64(0)
	var result []Obs
	for _, raw := range c.Ops {
		op := decodeOp(raw)
		obs := guard(func() Obs {
			switch op.Name {
			case "inv": // conn txid
				h := tu.HashOf(op.Int(1))
				inv := wire.NewMsgInv()
				inv.AddInvVect(wire.NewInvVect(wire.InvTypeTx, &h))
				var out []wire.Message
				if op.Int(0) == 0 {
					f.node.VerifHandleMessage(ctx, inv)
					out = f.drainOutgoing()
				} else {
					un := uns[op.Int(0)-1]
					un.VerifHandle(ctx, inv)
					out = un.VerifDrainOutgoing()
				}
				return Obs{OK, b2i(len(txRequests(out)) > 0)}
			case "check": // conn
				var out []wire.Message
				if op.Int(0) == 0 {
					if err := f.node.VerifCheck(ctx); err != nil {
						return Obs{ERR}
					}
					out = f.drainOutgoing()
				} else {
					un := uns[op.Int(0)-1]
					if err := un.VerifCheck(ctx); err != nil {
						return Obs{ERR}
					}
					out = un.VerifDrainOutgoing()
				}
				return append(Obs{OK}, txRequests(out)...)
			case "body": // txid trusted
				tx, ok := tu.txs[op.Int(0)]
				if !ok {
					panic(harnessErr("undeclared tx"))
				}
				if op.Int(1) != 0 {
					f.node.VerifHandleMessage(ctx, tx)
				} else {
					uns[0].VerifHandle(ctx, tx)
				}
				if err := f.node.VerifDrainTxs(ctx); err != nil {
					return Obs{ERR}
				}
				return Obs{OK}
			case "confirm": // [txids]
				var txs []*wire.MsgTx
				var hashes []bitcoin.Hash32
				for _, t := range op.Ints(0) {
					tx, ok := tu.txs[t]
					if !ok {
						panic(harnessErr("undeclared tx in block"))
					}
					txs = append(txs, tx)
					hashes = append(hashes, *tx.TxHash())
				}
				root := merkleRoot(hashes)
				hdr := bu.Header(next, tip, 1400000000+next*600, &root)
				if err := f.node.ProcessBlock(ctx, &txBlock{header: *hdr, txs: txs, valid: true}); err != nil {
					return Obs{ERR}
				}
				tip = next
				next++
				return Obs{OK}
			case "stall_confirm": // conn [txids] : untrusted connection conn's peer has stopped reading (its outgoing channel is
				// full); the connection's periodic check runs (it has txids to ask for again) - and blocks in the
				// transmit; then the trusted peer's block confirming txids is processed.  Answer: [0, check blocked?,
				// block processed within 2 s?]; afterwards the channel is drained again.
				un := uns[op.Int(0)-1]
				un.VerifFillOutgoing()
				cdone := make(chan error, 1)
				go func() { cdone <- un.VerifCheck(ctx) }()
				blocked := int64(1)
				select {
				case <-cdone:
					blocked = 0
				case <-time.After(300 * time.Millisecond):
				}
				var txs []*wire.MsgTx
				var hashes []bitcoin.Hash32
				for _, t := range op.Ints(1) {
					tx, ok := tu.txs[t]
					if !ok {
						panic(harnessErr("undeclared tx in block"))
					}
					txs = append(txs, tx)
					hashes = append(hashes, *tx.TxHash())
				}
				root := merkleRoot(hashes)
				hdr := bu.Header(next, tip, 1400000000+next*600, &root)
				bdone := make(chan error, 1)
				go func() { bdone <- f.node.ProcessBlock(ctx, &txBlock{header: *hdr, txs: txs, valid: true}) }()
				processed := int64(0)
				select {
				case err := <-bdone:
					if err == nil {
						processed = 1
					}
				case <-time.After(2 * time.Second):
				}
				un.VerifDrainOutgoing()
				if blocked == 1 {
					select {
					case <-cdone:
					case <-time.After(2 * time.Second):
					}
				}
				if processed == 0 {
					select {
					case <-bdone:
					case <-time.After(2 * time.Second):
					}
				}
				un.VerifDrainOutgoing()
				tip = next
				next++
				return Obs{OK, blocked, processed}
			case "setinsync": // the node leaves / regains sync (block inventory, reorg header): blocks processed meanwhile
				// still confirm their transactions
				if op.Int(0) != 0 {
					st.SetInSync()
				} else {
					st.ClearInSync()
				}
				return Obs{OK}
			case "advance":
				d := time.Duration(op.Int(0)) * time.Millisecond
				f.node.VerifMemPool().VerifAge(d)
				f.node.VerifTxTracker().VerifAge(d)
				for _, un := range uns {
					un.VerifTracker().VerifAge(d)
				}
				return Obs{OK}
			case "istrusted": // txid : does the shared mempool consider the tx vouched for by the trusted peer
				return Obs{OK, b2i(f.node.VerifMemPool().IsTrusted(ctx, tu.HashOf(op.Int(0))))}
			case "tracked": // conn
				l := trackerOf(op.Int(0)).VerifList()
				ids := tu.IDs(l)
				sort.Slice(ids, func(i, j int) bool { return ids[i] < ids[j] })
				return append(Obs{OK}, ids...)
			}
			panic(harnessErr("unknown op " + op.Name))
		})
		f.rec.take()
		f.drainOutgoing()
		for _, un := range uns {
			un.VerifDrainOutgoing()
		}
		result = append(result, obs)
	}
	return result, nil
}
