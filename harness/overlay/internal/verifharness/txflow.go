//go:build verif

package main

import (
	internalstorage "github.com/tokenized/spynode/internal/storage"
	"bytes"
	"context"
	"crypto/sha256"
	"errors"
	"sort"
	"sync"
	"time"

	"github.com/tokenized/pkg/bitcoin"
	"github.com/tokenized/pkg/wire"
	"github.com/tokenized/spynode/internal/handlers"
	"github.com/tokenized/spynode/internal/spynode"
	"github.com/tokenized/spynode/internal/state"
	"github.com/tokenized/spynode/pkg/client"
)

func init() { register("txflow", runTxFlow) }

// ---- recording client.Handler ----

type recEvent struct {
	kind  int64 // 1 tx, 2 update, 3 headers, 4 insync
	txid  bitcoin.Hash32
	state client.TxState
	outs  []int64
	h     int64
	hdr   *wire.BlockHeader
	tx    *wire.MsgTx
}

type recorder struct {
	mu     sync.Mutex
	events []recEvent
}

func (r *recorder) HandleTx(ctx context.Context, tx *client.Tx) {
	r.mu.Lock()
	defer r.mu.Unlock()
	var outs []int64
	for _, o := range tx.Outputs {
		if o == nil {
			outs = append(outs, -5)
		} else {
			outs = append(outs, int64(o.Value))
		}
	}
	r.events = append(r.events, recEvent{kind: 1, txid: *tx.Tx.TxHash(), state: tx.State, outs: outs, tx: tx.Tx})
}

func (r *recorder) HandleTxUpdate(ctx context.Context, u *client.TxUpdate) {
	r.mu.Lock()
	defer r.mu.Unlock()
	r.events = append(r.events, recEvent{kind: 2, txid: u.TxID, state: u.State})
}

func (r *recorder) HandleHeaders(ctx context.Context, h *client.Headers) {
	r.mu.Lock()
	defer r.mu.Unlock()
	for i, hdr := range h.Headers {
		r.events = append(r.events, recEvent{kind: 3, h: int64(h.StartHeight) + int64(i), hdr: hdr})
	}
}

func (r *recorder) HandleInSync(ctx context.Context) {
	r.mu.Lock()
	defer r.mu.Unlock()
	r.events = append(r.events, recEvent{kind: 4})
}

func (r *recorder) HandleMessage(ctx context.Context, p client.MessagePayload) {}

// sendGate is a handler registered BEFORE the recorder: when armed for a txid it holds the first
// "safe" state update for that txid inside its callback (a slow client) until released, so that what
// the later handlers observe while an update is being sent can be scripted.
type sendGate struct {
	mu      sync.Mutex
	armed    bool
	hdrArmed bool
	txid     bitcoin.Hash32
	reached chan struct{}
	resume  chan struct{}
}

func (g *sendGate) arm(txid bitcoin.Hash32) (<-chan struct{}, chan<- struct{}) {
	g.mu.Lock()
	defer g.mu.Unlock()
	g.armed, g.txid = true, txid
	g.reached, g.resume = make(chan struct{}), make(chan struct{})
	return g.reached, g.resume
}

func (g *sendGate) disarm() {
	g.mu.Lock()
	g.armed = false
	g.mu.Unlock()
}

func (g *sendGate) HandleTx(ctx context.Context, tx *client.Tx) {}
func (g *sendGate) HandleTxUpdate(ctx context.Context, u *client.TxUpdate) {
	g.mu.Lock()
	hit := g.armed && u.State.Safe && u.TxID.Equal(&g.txid)
	if hit {
		g.armed = false
	}
	reached, resume := g.reached, g.resume
	g.mu.Unlock()
	if hit {
		close(reached)
		select {
		case <-resume:
		case <-time.After(5 * time.Second):
		}
	}
}
func (g *sendGate) armHeaders() (<-chan struct{}, chan<- struct{}) {
	g.mu.Lock()
	defer g.mu.Unlock()
	g.hdrArmed = true
	g.reached, g.resume = make(chan struct{}), make(chan struct{})
	return g.reached, g.resume
}

// HandleHeaders: when armed, holds the block announcement (ProcessBlock is then inside the block, holding the tx
// repository's lock, before it looks at the block's transactions)
func (g *sendGate) HandleHeaders(ctx context.Context, h *client.Headers) {
	g.mu.Lock()
	hit := g.hdrArmed
	g.hdrArmed = false
	reached, resume := g.reached, g.resume
	g.mu.Unlock()
	if hit {
		close(reached)
		select {
		case <-resume:
		case <-time.After(5 * time.Second):
		}
	}
}
func (g *sendGate) HandleInSync(ctx context.Context)                                  {}
func (g *sendGate) HandleMessage(ctx context.Context, p client.MessagePayload)        {}

func (r *recorder) take() []recEvent {
	r.mu.Lock()
	defer r.mu.Unlock()
	e := r.events
	r.events = nil
	return e
}

// ---- scripted fetchers ----

type scriptedFetcher struct {
	tu *TxUniverse
	// one-shot pause point: the next GetOutputs asking for this outpoint signals `paused` and waits for `resume`
	mu      sync.Mutex
	armed   bool
	pauseOn wire.OutPoint
	paused  chan struct{}
	resume  chan struct{}
}

func (f *scriptedFetcher) arm(op wire.OutPoint) (<-chan struct{}, chan<- struct{}) {
	f.mu.Lock()
	defer f.mu.Unlock()
	f.armed, f.pauseOn = true, op
	f.paused, f.resume = make(chan struct{}), make(chan struct{})
	return f.paused, f.resume
}

func (f *scriptedFetcher) disarm() {
	f.mu.Lock()
	f.armed = false
	f.mu.Unlock()
}

func (f *scriptedFetcher) GetOutputs(ctx context.Context, ops []wire.OutPoint) ([]bitcoin.UTXO, error) {
	f.mu.Lock()
	hit := false
	if f.armed {
		for _, op := range ops {
			if op.Hash.Equal(&f.pauseOn.Hash) && op.Index == f.pauseOn.Index {
				hit = true
			}
		}
	}
	if hit {
		f.armed = false
	}
	paused, resume := f.paused, f.resume
	f.mu.Unlock()
	if hit {
		close(paused)
		select {
		case <-resume:
		case <-time.After(5 * time.Second):
		}
	}
	r := make([]bitcoin.UTXO, 0, len(ops))
	for _, op := range ops {
		r = append(r, bitcoin.UTXO{Hash: op.Hash, Index: op.Index, Value: uint64(f.tu.OutPointID(op)),
			LockingScript: []byte{0x51}})
	}
	return r, nil
}

func (f *scriptedFetcher) GetTx(ctx context.Context, txid bitcoin.Hash32) (*wire.MsgTx, error) {
	return nil, errors.New("not available")
}

// ---- blocks with transactions ----

func dsha(b []byte) bitcoin.Hash32 {
	a := sha256.Sum256(b)
	return bitcoin.Hash32(sha256.Sum256(a[:]))
}

// textbook merkle root, independent of wire.MerkleTree
func merkleRoot(hashes []bitcoin.Hash32) bitcoin.Hash32 {
	if len(hashes) == 0 {
		return bitcoin.Hash32{}
	}
	layer := append([]bitcoin.Hash32{}, hashes...)
	for len(layer) > 1 {
		if len(layer)%2 == 1 {
			layer = append(layer, layer[len(layer)-1])
		}
		var next []bitcoin.Hash32
		for i := 0; i < len(layer); i += 2 {
			next = append(next, dsha(append(append([]byte{}, layer[i][:]...), layer[i+1][:]...)))
		}
		layer = next
	}
	return layer[0]
}

type txBlock struct {
	header wire.BlockHeader
	txs    []*wire.MsgTx
	next   int
	valid  bool
}

func (b *txBlock) GetHeader() wire.BlockHeader { return b.header }
func (b *txBlock) IsMerkleRootValid() bool     { return b.valid }
func (b *txBlock) GetTxCount() uint64          { return uint64(len(b.txs)) }
func (b *txBlock) GetNextTx() (*wire.MsgTx, error) {
	if b.next >= len(b.txs) {
		return nil, nil
	}
	tx := b.txs[b.next]
	b.next++
	return tx, nil
}
func (b *txBlock) ResetTxs() { b.next = 0 }
func (b *txBlock) SerializeSize() int {
	n := 80
	for _, tx := range b.txs {
		n += tx.SerializeSize()
	}
	return n
}

// ---- the node under test ----

type flowNode struct {
	ctx      context.Context
	cfg      testCfg
	store    *VStore
	node     *spynode.Node
	rec      *recorder
	gate     *sendGate
	fetcher  *scriptedFetcher
	bu       *Universe
	tu       *TxUniverse
	untrust  map[string]handlers.MessageHandler
	ustate   *state.UntrustedState
	utracker *state.TxTracker
}

type testCfg struct {
	delay   int
	mempool bool // RequestMempool (the shipped default): the first check in sync asks for the mempool, the in-sync notification comes with the next
}

func newFlowNode(store *VStore, bu *Universe, tu *TxUniverse, delay int, startID int64) *flowNode {
	return newFlowNodeCfg(store, bu, tu, testCfg{delay: delay}, startID)
}

func newFlowNodeCfg(store *VStore, bu *Universe, tu *TxUniverse, tc testCfg, startID int64) *flowNode {
	f := &flowNode{ctx: context.Background(), store: store, bu: bu, tu: tu, cfg: tc}
	f.boot(startID)
	return f
}

func (f *flowNode) boot(startID int64) {
	if err := f.bootErr(startID); err != nil {
		panic(harnessErr("load: " + err.Error()))
	}
}

func (f *flowNode) bootErr(startID int64) error {
	cfg := testConfig()
	cfg.SafeTxDelay = f.cfg.delay
	cfg.RequestMempool = f.cfg.mempool
	if startID >= 0 {
		cfg.StartHash = f.bu.HashOf(startID)
	}
	fetcher := &scriptedFetcher{tu: f.tu}
	f.fetcher = fetcher
	f.node = spynode.NewNode(cfg, f.store, fetcher, fetcher)
	f.gate = &sendGate{}
	f.node.RegisterHandler(f.gate)
	f.rec = &recorder{}
	f.node.RegisterHandler(f.rec)
	f.node.SubscribePushDatas(f.ctx, [][]byte{SubscribedData})
	if err := f.node.VerifLoad(f.ctx); err != nil {
		return err
	}
	f.node.VerifTxChannel().Open(1000)
	f.node.VerifOutgoing().Open(1000)
	f.ustate = state.NewUntrustedState()
	f.utracker = state.NewTxTracker()
	f.untrust = handlers.NewUntrustedMessageHandlers(f.ctx, f.node.VerifState(), f.ustate, f.node.VerifPeers(),
		f.node.VerifBlocks(), f.utracker, f.node.VerifMemPool(), f.node.VerifTxChannel(), f.node, "untrusted:8333")
	return nil
}

// normaliseMemPool: Node.load puts the stored transactions of the unconfirmed set back into the mempool in
// the iteration order of a Go map.  That order only decides the order of the spenders in the outpoint index, i.e.
// the order of the notifications within a later step.  So that runs are reproducible the harness re-enters them in
// ascending txid order (what load could have done) through the real MemPool methods.
func (f *flowNode) normaliseMemPool() {
	mp := f.node.VerifMemPool()
	var ids []int64
	for _, e := range f.node.VerifTxs().VerifUnconfirmed() {
		h := e.TxID
		if mp.TransactionExists(&h) {
			ids = append(ids, f.tu.ID(&h))
		}
	}
	sort.Slice(ids, func(i, j int) bool { return ids[i] < ids[j] })
	for _, id := range ids {
		tx, ok := f.tu.txs[id]
		if !ok {
			continue
		}
		// re-entered in id order with the mark that load gave it (load enters them unmarked: a stored tx is vouched
		// for by its stored flag only)
		trusted := mp.IsTrusted(f.ctx, *tx.TxHash())
		mp.RemoveTransaction(*tx.TxHash())
		mp.AddTransaction(f.ctx, tx, trusted)
	}
}

func (f *flowNode) encState(s client.TxState) []int64 {
	proof := int64(-1)
	if s.MerkleProof != nil {
		proof = f.bu.ID(s.MerkleProof.BlockHeader.BlockHash())
	}
	return []int64{b2i(s.Safe), b2i(s.UnSafe), b2i(s.Cancelled), int64(s.UnconfirmedDepth), proof}
}

func (f *flowNode) encEvents(evs []recEvent, sortByTx bool) []int64 {
	if sortByTx {
		sort.SliceStable(evs, func(i, j int) bool { return f.tu.ID(&evs[i].txid) < f.tu.ID(&evs[j].txid) })
	}
	var o []int64
	for _, e := range evs {
		switch e.kind {
		case 1:
			o = append(o, 1, f.tu.ID(&e.txid))
			o = append(o, f.encState(e.state)...)
			o = append(o, int64(len(e.outs)))
			o = append(o, e.outs...)
		case 2:
			o = append(o, 2, f.tu.ID(&e.txid))
			o = append(o, f.encState(e.state)...)
		case 3:
			o = append(o, 3, e.h, f.bu.HeaderID(e.hdr))
		case 4:
			o = append(o, 4)
		}
	}
	return o
}

func (f *flowNode) drainOutgoing() []wire.Message {
	var r []wire.Message
	for {
		select {
		case m := <-f.node.VerifOutgoing().Channel:
			r = append(r, m)
		default:
			return r
		}
	}
}

func runTxFlow(c *Case) ([]Obs, any) {
	bu := NewUniverse()
	tu := NewTxUniverse()
	tu.VarOuts = true // model TxFlow.nouts
	tu.Declare(c)
	store := NewVStore(true)
	delay := int(cfgInt(c, "delay", 2000))
	f := newFlowNode(store, bu, tu, delay, 0)
	ctx := f.ctx
	var result []Obs
	wedged := false // two threads of the node wait for each other: nothing more can be run on it
	for _, raw := range c.Ops {
		op := decodeOp(raw)
		if wedged {
			result = append(result, Obs{-9})
			continue
		}
		obs := guard(func() Obs {
			switch op.Name {
			case "tx": // txid src(0 trusted, 1 untrusted, 2 local)
				tx, ok := tu.txs[op.Int(0)]
				if !ok {
					panic(harnessErr("undeclared tx"))
				}
				// optional 3rd argument 1: the peer wraps the tx in an extended message (extmsg), as it must for very
				// large payloads and may for any
				var msg wire.Message = tx
				cmd := wire.CmdTx
				if len(op.Args) > 2 && op.Int(2) != 0 {
					var buf bytes.Buffer
					if err := tx.BtcEncode(&buf, 0); err != nil {
						panic(harnessErr("encode tx: " + err.Error()))
					}
					msg = &wire.MsgExtended{ExtCommand: wire.CmdTx, Length: uint64(buf.Len()), Payload: buf.Bytes()}
					cmd = wire.CmdExtended
				}
				switch op.Int(1) {
				case 0:
					if _, err := f.node.VerifHandlers()[cmd].Handle(ctx, msg); err != nil {
						return Obs{ERR}
					}
				case 1:
					f.ustate.SetVerified()
					if _, err := f.untrust[cmd].Handle(ctx, msg); err != nil {
						return Obs{ERR}
					}
				default:
					if err := f.node.HandleTx(ctx, tx); err != nil {
						return Obs{ERR}
					}
				}
				if err := f.node.VerifDrainTxs(ctx); err != nil {
					return append(Obs{ERR}, f.encEvents(f.rec.take(), false)...)
				}
				return append(Obs{OK}, f.encEvents(f.rec.take(), false)...)
			case "race_delay": // txid conflicting-txid src : the delay check's read-modify-write of txid's state raced
				// with the arrival of a conflicting tx (which lands between the check's read and its write)
				t, ctx2 := op.Int(0), ctx
				cx, ok := tu.txs[op.Int(1)]
				if !ok {
					panic(harnessErr("undeclared tx"))
				}
				// optional 4th argument 1: hold the check right AFTER it read the state (instead of at its write)
				var paused, resume chan struct{}
				if len(op.Args) > 3 && op.Int(3) != 0 {
					paused, resume = f.store.ArmPauseRead(tu.HashOf(t).String())
				} else {
					paused, resume = f.store.ArmPause(tu.HashOf(t).String())
				}
				done := make(chan struct{})
				go func() { f.node.VerifDelayCheck(ctx2); close(done) }()
				reached := false
				select {
				case <-paused:
					reached = true
				case <-done:
				case <-time.After(2 * time.Second):
				}
				f.store.DisarmPause()
				if !reached {
					select {
					case <-done:
					case <-time.After(2 * time.Second):
					}
					return append(Obs{OK, 0}, f.encEvents(f.rec.take(), true)...)
				}
				// the delay check has read the state and is about to write it back: now the conflict arrives
				cdone := make(chan error, 1)
				go func() {
					var err error
					if op.Int(2) == 0 {
						_, err = f.node.VerifHandlers()[wire.CmdTx].Handle(ctx2, cx)
					} else {
						f.ustate.SetVerified()
						_, err = f.untrust[wire.CmdTx].Handle(ctx2, cx)
					}
					if err == nil {
						err = f.node.VerifDrainTxs(ctx2)
					}
					cdone <- err
				}()
				select {
				case <-cdone: // the conflict was processed while the check was between its read and its write
				case <-time.After(300 * time.Millisecond): // it waits for the check (a lock): let the check finish first
				}
				close(resume)
				<-done
				select {
				case <-cdone:
				case <-time.After(2 * time.Second):
				}
				return append(Obs{OK, 1}, f.encEvents(f.rec.take(), false)...)
			case "race_send": // txid conflicting-txid src : the delay check is in the middle of SENDING txid's safe
				// update (the first handler is slow) when a conflicting tx arrives; the second handler must
				// not see "safe" after "unsafe"
				t, ctx2 := op.Int(0), ctx
				cx, ok := tu.txs[op.Int(1)]
				if !ok {
					panic(harnessErr("undeclared tx"))
				}
				reachedCh, resume := f.gate.arm(tu.HashOf(t))
				done := make(chan struct{})
				go func() { f.node.VerifDelayCheck(ctx2); close(done) }()
				reached := false
				select {
				case <-reachedCh:
					reached = true
				case <-done:
				case <-time.After(2 * time.Second):
				}
				f.gate.disarm()
				if !reached {
					select {
					case <-done:
					case <-time.After(2 * time.Second):
					}
					return append(Obs{OK, 0}, f.encEvents(f.rec.take(), true)...)
				}
				cdone := make(chan error, 1)
				go func() {
					var err error
					if op.Int(2) == 0 {
						_, err = f.node.VerifHandlers()[wire.CmdTx].Handle(ctx2, cx)
					} else {
						f.ustate.SetVerified()
						_, err = f.untrust[wire.CmdTx].Handle(ctx2, cx)
					}
					if err == nil {
						err = f.node.VerifDrainTxs(ctx2)
					}
					cdone <- err
				}()
				select {
				case <-cdone: // the conflict was processed and reported while the safe update was still being sent
				case <-time.After(300 * time.Millisecond): // it waits for the sender (a lock): let the sender finish first
				}
				close(resume)
				<-done
				select {
				case <-cdone:
				case <-time.After(2 * time.Second):
				}
				return append(Obs{OK, 1}, f.encEvents(f.rec.take(), false)...)
			case "inv": // txid trusted
				h := tu.HashOf(op.Int(0))
				inv := wire.NewMsgInv()
				inv.AddInvVect(wire.NewInvVect(wire.InvTypeTx, &h))
				var resp []wire.Message
				var err error
				var tracker *state.TxTracker
				// the observation is "this announcement put t on the connection's tracker": forget an
				// entry left by an earlier announcement (the tracker is not part of this model)
				if op.Int(1) != 0 {
					tracker = f.node.VerifTxTracker()
					tracker.Remove(ctx, h)
					resp, err = f.node.VerifHandlers()[wire.CmdInv].Handle(ctx, inv)
				} else {
					f.ustate.SetVerified()
					tracker = f.utracker
					tracker.Remove(ctx, h)
					resp, err = f.untrust[wire.CmdInv].Handle(ctx, inv)
				}
				if err != nil {
					return Obs{ERR}
				}
				req := false
				for _, m := range resp {
					if gd, ok := m.(*wire.MsgGetData); ok {
						for _, iv := range gd.InvList {
							if iv.Hash == h {
								req = true
							}
						}
					}
				}
				return Obs{OK, b2i(req), b2i(tracker.VerifHas(h))}
			case "block": // id prev [txids] valid
				var txs []*wire.MsgTx
				var hashes []bitcoin.Hash32
				for _, t := range op.Ints(2) {
					tx, ok := tu.txs[t]
					if !ok {
						panic(harnessErr("undeclared tx in block"))
					}
					txs = append(txs, tx)
					hashes = append(hashes, *tx.TxHash())
				}
				root := merkleRoot(hashes)
				valid := op.Int(3) != 0
				if !valid {
					root[0] ^= 0x55
				}
				hdr := bu.Header(op.Int(0), op.Int(1), 1400000000+op.Int(0)*600, &root)
				blk := &txBlock{header: *hdr, txs: txs, valid: valid}
				err := f.node.ProcessBlock(ctx, blk)
				if err != nil {
					return Obs{ERR}
				}
				return append(Obs{OK}, f.encEvents(f.rec.take(), false)...)
			case "reorg": // id prev [txids] valid : header id on parent prev is announced through the REAL trusted
				// headers handler (a header competing with processed blocks makes it revert the chain, the per-height tx
				// id files and the in-sync flag), then the block is supplied (state.AddBlock / NextBlock) and processed
				// like Node.processBlocks does.  Observation: [code, in sync, chain height, tip id, notifications...]
				var txs []*wire.MsgTx
				var hashes []bitcoin.Hash32
				for _, t := range op.Ints(2) {
					tx, ok := tu.txs[t]
					if !ok {
						panic(harnessErr("undeclared tx in block"))
					}
					txs = append(txs, tx)
					hashes = append(hashes, *tx.TxHash())
				}
				root := merkleRoot(hashes)
				valid := op.Int(3) != 0
				if !valid {
					root[0] ^= 0x55
				}
				hdr := bu.Header(op.Int(0), op.Int(1), 1400000000+op.Int(0)*600, &root)
				blk := &txBlock{header: *hdr, txs: txs, valid: valid}
				nstate := f.node.VerifState()
				finish := func(code int64) Obs {
					blocks := f.node.VerifBlocks()
					o := Obs{code, b2i(nstate.IsReady()), int64(blocks.LastHeight()), bu.ID(blocks.LastHash())}
					evs := f.rec.take()
					if code == OK {
						o = append(o, f.encEvents(evs, false)...)
					}
					return o
				}
				// state.lastHash = the tip: what the normal flow has when no block request is pending
				nstate.SetLastHash(*f.node.VerifBlocks().LastHash())
				msg := wire.NewMsgHeaders()
				h := *hdr
				msg.AddBlockHeader(&h)
				if _, err := f.node.VerifHandlers()[wire.CmdHeaders].Handle(ctx, msg); err != nil {
					return finish(ERR)
				}
				if !nstate.AddBlock(hdr.BlockHash(), blk) {
					return finish(ERR) // the handler did not ask for this block
				}
				next := nstate.NextBlock()
				if next == nil {
					return finish(ERR)
				}
				perr := f.node.ProcessBlock(ctx, next)
				nstate.BlockProcessed()
				if perr != nil {
					return finish(ERR)
				}
				return finish(OK)
			case "blocktxs": // height : verif accessor, the per-height relevant tx id file
				l, err := f.node.VerifTxs().GetBlock(ctx, int(op.Int(0)))
				if err != nil {
					return Obs{ERR}
				}
				f.node.VerifTxs().ReleaseBlock(ctx, int(op.Int(0)))
				o := Obs{OK}
				for i := range l {
					o = append(o, tu.ID(&l[i]))
				}
				return o
			case "race_block_tx": // id prev [txids] t src : the tx message for t (first seen in this block) is handled by
				// the tx thread while ProcessBlock is in the middle of t (fetching the outputs it spends)
				var txs []*wire.MsgTx
				var hashes []bitcoin.Hash32
				for _, t := range op.Ints(2) {
					tx, ok := tu.txs[t]
					if !ok {
						panic(harnessErr("undeclared tx in block"))
					}
					txs = append(txs, tx)
					hashes = append(hashes, *tx.TxHash())
				}
				root := merkleRoot(hashes)
				hdr := bu.Header(op.Int(0), op.Int(1), 1400000000+op.Int(0)*600, &root)
				blk := &txBlock{header: *hdr, txs: txs, valid: true}
				cx, ok := tu.txs[op.Int(3)]
				if !ok || len(cx.TxIn) == 0 {
					panic(harnessErr("undeclared tx"))
				}
				ctx2 := ctx
				pausedCh, resume := f.fetcher.arm(cx.TxIn[0].PreviousOutPoint)
				bdone := make(chan error, 1)
				go func() { bdone <- f.node.ProcessBlock(ctx2, blk) }()
				reached := false
				var berr error
				bfin := false
				select {
				case <-pausedCh:
					reached = true
				case berr = <-bdone:
					bfin = true
				case <-time.After(2 * time.Second):
				}
				f.fetcher.disarm()
				handle := func() error {
					var err error
					if op.Int(4) == 0 {
						_, err = f.node.VerifHandlers()[wire.CmdTx].Handle(ctx2, cx)
					} else {
						f.ustate.SetVerified()
						_, err = f.untrust[wire.CmdTx].Handle(ctx2, cx)
					}
					if err == nil {
						err = f.node.VerifDrainTxs(ctx2)
					}
					return err
				}
				if !reached {
					if !bfin {
						berr = <-bdone
					}
					herr := handle()
					return append(Obs{OK, 0, b2i(berr != nil), b2i(herr != nil)}, f.encEvents(f.rec.take(), false)...)
				}
				cdone := make(chan error, 1)
				go func() { cdone <- handle() }()
				var herr error
				hfin := false
				select {
				case herr = <-cdone:
					hfin = true
				case <-time.After(300 * time.Millisecond): // it waits for the block (the tx repository's lock)
				}
				close(resume)
				berr = <-bdone
				if !hfin {
					select {
					case herr = <-cdone:
					case <-time.After(3 * time.Second):
						herr = errors.New("tx thread stuck")
					}
				}
				return append(Obs{OK, 1, b2i(berr != nil), b2i(herr != nil)}, f.encEvents(f.rec.take(), false)...)
			case "race_tx_block": // t src id prev [txids] : the tx thread is in the middle of tx t (it has entered t into the
				// unconfirmed set and is fetching the outputs t spends - a network round trip - its state not yet stored)
				// when the block thread processes block id
				cx, ok := tu.txs[op.Int(0)]
				if !ok || len(cx.TxIn) == 0 {
					panic(harnessErr("undeclared tx"))
				}
				var txs []*wire.MsgTx
				var hashes []bitcoin.Hash32
				for _, t := range op.Ints(4) {
					tx, ok := tu.txs[t]
					if !ok {
						panic(harnessErr("undeclared tx in block"))
					}
					txs = append(txs, tx)
					hashes = append(hashes, *tx.TxHash())
				}
				root := merkleRoot(hashes)
				hdr := bu.Header(op.Int(2), op.Int(3), 1400000000+op.Int(2)*600, &root)
				blk := &txBlock{header: *hdr, txs: txs, valid: true}
				ctx2 := ctx
				pausedCh, resume := f.fetcher.arm(cx.TxIn[0].PreviousOutPoint)
				cdone := make(chan error, 1)
				go func() {
					var err error
					if op.Int(1) == 0 {
						_, err = f.node.VerifHandlers()[wire.CmdTx].Handle(ctx2, cx)
					} else {
						f.ustate.SetVerified()
						_, err = f.untrust[wire.CmdTx].Handle(ctx2, cx)
					}
					if err == nil {
						err = f.node.VerifDrainTxs(ctx2)
					}
					cdone <- err
				}()
				reached := false
				var herr, berr error
				hfin := false
				select {
				case <-pausedCh:
					reached = true
				case herr = <-cdone:
					hfin = true
				case <-time.After(2 * time.Second):
				}
				f.fetcher.disarm()
				bdone := make(chan error, 1)
				go func() { bdone <- f.node.ProcessBlock(ctx2, blk) }()
				bfin := false
				select {
				case berr = <-bdone:
					bfin = true
				case <-time.After(300 * time.Millisecond): // it waits for the tx thread
				}
				if reached {
					close(resume)
				}
				stuck := int64(0)
				if !hfin {
					select {
					case herr = <-cdone:
					case <-time.After(4 * time.Second):
						stuck |= 2
					}
				}
				if !bfin {
					select {
					case berr = <-bdone:
					case <-time.After(4 * time.Second):
						stuck |= 1
					}
				}
				if stuck != 0 {
					wedged = true
					return Obs{OK, b2i(reached), 2, stuck}
				}
				return append(Obs{OK, b2i(reached), b2i(berr != nil), b2i(herr != nil)}, f.encEvents(f.rec.take(), false)...)
			case "race_block_conflict": // id prev [txids] inject src : while ProcessBlock is inside the block (announcement being
				// sent, tx repository locked) the tx thread handles tx `inject` (e.g. a double spend of a tx of the block)
				var txs []*wire.MsgTx
				var hashes []bitcoin.Hash32
				for _, t := range op.Ints(2) {
					tx, ok := tu.txs[t]
					if !ok {
						panic(harnessErr("undeclared tx in block"))
					}
					txs = append(txs, tx)
					hashes = append(hashes, *tx.TxHash())
				}
				root := merkleRoot(hashes)
				hdr := bu.Header(op.Int(0), op.Int(1), 1400000000+op.Int(0)*600, &root)
				blk := &txBlock{header: *hdr, txs: txs, valid: true}
				cx, ok := tu.txs[op.Int(3)]
				if !ok {
					panic(harnessErr("undeclared tx"))
				}
				ctx2 := ctx
				reachedCh, resume := f.gate.armHeaders()
				bdone := make(chan error, 1)
				go func() { bdone <- f.node.ProcessBlock(ctx2, blk) }()
				reached := false
				var berr error
				bfin := false
				select {
				case <-reachedCh:
					reached = true
				case berr = <-bdone:
					bfin = true
				case <-time.After(2 * time.Second):
				}
				cdone := make(chan error, 1)
				go func() {
					var err error
					if op.Int(4) == 0 {
						_, err = f.node.VerifHandlers()[wire.CmdTx].Handle(ctx2, cx)
					} else {
						f.ustate.SetVerified()
						_, err = f.untrust[wire.CmdTx].Handle(ctx2, cx)
					}
					if err == nil {
						err = f.node.VerifDrainTxs(ctx2)
					}
					cdone <- err
				}()
				var herr error
				hfin := false
				select {
				case herr = <-cdone:
					hfin = true
				case <-time.After(300 * time.Millisecond): // it waits for the block (the tx repository's lock)
				}
				if reached {
					close(resume)
				}
				stuck := int64(0)
				if !bfin {
					select {
					case berr = <-bdone:
					case <-time.After(4 * time.Second):
						stuck |= 1
					}
				}
				if !hfin {
					select {
					case herr = <-cdone:
					case <-time.After(4 * time.Second):
						stuck |= 2
					}
				}
				if stuck != 0 {
					// the two threads wait for each other: nothing more can be run on this node
					wedged = true
					return Obs{OK, b2i(reached), 2, stuck}
				}
				return append(Obs{OK, b2i(reached), b2i(berr != nil), b2i(herr != nil)}, f.encEvents(f.rec.take(), false)...)
			case "delaycheck":
				f.node.VerifDelayCheck(ctx)
				return append(Obs{OK}, f.encEvents(f.rec.take(), true)...)
			case "advance":
				d := time.Duration(op.Int(0)) * time.Millisecond
				f.node.VerifTxs().VerifAge(d)
				f.node.VerifMemPool().VerifAge(d)
				f.node.VerifState().VerifAge(d)
				return Obs{OK}
			case "setinsync":
				if op.Int(0) != 0 {
					f.node.VerifState().SetInSync()
				} else {
					f.node.VerifState().ClearInSync()
				}
				return Obs{OK}
			case "restart":
				f.node.VerifBlocks().Save(ctx)
				saved := map[bitcoin.Hash32]time.Time{}
				for _, e := range f.node.VerifTxs().VerifUnconfirmed() {
					saved[e.TxID] = e.Time
				}
				if err := f.node.VerifTxs().Save(ctx); err != nil {
					return Obs{ERR}
				}
				f.boot(0)
				f.normaliseMemPool()
				// the first-seen times are stored to the millisecond: the restarted node measures the safe delay from them
				for _, e := range f.node.VerifTxs().VerifUnconfirmed() {
					if t0, ok := saved[e.TxID]; ok {
						if d := t0.Sub(e.Time); d < -time.Millisecond || d > time.Millisecond {
							return Obs{3, tu.ID(&e.TxID), int64(d / time.Millisecond)}
						}
					}
				}
				return Obs{OK}
			case "gettx":
				tx, err := f.node.GetTx(ctx, tu.HashOf(op.Int(0)))
				if err != nil || tx == nil {
					return Obs{ERR}
				}
				// the stored copy is what was sent: a stored merkle proof is the one the handlers were given, which the
				// client's verifier accepts for this txid (C04) - so the stored one must verify too
				if stored, err := internalstorage.FetchTxState(ctx, f.store, tu.HashOf(op.Int(0))); err == nil && stored != nil &&
					stored.State.MerkleProof != nil {
					if verr := stored.State.MerkleProof.IsValid(*tx.TxHash()); verr != nil {
						return Obs{3, tu.ID(tx.TxHash()), int64(len(stored.State.MerkleProof.DuplicatedIndexes))}
					}
				}
				return Obs{OK, tu.ID(tx.TxHash())}
			case "unconf":
				l := f.node.VerifTxs().VerifUnconfirmed()
				type row struct{ id, u, s, t int64 }
				var rows []row
				for _, e := range l {
					rows = append(rows, row{tu.ID(&e.TxID), b2i(e.Unsafe), b2i(e.Safe), b2i(e.Trusted)})
				}
				sort.Slice(rows, func(i, j int) bool { return rows[i].id < rows[j].id })
				o := Obs{OK}
				for _, r := range rows {
					o = append(o, r.id, r.u, r.s, r.t)
				}
				return o
			}
			panic(harnessErr("unknown op " + op.Name))
		})
		if obs[0] == ERR || obs[0] == PANIC {
			f.rec.take()
		}
		f.drainOutgoing()
		if len(obs) == 1 && obs[0] == PANIC {
			// a panic inside the node can leave its locks held (e.g. the tx repository during a block): later ops
			// would wait for ever
			wedged = true
		}
		result = append(result, obs)
	}
	return result, nil
}
