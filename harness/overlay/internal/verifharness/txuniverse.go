//go:build verif

package main

import (
	"encoding/binary"
	"fmt"

	"github.com/tokenized/pkg/bitcoin"
	"github.com/tokenized/pkg/wire"
)

// TxUniverse builds real wire.MsgTx values for generator-chosen transaction ids.
// An outpoint id o stands for output (o % 10) of transaction (o / 10); when that transaction was
// built earlier its real hash is used, otherwise a pseudo hash (an external, unknown parent).
type TxUniverse struct {
	txs    map[int64]*wire.MsgTx
	ids    map[bitcoin.Hash32]int64
	hashes map[int64]bitcoin.Hash32
}

func NewTxUniverse() *TxUniverse {
	return &TxUniverse{
		txs:    make(map[int64]*wire.MsgTx),
		ids:    make(map[bitcoin.Hash32]int64),
		hashes: make(map[int64]bitcoin.Hash32),
	}
}

func (u *TxUniverse) HashOf(t int64) bitcoin.Hash32 {
	if h, ok := u.hashes[t]; ok {
		return h
	}
	h := pseudo("tx", t)
	u.hashes[t] = h
	u.ids[h] = t
	return h
}

func (u *TxUniverse) OutPoint(o int64) wire.OutPoint {
	if o < 0 { // coinbase style input
		return wire.OutPoint{Index: wire.MaxPrevOutIndex}
	}
	return wire.OutPoint{Hash: u.HashOf(o / 10), Index: uint32(o % 10)}
}

// OutPointID is the inverse of OutPoint for known hashes (-77 unknown).
func (u *TxUniverse) OutPointID(op wire.OutPoint) int64 {
	if op.Index == wire.MaxPrevOutIndex {
		return -1
	}
	t, ok := u.ids[op.Hash]
	if !ok {
		return -77
	}
	return t*10 + int64(op.Index)
}

// Tx returns (building on first use) transaction t spending the given outpoints, with the given
// locking scripts for its outputs (a default marker output is added when there is none) and
// unlocking scripts for its inputs.
func (u *TxUniverse) Tx(t int64, body []int64, outScripts [][]byte, inScripts [][]byte) *wire.MsgTx {
	if tx, ok := u.txs[t]; ok {
		return tx
	}
	if _, bound := u.hashes[t]; bound {
		panic(harnessErr(fmt.Sprintf("tx %d was referenced as an unknown parent before being built", t)))
	}
	tx := wire.NewMsgTx(1)
	for i, o := range body {
		op := u.OutPoint(o)
		var script []byte
		if i < len(inScripts) {
			script = inScripts[i]
		}
		tx.AddTxIn(wire.NewTxIn(&op, script))
	}
	for _, s := range outScripts {
		tx.AddTxOut(wire.NewTxOut(1000, s))
	}
	// marker output so that every id has a distinct hash: OP_FALSE OP_RETURN <8 byte id>
	marker := make([]byte, 11)
	marker[0], marker[1], marker[2] = 0x00, 0x6a, 0x08
	binary.LittleEndian.PutUint64(marker[3:], uint64(t))
	tx.AddTxOut(wire.NewTxOut(0, marker))
	u.txs[t] = tx
	h := *tx.TxHash()
	u.hashes[t] = h
	u.ids[h] = t
	return tx
}

func (u *TxUniverse) ID(h *bitcoin.Hash32) int64 {
	if h == nil {
		return -88
	}
	if id, ok := u.ids[*h]; ok {
		return id
	}
	return -77
}

func (u *TxUniverse) IDs(hs []bitcoin.Hash32) []int64 {
	r := make([]int64, 0, len(hs))
	for i := range hs {
		r = append(r, u.ID(&hs[i]))
	}
	return r
}
