//go:build verif

package main

import (
	"encoding/binary"
	"encoding/json"
	"fmt"

	"github.com/tokenized/pkg/bitcoin"
	"github.com/tokenized/pkg/wire"
)

// TxUniverse builds real wire.MsgTx values for generator-chosen transaction ids.
// An outpoint id o stands for output (o % 10) of transaction (o / 10); when that transaction was
// built earlier its real hash is used, otherwise a pseudo hash (an external, unknown parent).
type TxUniverse struct {
	txs    map[int64]*wire.MsgTx
	ids    map[bitcoin.Hash32]int64
	hashes map[int64]bitcoin.Hash32
	// VarOuts: transaction t has nouts(t) outputs (model TxFlow.nouts) instead of three
	VarOuts bool
}

func NewTxUniverse() *TxUniverse {
	return &TxUniverse{
		txs:    make(map[int64]*wire.MsgTx),
		ids:    make(map[bitcoin.Hash32]int64),
		hashes: make(map[int64]bitcoin.Hash32),
	}
}

func (u *TxUniverse) HashOf(t int64) bitcoin.Hash32 {
	if h, ok := u.hashes[t]; ok {
		return h
	}
	h := pseudo("tx", t)
	u.hashes[t] = h
	u.ids[h] = t
	return h
}

func (u *TxUniverse) OutPoint(o int64) wire.OutPoint {
	if o < 0 { // coinbase style input
		return wire.OutPoint{Index: wire.MaxPrevOutIndex}
	}
	return wire.OutPoint{Hash: u.HashOf(o / 10), Index: uint32(o % 10)}
}

// OutPointID is the inverse of OutPoint for known hashes (-77 unknown).
func (u *TxUniverse) OutPointID(op wire.OutPoint) int64 {
	if op.Index == wire.MaxPrevOutIndex {
		return -1
	}
	t, ok := u.ids[op.Hash]
	if !ok {
		return -77
	}
	return t*10 + int64(op.Index)
}

// SubscribedData is the 20-byte push a relevant transaction carries in its first output.
var SubscribedData = []byte{0x11, 0x22, 0x33, 0x44, 0x55, 0x66, 0x77, 0x88, 0x99, 0xaa, 0xbb, 0xcc, 0xdd, 0xee,
	0xff, 0x01, 0x02, 0x03, 0x04, 0x05}

func p2pkh(h []byte) []byte {
	s := []byte{0x76, 0xa9, 0x14}
	s = append(s, h...)
	return append(s, 0x88, 0xac)
}

// nouts: the number of outputs of universe transaction t (model: TxFlow.nouts) - not the same for all, so that
// a parent can have more outputs than the transaction spending it
func nouts(t int64) int64 {
	if t%4 == 3 {
		return 5
	}
	return 3
}

// Tx returns (building on first use) transaction t spending the given outpoints.  Transaction t
// has nouts(t) outputs (three, some five); output k carries the value 10 t + k (so a spent output is
// identified by its outpoint id); output 0 pays to the subscribed hash iff the tx is relevant;
// output 2 is a marker that makes the hash unique per id.
func (u *TxUniverse) TxRel(t int64, body []int64, relevant bool) *wire.MsgTx {
	if tx, ok := u.txs[t]; ok {
		return tx
	}
	if _, bound := u.hashes[t]; bound {
		panic(harnessErr(fmt.Sprintf("tx %d was referenced as an unknown parent before being built", t)))
	}
	tx := wire.NewMsgTx(1)
	for _, o := range body {
		op := u.OutPoint(o)
		tx.AddTxIn(wire.NewTxIn(&op, []byte{0x51}))
	}
	other := make([]byte, 20)
	binary.LittleEndian.PutUint64(other, uint64(t)+7)
	// five-output transactions pay the subscribed hash in their LAST output, behind an output with raw data that is
	// not valid push encoding (OP_FALSE OP_RETURN PUSHDATA1 with a length past the end): a script that does not parse
	// ends the scan of that script only
	late := u.VarOuts && nouts(t) == 5
	if relevant && !late {
		tx.AddTxOut(wire.NewTxOut(uint64(t*10), p2pkh(SubscribedData)))
	} else {
		tx.AddTxOut(wire.NewTxOut(uint64(t*10), p2pkh(other)))
	}
	tx.AddTxOut(wire.NewTxOut(uint64(t*10+1), p2pkh(other)))
	marker := make([]byte, 11)
	marker[0], marker[1], marker[2] = 0x00, 0x6a, 0x08
	binary.LittleEndian.PutUint64(marker[3:], uint64(t))
	tx.AddTxOut(wire.NewTxOut(uint64(t*10+2), marker))
	if late {
		tx.AddTxOut(wire.NewTxOut(uint64(t*10+3), []byte{0x00, 0x6a, 0x4c, 0x50, 'a', 'b', 'c'}))
		if relevant {
			tx.AddTxOut(wire.NewTxOut(uint64(t*10+4), p2pkh(SubscribedData)))
		} else {
			tx.AddTxOut(wire.NewTxOut(uint64(t*10+4), p2pkh(other)))
		}
	}
	u.txs[t] = tx
	h := *tx.TxHash()
	u.hashes[t] = h
	u.ids[h] = t
	return tx
}

func (u *TxUniverse) Tx(t int64, body []int64, outScripts [][]byte, inScripts [][]byte) *wire.MsgTx {
	return u.TxRel(t, body, false)
}

// Declare builds the transactions listed in cfg.txs = [[txid, [outpoints], relevant?], ...]
func (u *TxUniverse) Declare(c *Case) {
	raw, ok := c.Cfg["txs"]
	if !ok {
		return
	}
	var decl [][]json.RawMessage
	if err := json.Unmarshal(raw, &decl); err != nil {
		panic(harnessErr("cfg.txs: " + err.Error()))
	}
	for _, d := range decl {
		var t int64
		var body []int64
		rel := false
		json.Unmarshal(d[0], &t)
		json.Unmarshal(d[1], &body)
		if len(d) > 2 {
			var r int64
			json.Unmarshal(d[2], &r)
			rel = r != 0
		}
		u.TxRel(t, body, rel)
	}
}

func (u *TxUniverse) ID(h *bitcoin.Hash32) int64 {
	if h == nil {
		return -88
	}
	if id, ok := u.ids[*h]; ok {
		return id
	}
	return -77
}

func (u *TxUniverse) IDs(hs []bitcoin.Hash32) []int64 {
	r := make([]int64, 0, len(hs))
	for i := range hs {
		r = append(r, u.ID(&hs[i]))
	}
	return r
}
