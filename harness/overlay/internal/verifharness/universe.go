//go:build verif

package main

import (
	"crypto/sha256"
	"fmt"

	"github.com/tokenized/pkg/bitcoin"
	"github.com/tokenized/pkg/wire"
)

// Universe interns 32-byte hashes as small integers chosen by the generator, so that the
// implementation's observations can be compared with the model's (where a hash is an opaque id).
// Block id 0 is the main-net genesis header that BlockRepository.Load inserts on empty storage.
type Universe struct {
	headers map[int64]*wire.BlockHeader
	ids     map[bitcoin.Hash32]int64
	hashes  map[int64]bitcoin.Hash32
}

func NewUniverse() *Universe { return NewUniverseNet(false) }

// NewUniverseNet: block id 0 is the genesis header of the main net or of the test nets (what
// BlockRepository.Load inserts on empty storage for the configured network).
func NewUniverseNet(testnet bool) *Universe {
	u := &Universe{
		headers: make(map[int64]*wire.BlockHeader),
		ids:     make(map[bitcoin.Hash32]int64),
		hashes:  make(map[int64]bitcoin.Hash32),
	}
	merklehash, _ := bitcoin.NewHash32FromStr("4a5e1e4baab89f3a32518a88c31bc87f618f76673e2cc77ab2127b7afdeda33b")
	g := &wire.BlockHeader{
		Version:    1,
		MerkleRoot: *merklehash,
		Timestamp:  1231006505,
		Bits:       0x1d00ffff,
		Nonce:      2083236893,
	}
	if testnet {
		g.Timestamp, g.Nonce = 1296688602, 414098458
	}
	u.headers[0] = g
	u.bind(0, *g.BlockHash())
	// id -1 is the all-zero hash (parent of genesis)
	u.bind(-1, bitcoin.Hash32{})
	return u
}

func (u *Universe) bind(id int64, h bitcoin.Hash32) {
	u.ids[h] = id
	u.hashes[id] = h
}

// pseudo gives ids that never get a header (unknown parents, txids, ...) a stable hash.
func pseudo(kind string, id int64) bitcoin.Hash32 {
	return bitcoin.Hash32(sha256.Sum256([]byte(fmt.Sprintf("%s-%d", kind, id))))
}

// HashOf returns the hash bound to id, creating a pseudo hash for an id without header.
func (u *Universe) HashOf(id int64) bitcoin.Hash32 {
	if h, ok := u.hashes[id]; ok {
		return h
	}
	h := pseudo("blk", id)
	u.bind(id, h)
	return h
}

// Header returns (creating if necessary) the header with this id; prev/time/root are only used on
// creation, the generator keeps them consistent per id.
func (u *Universe) Header(id, prev, time int64, root *bitcoin.Hash32) *wire.BlockHeader {
	if h, ok := u.headers[id]; ok {
		return h
	}
	h := &wire.BlockHeader{
		Version:   1,
		PrevBlock: u.HashOf(prev),
		Timestamp: uint32(time),
		Bits:      0x1d00ffff,
		Nonce:     uint32(id),
	}
	if root != nil {
		h.MerkleRoot = *root
	}
	u.headers[id] = h
	u.bind(id, *h.BlockHash())
	return h
}

func (u *Universe) Known(id int64) (*wire.BlockHeader, bool) {
	h, ok := u.headers[id]
	return h, ok
}

// ID returns the interned id of a hash, or -77 for a hash never seen.
func (u *Universe) ID(h *bitcoin.Hash32) int64 {
	if h == nil {
		return -88
	}
	if id, ok := u.ids[*h]; ok {
		return id
	}
	return -77
}

func (u *Universe) HeaderID(h *wire.BlockHeader) int64 {
	return u.ID(h.BlockHash())
}
