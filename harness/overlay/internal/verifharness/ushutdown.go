//go:build verif

package main

// Component "untrusted" (property C19, untrusted-peer side): a REAL UntrustedNode (real constructor,
// real Run with its monitorIncoming / monitorRequestTimeouts / sendOutgoing goroutines and its phased
// shutdown, real Stop) connected over loopback TCP to a scripted peer that, after the version
// exchange, NEVER READS again and keeps sending pings.  The listener's receive buffer is made small,
// so a few thousand pongs fill the socket: sendOutgoing blocks in the socket write, the 100-slot
// outgoing queue fills, monitorIncoming blocks inside MessageChannel.Add holding the mutex.
//
// ops                 observation
//  ustart             [0, connected, versionSeen]
//  ufill              [0, full]            pings until the outgoing queue is full and stays full
//  ureset             [0]                  the peer resets the connection (RST): the blocked write fails
//  ustop b            [0, returned]        UntrustedNode.Stop (what monitorUntrustedNodes does at shutdown); Run returns within b ms
//  ucounts            [0, incoming, processing]
//  udrain             [0, drained>0]       harness empties the outgoing queue (ends a hung scenario)

import (
	"context"
	"net"
	"sync/atomic"
	"syscall"
	"time"

	"github.com/tokenized/pkg/wire"
	"github.com/tokenized/spynode/internal/spynode"
)

func init() {
	register("untrusted", runUntrusted)
	// filling the socket buffers takes a few hundred thousand pings (CPU bound): one case at a time
	serialComponents["untrusted"] = true
}

func runUntrusted(c *Case) ([]Obs, any) {
	ctx := context.Background()
	bu := NewUniverse()
	tu := NewTxUniverse()
	store := NewVStore(true)

	lc := net.ListenConfig{Control: func(network, address string, rc syscall.RawConn) error {
		return rc.Control(func(fd uintptr) {
			syscall.SetsockoptInt(int(fd), syscall.SOL_SOCKET, syscall.SO_RCVBUF, 2048)
		})
	}}
	l, err := lc.Listen(ctx, "tcp", "127.0.0.1:0")
	if err != nil {
		panic(harnessErr("listen: " + err.Error()))
	}
	defer l.Close()
	cfg := sdConfig("127.0.0.1:1", 2000, 200)
	cfg.StartHash = bu.HashOf(0)
	btcnet := wire.BitcoinNet(cfg.Net)
	fetch := &sdFetcher{tu: tu}
	node := spynode.NewNode(cfg, store, fetch, fetch)
	if err := node.VerifLoad(ctx); err != nil {
		panic(harnessErr("load: " + err.Error()))
	}
	node.VerifTxChannel().Open(100)

	var un *spynode.UntrustedNode
	var runDone chan struct{}
	var conn net.Conn
	extra := map[string]any{}

	var out []Obs
	for _, raw := range c.Ops {
		op := decodeOp(raw)
		o := guard(func() Obs {
			switch op.Name {
			case "ustart":
				un = node.VerifUntrusted(l.Addr().String())
				runDone = make(chan struct{})
				rd, u := runDone, un
				go func() {
					u.Run(ctx)
					close(rd)
				}()
				l.(*net.TCPListener).SetDeadline(time.Now().Add(3 * time.Second))
				cn, err := l.Accept()
				if err != nil {
					return Obs{OK, 0, 0}
				}
				conn = cn
				// read exactly the node's version message, then never read again
				conn.SetReadDeadline(time.Now().Add(3 * time.Second))
				_, msg, _, err := wire.ReadMessageN(conn, wire.ProtocolVersion, btcnet)
				_, isVersion := msg.(*wire.MsgVersion)
				me := wire.NewNetAddressIPPort(net.IPv4(127, 0, 0, 1), 8333, 0)
				wire.WriteMessageN(conn, wire.NewMsgVersion(me, me, 7, 0), wire.ProtocolVersion, btcnet)
				return Obs{OK, 1, b2i(err == nil && isVersion)}
			case "ufill":
				// The pings are written by their own goroutine WITHOUT a deadline: a write that blocks (the
				// node's reader is slow, or blocked as intended) simply resumes or stays blocked - a write
				// cut off by a deadline would leave half a message in the stream and the node would drop
				// the connection for a framing error.  The goroutine ends when the connection is closed.
				var sent, stopFill int64
				cn := conn
				go func() {
					for atomic.LoadInt64(&stopFill) == 0 {
						if _, err := wire.WriteMessageN(cn, wire.NewMsgPing(uint64(atomic.LoadInt64(&sent))), wire.ProtocolVersion, btcnet); err != nil {
							return
						}
						atomic.AddInt64(&sent, 1)
					}
				}()
				full := false
				deadline := time.Now().Add(90 * time.Second)
				for time.Now().Before(deadline) && !full {
					time.Sleep(20 * time.Millisecond)
					n, cp := un.VerifOutgoingFill()
					if n == cp && cp > 0 {
						time.Sleep(150 * time.Millisecond)
						n, cp = un.VerifOutgoingFill()
						full = n == cp
					}
				}
				atomic.StoreInt64(&stopFill, 1)
				extra["pings"] = atomic.LoadInt64(&sent)
				return Obs{OK, b2i(full)}
			case "ureset":
				if tc, ok := conn.(*net.TCPConn); ok {
					tc.SetLinger(0)
				}
				conn.Close()
				time.Sleep(100 * time.Millisecond)
				return Obs{OK}
			case "ustop":
				un.Stop(ctx)
				ret := false
				select {
				case <-runDone:
					ret = true
				case <-time.After(time.Duration(op.Int(0)) * time.Millisecond):
				}
				return Obs{OK, b2i(ret)}
			case "ucounts":
				// the counters are incremented inside the goroutines: report them once they have been
				// unchanged for 150 ms (a goroutine that has not run yet is not a different outcome)
				in, pr := un.VerifCounts()
				stable := time.Now()
				deadline := time.Now().Add(2 * time.Second)
				for time.Now().Before(deadline) && time.Since(stable) < 150*time.Millisecond {
					time.Sleep(5 * time.Millisecond)
					i2, p2 := un.VerifCounts()
					if i2 != in || p2 != pr {
						in, pr, stable = i2, p2, time.Now()
					}
				}
				return Obs{OK, in, pr}
			case "udrain":
				n := drainUntrusted(un, 600*time.Millisecond)
				return Obs{OK, b2i(n > 0)}
			}
			panic(harnessErr("unknown op " + op.Name))
		})
		out = append(out, o)
	}
	if un != nil {
		un.Stop(ctx)
		select {
		case <-runDone:
		case <-time.After(time.Second):
			drainUntrusted(un, time.Second)
			select {
			case <-runDone:
			case <-time.After(2 * time.Second):
			}
		}
	}
	if conn != nil {
		conn.Close()
	}
	return out, extra
}

func drainUntrusted(un *spynode.UntrustedNode, d time.Duration) int { return un.VerifDrainOutgoingFor(d) }
