//go:build verif

package main

// Component "untrusted" (property C19, untrusted-peer side): a REAL UntrustedNode (real constructor,
// real Run with its monitorIncoming / monitorRequestTimeouts / sendOutgoing goroutines and its phased
// shutdown, real Stop) connected over loopback TCP to a scripted peer that, after the version
// exchange, NEVER READS again and sends tx inventories that the node answers with getdata requests:
// a few large ones fill the socket so that sendOutgoing blocks in the write, then small ones fill the
// 100-slot outgoing queue until monitorIncoming blocks inside MessageChannel.Add holding the mutex.
//
// ops                 observation
//  ustart             [0, connected, versionSeen]
//  ufill              [0, full]            inventories until the outgoing queue is full and stays full
//  ureset             [0]                  the peer resets the connection (RST): the blocked write fails
//  ustop b            [0, returned]        UntrustedNode.Stop (what monitorUntrustedNodes does at shutdown); Run returns within b ms
//  ucounts            [0, incoming, processing]
//  udrain             [0, drained>0]       harness empties the outgoing queue (ends a hung scenario)

import (
	"context"
	"net"
	"syscall"
	"time"

	"github.com/tokenized/pkg/wire"
	"github.com/tokenized/spynode/internal/spynode"
)

func init() {
	register("untrusted", runUntrusted)
	// filling the socket buffers takes a few hundred thousand pings (CPU bound): one case at a time
	serialComponents["untrusted"] = true
}

func runUntrusted(c *Case) ([]Obs, any) {
	ctx := context.Background()
	bu := NewUniverse()
	tu := NewTxUniverse()
	store := NewVStore(true)

	lc := net.ListenConfig{Control: func(network, address string, rc syscall.RawConn) error {
		return rc.Control(func(fd uintptr) {
			syscall.SetsockoptInt(int(fd), syscall.SOL_SOCKET, syscall.SO_RCVBUF, 2048)
		})
	}}
	l, err := lc.Listen(ctx, "tcp", "127.0.0.1:0")
	if err != nil {
		panic(harnessErr("listen: " + err.Error()))
	}
	defer l.Close()
	cfg := sdConfig("127.0.0.1:1", 2000, 200)
	cfg.StartHash = bu.HashOf(0)
	btcnet := wire.BitcoinNet(cfg.Net)
	fetch := &sdFetcher{tu: tu}
	node := spynode.NewNode(cfg, store, fetch, fetch)
	if err := node.VerifLoad(ctx); err != nil {
		panic(harnessErr("load: " + err.Error()))
	}
	node.VerifTxChannel().Open(100)

	var un *spynode.UntrustedNode
	var runDone chan struct{}
	var conn net.Conn
	extra := map[string]any{}
	invSeq := int64(0)

	var out []Obs
	for _, raw := range c.Ops {
		op := decodeOp(raw)
		o := guard(func() Obs {
			switch op.Name {
			case "ustart":
				un = node.VerifUntrusted(l.Addr().String())
				runDone = make(chan struct{})
				rd, u := runDone, un
				go func() {
					u.Run(ctx)
					close(rd)
				}()
				l.(*net.TCPListener).SetDeadline(time.Now().Add(3 * time.Second))
				cn, err := l.Accept()
				if err != nil {
					return Obs{OK, 0, 0}
				}
				conn = cn
				// read exactly the node's version message, then never read again
				conn.SetReadDeadline(time.Now().Add(3 * time.Second))
				_, msg, _, err := wire.ReadMessageN(conn, wire.ProtocolVersion, btcnet)
				_, isVersion := msg.(*wire.MsgVersion)
				me := wire.NewNetAddressIPPort(net.IPv4(127, 0, 0, 1), 8333, 0)
				wire.WriteMessageN(conn, wire.NewMsgVersion(me, me, 7, 0), wire.ProtocolVersion, btcnet)
				return Obs{OK, 1, b2i(err == nil && isVersion)}
			case "ufill":
				// 1. the node verifies this peer (a headers message starting at a block it knows), so that it
				//    answers tx inventories with getdata requests;
				// 2. large inventories (50000 ids -> 1.8 MB getdata each) until sendOutgoing is stuck in the
				//    socket write (this peer never reads): a few messages instead of hundreds of thousands;
				// 3. small inventories until the 100-slot queue is full and monitorIncoming waits inside Add.
				// All writes come from one goroutine WITHOUT a deadline: a write that blocks stays blocked or
				// resumes; it is never cut off in the middle of a message.  It ends when the connection closes.
				tFill := time.Now()
				var tBig time.Duration
				cn := conn
				msgs := make(chan wire.Message, 1000)
				go func() {
					for m := range msgs {
						if _, err := wire.WriteMessageN(cn, m, wire.ProtocolVersion, btcnet); err != nil {
							return
						}
					}
				}()
				defer close(msgs)
				hdrs := wire.NewMsgHeaders()
				g, _ := bu.Known(0)
				hdrs.AddBlockHeader(g)
				msgs <- hdrs
				if !waitFor(func() bool { return un.IsReady() }, 5*time.Second) {
					return Obs{OK, 0}
				}
				mkInv := func(n int) *wire.MsgInv {
					inv := wire.NewMsgInvSizeHint(uint(n))
					for i := 0; i < n; i++ {
						invSeq++
						h := pseudo("utx", invSeq)
						inv.AddInvVect(wire.NewInvVect(wire.InvTypeTx, &h))
					}
					return inv
				}
				stuck := func(d time.Duration) bool { // the queue is not empty and does not move for d
					n0, _ := un.VerifOutgoingFill()
					if n0 == 0 {
						return false
					}
					t0 := time.Now()
					for time.Since(t0) < d {
						time.Sleep(10 * time.Millisecond)
						if n, _ := un.VerifOutgoingFill(); n != n0 {
							return false
						}
					}
					return true
				}
				big, rounds := 0, 0
				full := false
				for ; rounds < 12 && !full; rounds++ {
					// the sender must be stuck in the write (not just slow): large inventories until the queue
					// stops moving
					for k := 0; k < 30; k++ {
						msgs <- mkInv(50000)
						big++
						waitFor(func() bool { n, _ := un.VerifOutgoingFill(); return n > 0 }, 250*time.Millisecond)
						if stuck(250 * time.Millisecond) {
							break
						}
					}
					for i := 0; i < 160 && !full; i++ {
						msgs <- mkInv(1)
						if i >= 90 {
							n, cp := un.VerifOutgoingFill()
							if n == cp && cp > 0 {
								time.Sleep(150 * time.Millisecond)
								n, cp = un.VerifOutgoingFill()
								full = n == cp
							} else {
								time.Sleep(5 * time.Millisecond)
							}
						}
					}
					if !full {
						// the queue may still fill once monitorIncoming has worked through what was sent
						full = waitFor(func() bool { n, cp := un.VerifOutgoingFill(); return n == cp && cp > 0 }, 500*time.Millisecond) &&
							stuck(150*time.Millisecond)
						if n, cp := un.VerifOutgoingFill(); full && n != cp {
							full = false
						}
					}
				}
				tBig = 0
				extra["rounds"] = rounds
				if !full {
					n, cp := un.VerifOutgoingFill()
					in, pr := un.VerifCounts()
					extra["diag"] = []int64{int64(n), int64(cp), in, pr, b2i(un.IsActive()), b2i(un.IsReady())}
				}
				extra["big_invs"] = big
				extra["fill_ms"] = time.Since(tFill).Milliseconds()
				extra["big_ms"] = tBig.Milliseconds()
				return Obs{OK, b2i(full)}
			case "ureset":
				if tc, ok := conn.(*net.TCPConn); ok {
					tc.SetLinger(0)
				}
				conn.Close()
				time.Sleep(100 * time.Millisecond)
				return Obs{OK}
			case "ustop":
				un.Stop(ctx)
				ret := false
				select {
				case <-runDone:
					ret = true
				case <-time.After(time.Duration(op.Int(0)) * time.Millisecond):
				}
				return Obs{OK, b2i(ret)}
			case "ucounts":
				// the counters are incremented inside the goroutines: report them once they have been
				// unchanged for 150 ms (a goroutine that has not run yet is not a different outcome)
				in, pr := un.VerifCounts()
				stable := time.Now()
				deadline := time.Now().Add(2 * time.Second)
				for time.Now().Before(deadline) && time.Since(stable) < 150*time.Millisecond {
					time.Sleep(5 * time.Millisecond)
					i2, p2 := un.VerifCounts()
					if i2 != in || p2 != pr {
						in, pr, stable = i2, p2, time.Now()
					}
				}
				return Obs{OK, in, pr}
			case "udrain":
				n := drainUntrusted(un, 600*time.Millisecond)
				return Obs{OK, b2i(n > 0)}
			}
			panic(harnessErr("unknown op " + op.Name))
		})
		out = append(out, o)
	}
	if un != nil {
		un.Stop(ctx)
		select {
		case <-runDone:
		case <-time.After(time.Second):
			drainUntrusted(un, time.Second)
			select {
			case <-runDone:
			case <-time.After(2 * time.Second):
			}
		}
	}
	if conn != nil {
		conn.Close()
	}
	return out, extra
}

func drainUntrusted(un *spynode.UntrustedNode, d time.Duration) int { return un.VerifDrainOutgoingFor(d) }
