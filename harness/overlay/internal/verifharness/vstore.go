//go:build verif

package main

import (
	"time"
	"context"
	"errors"
	"sort"
	"strings"
	"sync"

	"github.com/tokenized/pkg/storage"
)

// VStore is a copying, recording, fault-injecting in-memory storage.Storage.
// Unlike storage.MockStorage it never aliases the caller's slices, it records every mutation in
// program order, it can fail the j-th operation, and it can behave like either back end when a
// missing key is removed (MockStorage/S3: ErrNotFound; filesystem os.RemoveAll: success).
type VStore struct {
	mu           sync.Mutex
	data         map[string][]byte
	RmMissingErr bool
	Log          []Mutation // mutations in program order
	MutOps       []int      // operation count at each mutation (attempted writes / removes, also failed ones)
	ops          int        // count of all operations (read, write, remove)
	FailAt       int        // 1-based index of the operation that returns ErrInjected; 0 = never
	FailAtMut    int        // 1-based index among the MUTATING operations (write / remove) that fails; 0 = never
	muts         int
	Failed       bool

	// one-shot pause point: the next Write whose key contains pauseKey signals `paused` and waits for `resume`
	// (realises a chosen interleaving of a read-modify-write with another goroutine's step)
	pauseKey string
	pauseReadKey string
	paused   chan struct{}
	resume   chan struct{}
}

// ArmPauseRead: like ArmPause, for the next Read whose key contains keyPart (the reader is held AFTER it got the
// data, i.e. between its read and whatever it does next).
func (s *VStore) ArmPauseRead(keyPart string) (chan struct{}, chan struct{}) {
	s.mu.Lock()
	defer s.mu.Unlock()
	s.pauseReadKey = keyPart
	s.paused = make(chan struct{})
	s.resume = make(chan struct{})
	return s.paused, s.resume
}

// ArmPause arms the one-shot pause point and returns (paused, resume).
func (s *VStore) ArmPause(keyPart string) (chan struct{}, chan struct{}) {
	s.mu.Lock()
	defer s.mu.Unlock()
	s.pauseKey = keyPart
	s.paused = make(chan struct{})
	s.resume = make(chan struct{})
	return s.paused, s.resume
}

func (s *VStore) DisarmPause() {
	s.mu.Lock()
	s.pauseReadKey = ""
	s.pauseKey = ""
	s.mu.Unlock()
}

type Mutation struct {
	Kind string // "w" or "r"
	Key  string
	Data []byte
}

var ErrInjected = errors.New("injected storage fault")

func NewVStore(rmMissingErr bool) *VStore {
	return &VStore{data: make(map[string][]byte), RmMissingErr: rmMissingErr}
}

// mutTick counts a write / remove (call with the lock held, before tick)
func (s *VStore) mutTick() error {
	s.muts++
	if s.FailAtMut != 0 && s.muts == s.FailAtMut {
		s.Failed = true
		s.ops++
		return ErrInjected
	}
	return nil
}

// MutCount: number of mutating operations so far
func (s *VStore) MutCount() int {
	s.mu.Lock()
	defer s.mu.Unlock()
	return s.muts
}

func (s *VStore) tick() error {
	s.ops++
	if s.FailAt != 0 && s.ops == s.FailAt {
		s.Failed = true
		return ErrInjected
	}
	return nil
}

func (s *VStore) OpCount() int {
	s.mu.Lock()
	defer s.mu.Unlock()
	return s.ops
}

func (s *VStore) Write(ctx context.Context, key string, body []byte, options *storage.Options) error {
	s.mu.Lock()
	if s.pauseKey != "" && strings.Contains(key, s.pauseKey) {
		paused, resume := s.paused, s.resume
		s.pauseKey = ""
		s.mu.Unlock()
		close(paused)
		<-resume
		s.mu.Lock()
	}
	defer s.mu.Unlock()
	s.MutOps = append(s.MutOps, s.ops+1)
	if err := s.mutTick(); err != nil {
		return err
	}
	if err := s.tick(); err != nil {
		return err
	}
	c := make([]byte, len(body))
	copy(c, body)
	s.data[key] = c
	s.Log = append(s.Log, Mutation{"w", key, c})
	return nil
}

func (s *VStore) Read(ctx context.Context, key string) ([]byte, error) {
	s.mu.Lock()
	defer s.mu.Unlock()
	if err := s.tick(); err != nil {
		return nil, err
	}
	b, ok := s.data[key]
	if !ok {
		return nil, storage.ErrNotFound
	}
	c := make([]byte, len(b))
	copy(c, b)
	if s.pauseReadKey != "" && strings.Contains(key, s.pauseReadKey) {
		paused, resume := s.paused, s.resume
		s.pauseReadKey = ""
		s.mu.Unlock()
		close(paused)
		select {
		case <-resume:
		case <-time.After(5 * time.Second):
		}
		s.mu.Lock()
	}
	return c, nil
}

func (s *VStore) Remove(ctx context.Context, key string) error {
	s.mu.Lock()
	defer s.mu.Unlock()
	s.MutOps = append(s.MutOps, s.ops+1)
	if err := s.mutTick(); err != nil {
		return err
	}
	if err := s.tick(); err != nil {
		return err
	}
	if _, ok := s.data[key]; !ok {
		if s.RmMissingErr {
			return storage.ErrNotFound
		}
		return nil
	}
	delete(s.data, key)
	s.Log = append(s.Log, Mutation{"r", key, nil})
	return nil
}

func (s *VStore) Copy(ctx context.Context, fromKey, toKey string) error {
	s.mu.Lock()
	defer s.mu.Unlock()
	b, ok := s.data[fromKey]
	if !ok {
		return storage.ErrNotFound
	}
	c := make([]byte, len(b))
	copy(c, b)
	s.data[toKey] = c
	s.Log = append(s.Log, Mutation{"w", toKey, c})
	return nil
}

func (s *VStore) Search(ctx context.Context, query map[string]string) ([][]byte, error) {
	s.mu.Lock()
	defer s.mu.Unlock()
	path := query["path"]
	var keys []string
	for k := range s.data {
		if strings.HasPrefix(k, path) {
			keys = append(keys, k)
		}
	}
	sort.Strings(keys)
	var result [][]byte
	for _, k := range keys {
		c := make([]byte, len(s.data[k]))
		copy(c, s.data[k])
		result = append(result, c)
	}
	return result, nil
}

func (s *VStore) Clear(ctx context.Context, query map[string]string) error {
	s.mu.Lock()
	defer s.mu.Unlock()
	path := query["path"]
	for k := range s.data {
		if strings.HasPrefix(k, path) {
			delete(s.data, k)
			s.Log = append(s.Log, Mutation{"r", k, nil})
		}
	}
	return nil
}

func (s *VStore) List(ctx context.Context, path string) ([]string, error) {
	s.mu.Lock()
	defer s.mu.Unlock()
	var keys []string
	for k := range s.data {
		if strings.HasPrefix(k, path) {
			keys = append(keys, k)
		}
	}
	sort.Strings(keys)
	return keys, nil
}

// Keys returns the sorted keys currently present.
func (s *VStore) Keys() []string {
	s.mu.Lock()
	defer s.mu.Unlock()
	var keys []string
	for k := range s.data {
		keys = append(keys, k)
	}
	sort.Strings(keys)
	return keys
}

func (s *VStore) Get(key string) ([]byte, bool) {
	s.mu.Lock()
	defer s.mu.Unlock()
	b, ok := s.data[key]
	return b, ok
}

// Image returns a new store holding the state after the first n logged mutations were applied to
// an empty store.
func ImageOf(log []Mutation, n int, rmMissingErr bool) *VStore {
	r := NewVStore(rmMissingErr)
	for i := 0; i < n && i < len(log); i++ {
		m := log[i]
		if m.Kind == "w" {
			r.data[m.Key] = m.Data
		} else {
			delete(r.data, m.Key)
		}
	}
	return r
}

// Clone returns a deep copy of the data (log and counters reset).
func (s *VStore) Clone() *VStore {
	s.mu.Lock()
	defer s.mu.Unlock()
	r := NewVStore(s.RmMissingErr)
	for k, v := range s.data {
		c := make([]byte, len(v))
		copy(c, v)
		r.data[k] = c
	}
	return r
}
