//go:build verif

package client

// In-package accessors for the verification harness (overlaid at build time, never part of the
// repository).  They only expose unexported state and call the real functions.

import (
	"context"
	"net"
	"time"

	"github.com/tokenized/pkg/bitcoin"
)

// VerifInit creates the channels Run would create, with a chosen handler channel capacity.
func (c *RemoteClient) VerifInit(handlerCap int) {
	c.sendChannel = make(chan *sendMessageRequest, 100)
	c.handlerChannel = make(chan *Message, handlerCap)
}

func (c *RemoteClient) VerifSetRequestTimeout(d time.Duration) { c.requestTimeout.Store(d) }
func (c *RemoteClient) VerifSetMessageTimeout(d time.Duration) { c.messageTimeout.Store(d) }

// VerifResetConnection performs the state reset at the top of runConnection for a new connection.
func (c *RemoteClient) VerifResetConnection(conn net.Conn) chan interface{} {
	c.isReconnecting.Store(false)
	c.isConnected.Store(true)
	c.accepted.Store(false)
	c.handshakeComplete.Store(false)
	handshakeCompleteChannel := make(chan interface{}, 5)
	c.handshakeCompleteChannel.Store(handshakeCompleteChannel)
	c.conn.Store(conn)
	return handshakeCompleteChannel
}

// VerifGenerateSession runs the real generateSession; returns the fresh session hash.
func (c *RemoteClient) VerifGenerateSession() (bitcoin.Hash32, error) {
	h, err := c.generateSession(c.config.Load().(Config))
	if err != nil {
		return bitcoin.Hash32{}, err
	}
	return *h, nil
}

func (c *RemoteClient) VerifHandleMessage(ctx context.Context, m *Message) error {
	return c.handleMessage(ctx, m)
}

func (c *RemoteClient) VerifFlags() (accepted, handshakeComplete bool) {
	return c.accepted.Load().(bool), c.handshakeComplete.Load().(bool)
}

func (c *RemoteClient) VerifHandlerQueueLen() int { return len(c.handlerChannel) }

// VerifDequeue is one iteration of runHandler when a message is available.
func (c *RemoteClient) VerifDequeue(ctx context.Context) bool {
	select {
	case msg := <-c.handlerChannel:
		c.processHandler(ctx, msg)
		return true
	default:
		return false
	}
}

func (c *RemoteClient) VerifRunRequests(ctx context.Context, interrupt <-chan interface{}) error {
	return c.runRequests(ctx, interrupt)
}

func (c *RemoteClient) VerifRunHandler(ctx context.Context, interrupt <-chan interface{}) error {
	return c.runHandler(ctx, c.handlerChannel, interrupt)
}

// VerifBarrier returns once the requests goroutine has served everything queued before the call.
// It first waits for the add / remove queues to drain (select serves ready channels in any order).
func (c *RemoteClient) VerifBarrier() {
	for i := 0; i < 3; i++ {
		for len(c.addRequestsChannel) > 0 || len(c.removeRequestsChannel) > 0 || len(c.requestResponseChannel) > 0 {
			time.Sleep(50 * time.Microsecond)
		}
		ch := make(chan error, 1)
		c.requestResponseChannel <- &requestResponse{message: &Message{Payload: &Pong{}}, response: ch}
		<-ch
	}
}

// VerifRegisteredCount: requests registered or queued for registration (no synchronisation with the requests
// goroutine: a snapshot that is exact when that goroutine is idle, as it is when a caller is about to send).
func (c *RemoteClient) VerifRegisteredCount() int {
	return len(c.requests) + len(c.addRequestsChannel)
}

// VerifPending is a registered request as the public calls create it.
type VerifPending struct {
	req *request
	Ch  chan *Message
}

func (c *RemoteClient) VerifAddPending(typ uint64, hash bitcoin.Hash32, height int) (*VerifPending, error) {
	ch := make(chan *Message, 1)
	r := &request{typ: typ, hash: hash, height: height, response: ch}
	if err := c.addRequest(r, 5*time.Second); err != nil { // harness-initiated: not the time-out under test
		return nil, err
	}
	return &VerifPending{req: r, Ch: ch}, nil
}

func (c *RemoteClient) VerifRemovePending(p *VerifPending) error {
	return c.removeRequest(p.req, 5*time.Second) // harness-initiated: not the time-out under test
}

// VerifIsPending: call after VerifBarrier (the requests goroutine is then idle).
func (c *RemoteClient) VerifIsPending(p *VerifPending) bool {
	for _, r := range c.requests {
		if r == p.req {
			return true
		}
	}
	return false
}

// VerifPendingKeys lists (typ, hash, height) of the pending requests in list order.
func (c *RemoteClient) VerifPendingKeys() []VerifKey {
	res := make([]VerifKey, 0, len(c.requests))
	for _, r := range c.requests {
		res = append(res, VerifKey{Typ: r.typ, Hash: r.hash, Height: r.height, Ptr: r})
	}
	return res
}

type VerifKey struct {
	Typ    uint64
	Hash   bitcoin.Hash32
	Height int
	Ptr    interface{}
}

// VerifRouteDirect calls handleRequestResponse on the calling goroutine (requests goroutine not running).
func (c *RemoteClient) VerifRouteDirect(ctx context.Context, m *Message) error {
	return c.handleRequestResponse(ctx, m)
}

// VerifPrefill queues a registration and a response without any goroutine serving them, to expose
// the order in which runRequests' select serves them.
func (c *RemoteClient) VerifPrefill(typ uint64, hash bitcoin.Hash32, height int, m *Message) (chan *Message, chan error) {
	ch := make(chan *Message, 1)
	c.addRequestsChannel <- &request{typ: typ, hash: hash, height: height, response: ch}
	ech := make(chan error, 1)
	c.requestResponseChannel <- &requestResponse{message: m, response: ech}
	return ch, ech
}

// VerifSendLoop stands in for sendMessages on an established, handshake-complete connection: it
// takes queued messages, reports them, and acknowledges them as written.
func (c *RemoteClient) VerifSendLoop(interrupt <-chan interface{}, sent chan<- *Message) {
	c.VerifSendLoopChecked(interrupt, sent, nil)
}

// VerifSendLoopChecked: check is called with each message at the moment it is "on the wire", before the
// sender is told that the write is done (so the harness can look at the client before the caller resumes).
func (c *RemoteClient) VerifSendLoopChecked(interrupt <-chan interface{}, sent chan<- *Message, check func(*Message)) {
	for {
		select {
		case <-interrupt:
			return
		case r := <-c.sendChannel:
			if check != nil {
				check(r.msg)
			}
			sent <- r.msg
			if r.response != nil {
				r.response <- nil
			}
		}
	}
}

// VerifSendMessages runs the real sendMessages.
func VerifSendMessages(ctx context.Context, conn net.Conn, handshakeComplete, interrupt <-chan interface{},
	c *RemoteClient, timeout time.Duration, carried *VerifCarried) (*VerifCarried, error) {
	var first *sendMessageRequest
	if carried != nil {
		first = carried.r
	}
	r, err := sendMessages(ctx, conn, handshakeComplete, interrupt, c.sendChannel, timeout, first)
	if r == nil {
		return nil, err
	}
	return &VerifCarried{r: r}, err
}

type VerifCarried struct{ r *sendMessageRequest }

func (v *VerifCarried) Type() uint64 { return v.r.msg.Payload.Type() }

// VerifSendMessage runs the real sendMessage.
func (c *RemoteClient) VerifSendMessage(ctx context.Context, msg *Message, timeout time.Duration) error {
	return c.sendMessage(ctx, msg, timeout)
}

// VerifRunConnection runs the real runConnection on conn.
func (c *RemoteClient) VerifRunConnection(ctx context.Context, conn net.Conn, receive chan *Message,
	carried *VerifCarried, interrupt <-chan interface{}) (*VerifCarried, error) {
	var first *sendMessageRequest
	if carried != nil {
		first = carried.r
	}
	c.conn.Store(conn)
	r, err := c.runConnection(ctx, conn, c.sendChannel, receive, first, interrupt)
	if r == nil {
		return nil, err
	}
	return &VerifCarried{r: r}, err
}

func (c *RemoteClient) VerifHandleMessages(ctx context.Context, receive chan *Message, interrupt <-chan interface{}) error {
	return c.handleMessages(ctx, receive, interrupt)
}

func (c *RemoteClient) VerifSessionKeys() (bitcoin.Hash32, bitcoin.PublicKey) {
	c.sessionLock.Lock()
	defer c.sessionLock.Unlock()
	return c.hash, c.serverSessionKey
}

func VerifIsTimeout(err error) bool { return err != nil && (errorsCause(err) == ErrTimeout) }

func errorsCause(err error) error {
	type causer interface{ Cause() error }
	for err != nil {
		c, ok := err.(causer)
		if !ok {
			break
		}
		if c.Cause() == nil {
			break
		}
		err = c.Cause()
	}
	return err
}

func (p *VerifPending) IsReq(ptr interface{}) bool {
	r, ok := ptr.(*request)
	return ok && r == p.req
}

func (v *VerifCarried) Message() *Message { return v.r.msg }

// VerifPing runs the real keep-alive goroutine (a ping every two minutes through the real send path).
func (c *RemoteClient) VerifPing(ctx context.Context, interrupt <-chan interface{}) error {
	return c.ping(ctx, interrupt)
}
