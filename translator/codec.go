package main

// codec.go: reads the Serialize / Deserialize / SigHash functions of pkg/client/messages.go (types
// from pkg/client/models.go) and emits, for every type, a WRITER format term (w_T, read off
// Serialize) and a READER format term (r_T, read off Deserialize, with the reader-only annotations:
// how slices are allocated, truncating casts) of the codec DSL coq/model/CodecDSL.v:
//
//	coq/gen/CodecGen.v    Definitions + all_types : list (string * fmt * fmt)
//	coq/gen/TypeTables.v  type codes, PayloadForType, Type(), names, handshake/request/response tables
//	work/schemas.json     the same formats (inlined) for the Python value generator
//
// Purely syntactic (go/parser + go/ast).  A statement that is not one of the recognised patterns
// becomes FUnsupported "<file:line>", on which every side condition of the meta-theorems is false.
//
// Formats of the pinned dependency tokenized/pkg (wire.MsgTx, wire.TxOut, wire.OutPoint, hashes,
// block header) are written by hand below (depFormats) and validated by the same correspondence run.

import (
	"crypto/sha256"
	"encoding/json"
	"flag"
	"fmt"
	"go/ast"
	"go/parser"
	"go/token"
	"os"
	"path/filepath"
	"sort"
	"strconv"
	"strings"
)

func init() {
	extraGens = append(extraGens, struct {
		file string
		gen  func(repo string) (string, error)
	}{"CodecGen.v", genCodec})
	extraGens = append(extraGens, struct {
		file string
		gen  func(repo string) (string, error)
	}{"TypeTables.v", genTypeTables})
}

// ------------------------------------------------------------------------------------------------
// format terms

type F struct {
	K      string   // uint sint bool varint bytes varbytes list listof opt struct opaque unsupported ref
	W      int      // uint/sint: bytes
	Bits   int      // varint
	N      int      // bytes
	Shape  string   // varbytes: pre | grow ; list/listof: pre | app
	Esz    int      // list: element size
	Cap    int64    // list app: capacity cap
	Lim    string   // limit (decimal) or ""
	Chk    string   // varbytes: dependency parser name
	Elem   *F       // list/listof/opt
	Path   []string // listof
	Fields []Field  // struct
	Name   string   // opaque name / unsupported location / ref: Coq expression
	Ref    *F       // ref: the format referred to (for inlining into JSON)
}

type Field struct {
	Name string
	F    *F
}

func fUint(w int) *F  { return &F{K: "uint", W: w} }
func fSint(w int) *F  { return &F{K: "sint", W: w} }
func fBytes(n int) *F { return &F{K: "bytes", N: n} }
func fUnsup(loc string) *F {
	return &F{K: "unsupported", Name: loc}
}
func fStruct(fs ...Field) *F { return &F{K: "struct", Fields: fs} }

const maxMessagePayload = "281474976710655" // wire.MaxMessagePayload = 0x0000ffffffffffff
const maxTxInPerMessage = "6865243334407"   // MaxMessagePayload/41 + 1 (wire/msgtx.go:69)
const maxTxOutPerMessage = "31274997412296" // MaxMessagePayload/9 + 1  (wire/msgtx.go:77)

// hand-written formats of tokenized/pkg@v0.7.1-0.20231212142053-bd11e6d2b18f
func depFormats(ideal bool) (outPoint, txIn, txOut, msgTx *F) {
	script := &F{K: "varbytes", Shape: "pre", Lim: maxMessagePayload} // wire/msgtx.go:929 readScript
	inList := &F{K: "list", Shape: "pre", Esz: 80, Lim: maxTxInPerMessage}
	outList := &F{K: "list", Shape: "pre", Esz: 40, Lim: maxTxOutPerMessage}
	if ideal {
		script = &F{K: "varbytes", Shape: "grow"}
		inList = &F{K: "list", Shape: "app", Esz: 80, Cap: 15}
		outList = &F{K: "list", Shape: "app", Esz: 40, Cap: 15}
	}
	outPoint = fStruct(Field{"Hash", fBytes(32)}, Field{"Index", fUint(4)}) // wire/msgtx.go:226-241
	txIn = fStruct(Field{"PreviousOutPoint", outPoint}, Field{"UnlockingScript", script}, Field{"Sequence", fUint(4)})
	txOut = fStruct(Field{"Value", fUint(8)}, Field{"LockingScript", script})
	inList.Elem = txIn
	outList.Elem = txOut
	// wire/msgtx.go:524 BtcDecode
	msgTx = fStruct(Field{"Version", fSint(4)}, Field{"TxIn", inList}, Field{"TxOut", outList}, Field{"LockTime", fUint(4)})
	return
}

// ------------------------------------------------------------------------------------------------
// emit Coq

func coqStr(s string) string { return "\"" + strings.ReplaceAll(s, "\"", "\"\"") + "\"" }

func optZ(s string) string {
	if s == "" {
		return "None"
	}
	return "(Some " + s + ")"
}

func (f *F) coq() string {
	switch f.K {
	case "uint":
		return fmt.Sprintf("(FUInt %d)", f.W)
	case "sint":
		return fmt.Sprintf("(FSInt %d)", f.W)
	case "bool":
		return "FBool"
	case "varint":
		return fmt.Sprintf("(FVarInt %d)", f.Bits)
	case "bytes":
		return fmt.Sprintf("(FBytes %d)", f.N)
	case "varbytes":
		sh := "BGrow"
		if f.Shape == "pre" {
			sh = "(BPre " + optZ(f.Lim) + ")"
		}
		chk := "None"
		if f.Chk != "" {
			chk = "(Some " + coqStr(f.Chk) + ")"
		}
		return fmt.Sprintf("(FVarBytes %s %s)", sh, chk)
	case "list":
		return fmt.Sprintf("(FList %s %s)", f.shapeCoq(), f.Elem.coq())
	case "listof":
		var ps []string
		for _, p := range f.Path {
			ps = append(ps, coqStr(p))
		}
		return fmt.Sprintf("(FListOf [%s] %s %s)", strings.Join(ps, "; "), f.shapeCoq(), f.Elem.coq())
	case "opt":
		return fmt.Sprintf("(FOpt %s)", f.Elem.coq())
	case "struct":
		s := "FNil"
		for i := len(f.Fields) - 1; i >= 0; i-- {
			s = fmt.Sprintf("(FField %s %s\n    %s)", coqStr(f.Fields[i].Name), f.Fields[i].F.coq(), s)
		}
		return "(FStruct " + s + ")"
	case "opaque":
		return "(FOpaque " + coqStr(f.Name) + ")"
	case "ref":
		return f.Name
	}
	return "(FUnsupported " + coqStr(f.Name) + ")"
}

func (f *F) shapeCoq() string {
	if f.Shape == "pre" {
		return fmt.Sprintf("(LPre %d %s)", f.Esz, optZ(f.Lim))
	}
	return fmt.Sprintf("(LApp %d %d)", f.Esz, f.Cap)
}

// JSON (inlined)
func (f *F) js() map[string]interface{} {
	m := map[string]interface{}{"k": f.K}
	switch f.K {
	case "uint", "sint":
		m["w"] = f.W
	case "varint":
		m["bits"] = f.Bits
	case "bytes":
		m["n"] = f.N
	case "varbytes":
		m["shape"] = f.Shape
		m["lim"] = f.Lim
		m["chk"] = f.Chk
	case "list", "listof":
		m["shape"] = f.Shape
		m["esz"] = f.Esz
		m["cap"] = f.Cap
		m["lim"] = f.Lim
		m["elem"] = f.Elem.js()
		if f.K == "listof" {
			m["path"] = f.Path
		}
	case "opt":
		m["elem"] = f.Elem.js()
	case "struct":
		var fs []interface{}
		for _, fl := range f.Fields {
			fs = append(fs, []interface{}{fl.Name, fl.F.js()})
		}
		if fs == nil {
			fs = []interface{}{}
		}
		m["fields"] = fs
	case "opaque", "unsupported":
		m["name"] = f.Name
	case "ref":
		if f.Ref != nil {
			m := f.Ref.js()
			if strings.HasPrefix(f.Name, "(d_") {
				m["dep"] = "wire." + strings.TrimSuffix(strings.TrimPrefix(f.Name, "(d_"), " D)")
			}
			if strings.HasPrefix(f.Name, "r_") || strings.HasPrefix(f.Name, "w_") {
				m["tname"] = f.Name[2:]
			}
			return m
		}
		return map[string]interface{}{"k": "unsupported", "name": "unresolved " + f.Name}
	}
	return m
}

// ------------------------------------------------------------------------------------------------
// Go type information (syntactic)

type tctx struct {
	fset    *token.FileSet
	file    string
	structs map[string][]*ast.Field // struct name -> fields (models.go)
	named   map[string]string       // named basic types of package client (ConnectionType -> uint8)
	consts  map[string]int64
	// per-type results, filled in dependency order on demand
	readers map[string]*F
	writers map[string]*F
	funcs   map[string]*ast.FuncDecl // "T.Deserialize", "T.Serialize", "DeserializeFeeQuote", ...
	busy    map[string]bool
	ideal   bool
}

func typeString(e ast.Expr) string {
	switch x := e.(type) {
	case *ast.Ident:
		return x.Name
	case *ast.SelectorExpr:
		return typeString(x.X) + "." + x.Sel.Name
	case *ast.StarExpr:
		return "*" + typeString(x.X)
	case *ast.ArrayType:
		if x.Len == nil {
			return "[]" + typeString(x.Elt)
		}
		return "[N]" + typeString(x.Elt)
	}
	return "?"
}

var basicWidth = map[string]int{"uint8": 1, "byte": 1, "uint16": 2, "uint32": 4, "uint64": 8, "int32": 4, "int64": 8}

// resolves a named type of package client or a known dependency type to a basic type name
func (c *tctx) basicOf(t string) string {
	t = strings.TrimPrefix(t, "*")
	if _, ok := basicWidth[t]; ok {
		return t
	}
	if t == "bool" {
		return t
	}
	if b, ok := c.named[t]; ok {
		return b
	}
	if t == "merchant_api.FeeType" {
		return "uint8" // tokenized/pkg merchant_api/merchant_api.go:90
	}
	return ""
}

// size of one element of make([]T, n)
func elemSize(t string) int {
	if strings.HasPrefix(t, "*") || t == "merchant_api.FeeQuotes" {
		return 8
	}
	switch t {
	case "bitcoin.Hash32":
		return 32
	case "bitcoin.Hash20":
		return 20
	case "byte", "uint8":
		return 1
	case "[]byte":
		return 24
	}
	if w, ok := basicWidth[t]; ok {
		return w
	}
	return 8
}

// format of a value of Go type t as written/read by its own Serialize/Deserialize (or binary.Read/Write)
func (c *tctx) typeFmt(t string, reader bool, loc string) *F {
	t = strings.TrimPrefix(t, "*")
	if b := c.basicOf(t); b != "" {
		switch b {
		case "bool":
			return &F{K: "bool"}
		case "int32", "int64":
			return fSint(basicWidth[b])
		default:
			return fUint(basicWidth[b])
		}
	}
	outPoint, _, txOut, msgTx := depFormats(c.ideal)
	switch t {
	case "bitcoin.Hash32":
		return fBytes(32)
	case "bitcoin.Hash20":
		return fBytes(20)
	case "wire.BlockHeader":
		return fBytes(80) // wire/blockheader.go: 4+32+32+4+4+4, treated as an opaque block
	case "wire.OutPoint":
		return &F{K: "ref", Name: "f_OutPoint", Ref: outPoint}
	case "wire.MsgTx":
		return &F{K: "ref", Name: "(d_MsgTx D)", Ref: msgTx}
	case "wire.TxOut":
		return &F{K: "ref", Name: "(d_TxOut D)", Ref: txOut}
	case "bitcoin.PublicKey":
		return &F{K: "opaque", Name: "PublicKey"}
	case "bitcoin.Signature":
		return &F{K: "opaque", Name: "Signature"}
	case "merkle_proof.MerkleProof":
		return &F{K: "opaque", Name: "merkle_proof.MerkleProof"}
	case "merchant_api.FeeQuote":
		return c.refTo("FeeQuote", reader)
	case "merchant_api.Fee":
		return c.refTo("Fee", reader)
	}
	if _, ok := c.structs[t]; ok {
		return c.refTo(t, reader)
	}
	return fUnsup(loc + " type " + t)
}

func (c *tctx) refTo(name string, reader bool) *F {
	var target *F
	pre := "w_"
	if reader {
		pre = "r_"
		target = c.reader(name)
	} else {
		target = c.writer(name)
	}
	return &F{K: "ref", Name: pre + name, Ref: target}
}

func (c *tctx) fieldType(structName, field string) string {
	for _, f := range c.structs[structName] {
		for _, n := range f.Names {
			if n.Name == field {
				return typeString(f.Type)
			}
		}
	}
	return ""
}

func (c *tctx) loc(n ast.Node) string {
	p := c.fset.Position(n.Pos())
	return fmt.Sprintf("%s:%d", c.file, p.Line)
}

// ------------------------------------------------------------------------------------------------
// expression helpers

func isCall(e ast.Expr, pkg, name string) (*ast.CallExpr, bool) {
	ce, ok := e.(*ast.CallExpr)
	if !ok {
		return nil, false
	}
	if pkg == "" {
		if id, ok := ce.Fun.(*ast.Ident); ok && id.Name == name {
			return ce, true
		}
		return nil, false
	}
	if se, ok := ce.Fun.(*ast.SelectorExpr); ok && se.Sel.Name == name {
		if id, ok := se.X.(*ast.Ident); ok && id.Name == pkg {
			return ce, true
		}
	}
	return nil, false
}

// "m.A.B" -> ["m","A","B"]; "x" -> ["x"]; "m.X[i]" -> ["m","X","[]"]; &e, *e -> e
func pathOf(e ast.Expr) []string {
	switch x := e.(type) {
	case *ast.Ident:
		return []string{x.Name}
	case *ast.SelectorExpr:
		p := pathOf(x.X)
		if p == nil {
			return nil
		}
		return append(p, x.Sel.Name)
	case *ast.IndexExpr:
		p := pathOf(x.X)
		if p == nil {
			return nil
		}
		return append(p, "[]")
	case *ast.UnaryExpr:
		if x.Op == token.AND {
			return pathOf(x.X)
		}
	case *ast.StarExpr:
		return pathOf(x.X)
	case *ast.ParenExpr:
		return pathOf(x.X)
	case *ast.SliceExpr:
		return pathOf(x.X)
	}
	return nil
}

// the single statement `if err := <call>; err != nil { return ... }` or `if _, err := <call>; ...`
func errCheckedCall(s ast.Stmt) (ast.Expr, bool) {
	is, ok := s.(*ast.IfStmt)
	if !ok || is.Init == nil || is.Else != nil {
		return nil, false
	}
	as, ok := is.Init.(*ast.AssignStmt)
	if !ok || len(as.Rhs) != 1 {
		return nil, false
	}
	last, ok := as.Lhs[len(as.Lhs)-1].(*ast.Ident)
	if !ok || last.Name != "err" {
		return nil, false
	}
	for _, l := range as.Lhs[:len(as.Lhs)-1] {
		if id, ok := l.(*ast.Ident); !ok || id.Name != "_" {
			return nil, false
		}
	}
	if !isErrNotNil(is.Cond) || !returnsOnly(is.Body) {
		return nil, false
	}
	return as.Rhs[0], true
}

func isErrNotNil(e ast.Expr) bool {
	be, ok := e.(*ast.BinaryExpr)
	if !ok || be.Op != token.NEQ {
		return false
	}
	a, ok1 := be.X.(*ast.Ident)
	b, ok2 := be.Y.(*ast.Ident)
	return ok1 && ok2 && a.Name == "err" && b.Name == "nil"
}

func returnsOnly(b *ast.BlockStmt) bool {
	if len(b.List) != 1 {
		return false
	}
	_, ok := b.List[0].(*ast.ReturnStmt)
	return ok
}

// `if err != nil { return ... }`
func isErrCheck(s ast.Stmt) bool {
	is, ok := s.(*ast.IfStmt)
	return ok && is.Init == nil && is.Else == nil && isErrNotNil(is.Cond) && returnsOnly(is.Body)
}

// ------------------------------------------------------------------------------------------------
// READER: symbolic walk over a Deserialize body

type slot struct {
	f     *F
	name  string // struct field name once known
	local string
	bits  int // pending cast on a varint
}

type rstate struct {
	c      *tctx
	recv   string            // receiver / result variable ("m"), "" for function readers
	styp   string            // struct type name of the receiver
	rname  string            // reader variable name
	slots  []*slot
	locals map[string]*slot  // local variable -> slot that produced it
	ltypes map[string]string // local variable -> Go type
	bad    *F
}

func (s *rstate) add(f *F, name, local string) *slot {
	sl := &slot{f: f, name: name, local: local}
	s.slots = append(s.slots, sl)
	if local != "" {
		s.locals[local] = sl
	}
	return sl
}

func (s *rstate) unsupported(n ast.Node, why string) {
	s.add(fUnsup(s.c.loc(n)+" "+why), "", "")
}

// Go type of an lvalue path (["m","F"], ["m","F","[]"], ["local"])
func (s *rstate) typeOfPath(p []string) string {
	if len(p) == 0 {
		return ""
	}
	var t string
	if p[0] == s.recv && s.recv != "" {
		t = s.styp
	} else if lt, ok := s.ltypes[p[0]]; ok {
		t = lt
	} else {
		return ""
	}
	for _, e := range p[1:] {
		t = strings.TrimPrefix(t, "*")
		if e == "[]" {
			if t == "merchant_api.FeeQuotes" {
				t = "*merchant_api.FeeQuote"
			} else if strings.HasPrefix(t, "[]") {
				t = t[2:]
			} else {
				return ""
			}
			continue
		}
		switch t {
		case "wire.MsgTx":
			switch e {
			case "TxIn":
				t = "[]*wire.TxIn"
			case "TxOut":
				t = "[]*wire.TxOut"
			case "Version":
				t = "int32"
			default:
				return ""
			}
			continue
		}
		ft := s.c.fieldType(t, e)
		if ft == "" {
			return ""
		}
		t = ft
	}
	return t
}

// field name a path designates inside the receiver: m.F -> F ; m.F[i] -> F
func (s *rstate) fieldOf(p []string) string {
	if len(p) >= 2 && p[0] == s.recv && s.recv != "" {
		return p[1]
	}
	return ""
}

func (c *tctx) readBody(recv, styp, rname string, stmts []ast.Stmt, ltypes map[string]string) *rstate {
	s := &rstate{c: c, recv: recv, styp: styp, rname: rname, locals: map[string]*slot{}, ltypes: map[string]string{}}
	for k, v := range ltypes {
		s.ltypes[k] = v
	}
	s.walk(stmts)
	return s
}

func (s *rstate) walk(stmts []ast.Stmt) {
	for i := 0; i < len(stmts); i++ {
		st := stmts[i]
		// return nil / return x, nil at the very end
		if rs, ok := st.(*ast.ReturnStmt); ok {
			if i != len(stmts)-1 {
				s.unsupported(st, "early return")
				continue
			}
			s.finalReturn(rs)
			continue
		}
		// var x T ; var err error
		if ds, ok := st.(*ast.DeclStmt); ok {
			if gd, ok := ds.Decl.(*ast.GenDecl); ok && gd.Tok == token.VAR {
				for _, sp := range gd.Specs {
					vs := sp.(*ast.ValueSpec)
					for _, n := range vs.Names {
						if vs.Type != nil {
							s.ltypes[n.Name] = typeString(vs.Type)
						}
					}
				}
				continue
			}
		}
		// if err := <call>; err != nil { return }
		if call, ok := errCheckedCall(st); ok {
			s.readCall(st, call, "")
			continue
		}
		if as, ok := st.(*ast.AssignStmt); ok {
			// x, err := <call> followed by if err != nil { return }
			if len(as.Lhs) == 2 && len(as.Rhs) == 1 {
				if id, ok := as.Lhs[1].(*ast.Ident); ok && id.Name == "err" {
					if i+1 < len(stmts) && isErrCheck(stmts[i+1]) {
						i++
						p := pathOf(as.Lhs[0])
						if len(p) == 1 {
							s.readCall(st, as.Rhs[0], p[0])
						} else if fn := s.fieldOf(p); fn != "" && len(p) == 2 {
							s.readCall(st, as.Rhs[0], "")
							s.slots[len(s.slots)-1].name = fn
							s.finishVarint(s.slots[len(s.slots)-1], 64)
						} else {
							s.unsupported(st, "assignment target")
						}
						continue
					}
				}
			}
			if len(as.Lhs) == 1 && len(as.Rhs) == 1 {
				if s.assign(stmts, &i, as) {
					continue
				}
			}
			s.unsupported(st, "assignment")
			continue
		}
		if is, ok := st.(*ast.IfStmt); ok && is.Init == nil {
			if s.optional(stmts, &i, is) {
				continue
			}
		}
		if fs, ok := st.(*ast.ForStmt); ok {
			// append loop without make: for i := uint64(0); i < count; i++ { ... m.X = append(m.X, v) }
			if cnt := forCountVar(fs); cnt != "" {
				if sl, ok := s.locals[cnt]; ok && sl.f.K == "varint" && sl.name == "" {
					s.listBody(sl, fs.Body, "", "app", 0, 0, st)
					continue
				}
			}
		}
		s.unsupported(st, "statement")
	}
}

// for i := uint64(0); i < count; i++  -> "count"
func forCountVar(fs *ast.ForStmt) string {
	if fs.Cond == nil {
		return ""
	}
	be, ok := fs.Cond.(*ast.BinaryExpr)
	if !ok || be.Op != token.LSS {
		return ""
	}
	if id, ok := be.Y.(*ast.Ident); ok {
		return id.Name
	}
	return ""
}

func (s *rstate) finishVarint(sl *slot, bits int) {
	if sl.f.K == "varint" {
		sl.f.Bits = bits
	}
}

// a call that consumes input; result (if any) bound to local
func (s *rstate) readCall(st ast.Stmt, call ast.Expr, local string) {
	if ce, ok := isCall(call, "binary", "Read"); ok && len(ce.Args) == 3 {
		p := pathOf(ce.Args[2])
		t := s.typeOfPath(p)
		if s.c.basicOf(t) == "" {
			s.unsupported(st, "binary.Read of "+t)
			return
		}
		f := s.c.typeFmt(t, true, s.c.loc(st))
		if fn := s.fieldOf(p); fn != "" && len(p) == 2 {
			s.add(f, fn, "")
		} else if len(p) == 1 {
			s.add(f, "", p[0])
		} else {
			s.unsupported(st, "binary.Read target")
		}
		return
	}
	if _, ok := isCall(call, "wire", "ReadVarInt"); ok {
		s.add(&F{K: "varint", Bits: 64}, "", local)
		return
	}
	if ce, ok := isCall(call, "io", "ReadFull"); ok && len(ce.Args) == 2 {
		p := pathOf(ce.Args[1])
		if len(p) == 1 {
			if sl, ok := s.locals[p[0]]; ok && sl.f.K == "varbytes" {
				return // the block announced by make([]byte, size)
			}
		}
		s.unsupported(st, "io.ReadFull target")
		return
	}
	if ce, ok := isCall(call, "", "readBytes"); ok && len(ce.Args) == 2 && local != "" {
		// repaired pattern: b, err := readBytes(r, size)
		p := pathOf(ce.Args[1])
		if len(p) == 1 {
			if sl, ok := s.locals[p[0]]; ok && sl.f.K == "varint" && sl.name == "" && s.c.helperOK("readBytes") {
				sl.f = &F{K: "varbytes", Shape: "grow"}
				delete(s.locals, p[0])
				sl.local = local
				s.locals[local] = sl
				s.ltypes[local] = "[]byte"
				return
			}
		}
		s.unsupported(st, "readBytes")
		return
	}
	if ce, ok := isCall(call, "bsor", "UnmarshalBinary"); ok && len(ce.Args) == 2 {
		p := pathOf(ce.Args[0])
		tp := pathOf(ce.Args[1])
		if len(p) == 1 {
			if sl, ok := s.locals[p[0]]; ok && sl.f.K == "varbytes" {
				if fn := s.fieldOf(tp); fn != "" {
					t := strings.TrimPrefix(s.typeOfPath(tp), "*")
					sl.f.Chk = strings.TrimPrefix(t, "expanded_tx.")
					sl.name = fn
					return
				}
			}
		}
		s.unsupported(st, "bsor.UnmarshalBinary")
		return
	}
	// function readers of this file: DeserializeFeeQuote(r), DeserializeFee(r)
	if ce, ok := call.(*ast.CallExpr); ok {
		if id, ok := ce.Fun.(*ast.Ident); ok && strings.HasPrefix(id.Name, "Deserialize") && local != "" {
			tn := strings.TrimPrefix(id.Name, "Deserialize")
			if _, ok := s.c.funcs[id.Name]; ok {
				s.add(s.c.refTo(tn, true), "", local)
				return
			}
		}
		// x.Deserialize(r [, ...])
		if se, ok := ce.Fun.(*ast.SelectorExpr); ok && se.Sel.Name == "Deserialize" {
			p := pathOf(se.X)
			t := s.typeOfPath(p)
			if t == "" {
				s.unsupported(st, "Deserialize receiver")
				return
			}
			f := s.c.typeFmt(t, true, s.c.loc(st))
			if fn := s.fieldOf(p); fn != "" {
				s.add(f, fn, "") // m.F.Deserialize or m.F[i].Deserialize (inside a loop body)
			} else if len(p) == 1 {
				s.add(f, "", p[0])
			} else {
				s.unsupported(st, "Deserialize receiver path")
			}
			return
		}
	}
	s.unsupported(st, "call")
}

// helper functions introduced by the repair must have the expected bodies
func (c *tctx) helperOK(name string) bool {
	fd, ok := c.funcs[name]
	if !ok {
		return false
	}
	src := nodeText(c.fset, fd)
	switch name {
	case "readBytes":
		return strings.Contains(src, "io.ReadAll(io.LimitReader(r, int64(size)))") && strings.Contains(src, "io.ErrUnexpectedEOF") &&
			!strings.Contains(src, "make(")
	case "preallocCount":
		return strings.Contains(src, "count > maxPreallocCount") && strings.Contains(src, "return maxPreallocCount") &&
			!strings.Contains(src, "make(")
	}
	return false
}

func nodeText(fset *token.FileSet, n ast.Node) string {
	a, b := fset.Position(n.Pos()), fset.Position(n.End())
	data, err := os.ReadFile(a.Filename)
	if err != nil || b.Offset > len(data) {
		return ""
	}
	return string(data[a.Offset:b.Offset])
}

// cast(x): returns x's name and the bit width of the cast (0 = none / not a cast)
func (s *rstate) castOf(e ast.Expr) (string, int, bool) {
	if id, ok := e.(*ast.Ident); ok {
		return id.Name, 0, true
	}
	if se, ok := e.(*ast.StarExpr); ok {
		if id, ok := se.X.(*ast.Ident); ok {
			return id.Name, 0, true
		}
	}
	if ce, ok := e.(*ast.CallExpr); ok && len(ce.Args) == 1 {
		inner, ok := ce.Args[0].(*ast.Ident)
		if !ok {
			return "", 0, false
		}
		t := typeString(ce.Fun)
		if t == "string" {
			return inner.Name, -1, true
		}
		if b := s.c.basicOf(t); b != "" && b != "bool" {
			return inner.Name, 8 * basicWidth[b], true
		}
	}
	return "", 0, false
}

// single assignments: m.F = x | m.F = uint32(x) | m.F = &T{} | x := &T{} | m.X = make(...) + loop | b := make([]byte, n)
func (s *rstate) assign(stmts []ast.Stmt, i *int, as *ast.AssignStmt) bool {
	lp := pathOf(as.Lhs[0])
	rhs := as.Rhs[0]
	// allocation of a pointer field / local: m.Tx = &wire.MsgTx{} ; x := &T{} ; m.Txs = expanded_tx.AncestorTxs{} ; m.F = nil
	if ue, ok := rhs.(*ast.UnaryExpr); ok && ue.Op == token.AND {
		if cl, ok := ue.X.(*ast.CompositeLit); ok && len(cl.Elts) == 0 {
			if len(lp) == 1 {
				s.ltypes[lp[0]] = "*" + typeString(cl.Type)
			}
			return lp != nil
		}
	}
	if cl, ok := rhs.(*ast.CompositeLit); ok && len(cl.Elts) == 0 {
		if len(lp) == 1 {
			s.ltypes[lp[0]] = typeString(cl.Type)
		}
		return lp != nil
	}
	if id, ok := rhs.(*ast.Ident); ok && id.Name == "nil" && s.fieldOf(lp) != "" {
		return true
	}
	// make
	if ce, ok := isCall(rhs, "", "make"); ok {
		return s.makeStmt(stmts, i, as, lp, ce)
	}
	// m.F = x / m.F = cast(x) / m.X[i] = x / m.X = append(m.X, x)
	if fn := s.fieldOf(lp); fn != "" {
		src := rhs
		if ce, ok := isCall(rhs, "", "append"); ok && len(ce.Args) == 2 {
			src = ce.Args[1]
		}
		name, bits, ok := s.castOf(src)
		if !ok {
			return false
		}
		sl, ok := s.locals[name]
		if !ok {
			return false
		}
		if sl.f.K == "varint" {
			if bits == 0 {
				bits = 64
			}
			if bits < 0 {
				return false
			}
			s.finishVarint(sl, bits)
		} else if bits > 0 {
			// cast between integer types of the same width is fine (FeeType(feeType))
			if (sl.f.K == "uint" || sl.f.K == "sint") && sl.f.W*8 != bits {
				return false
			}
		}
		sl.name = fn
		return true
	}
	return false
}

func (s *rstate) makeStmt(stmts []ast.Stmt, i *int, as *ast.AssignStmt, lp []string, ce *ast.CallExpr) bool {
	et := typeString(ce.Args[0])
	isBytes := et == "[]byte" || et == "bitcoin.Script"
	if isBytes && len(lp) == 1 && len(ce.Args) == 2 {
		// b := make([]byte, size) ; the io.ReadFull follows
		p := pathOf(ce.Args[1])
		if len(p) == 1 {
			if sl, ok := s.locals[p[0]]; ok && sl.f.K == "varint" && sl.name == "" {
				sl.f = &F{K: "varbytes", Shape: "pre"}
				delete(s.locals, p[0])
				sl.local = lp[0]
				s.locals[lp[0]] = sl
				s.ltypes[lp[0]] = "[]byte"
				return true
			}
		}
		return false
	}
	fn := s.fieldOf(lp)
	if fn == "" || len(lp) != 2 {
		return false
	}
	elemT := et
	if strings.HasPrefix(et, "[]") {
		elemT = et[2:]
	} else if et == "merchant_api.FeeQuotes" {
		elemT = "*merchant_api.FeeQuote"
	}
	esz := elemSize(elemT)
	// the loop must follow
	if *i+1 >= len(stmts) {
		return false
	}
	var body *ast.BlockStmt
	switch l := stmts[*i+1].(type) {
	case *ast.RangeStmt:
		body = l.Body
	case *ast.ForStmt:
		body = l.Body
	default:
		return false
	}
	shape, cap := "pre", int64(0)
	var cntExpr ast.Expr
	if len(ce.Args) == 2 {
		cntExpr = ce.Args[1]
	} else if len(ce.Args) == 3 {
		// make([]T, 0, preallocCount(count))
		if bl, ok := ce.Args[1].(*ast.BasicLit); !ok || bl.Value != "0" {
			return false
		}
		pc, ok := isCall(ce.Args[2], "", "preallocCount")
		if !ok || len(pc.Args) != 1 || !s.c.helperOK("preallocCount") {
			return false
		}
		mc, ok := s.c.consts["maxPreallocCount"]
		if !ok {
			return false
		}
		shape, cap = "app", mc
		cntExpr = pc.Args[0]
	} else {
		return false
	}
	// count from an earlier decoded list: len(m.Tx.TxIn)
	if lc, ok := isCall(cntExpr, "", "len"); ok && len(lc.Args) == 1 {
		p := pathOf(lc.Args[0])
		if len(p) >= 2 && p[0] == s.recv {
			*i++
			sub := s.c.readBody(s.recv, s.styp, s.rname, body.List, s.ltypes)
			el := sub.single()
			s.add(&F{K: "listof", Path: p[1:], Shape: shape, Esz: esz, Cap: cap, Elem: el}, fn, "")
			return true
		}
		return false
	}
	p := pathOf(cntExpr)
	if len(p) != 1 {
		return false
	}
	sl, ok := s.locals[p[0]]
	if !ok || sl.f.K != "varint" || sl.name != "" {
		return false
	}
	*i++
	s.listBody(sl, body, fn, shape, esz, cap, stmts[*i])
	// the count variable may be reused for the next list (count, err = ...)
	delete(s.locals, p[0])
	return true
}

// turns the count slot into a list whose element is described by the loop body
func (s *rstate) listBody(sl *slot, body *ast.BlockStmt, fn, shape string, esz int, cap int64, at ast.Stmt) {
	sub := s.c.readBody(s.recv, s.styp, s.rname, body.List, s.ltypes)
	el := sub.single()
	if fn == "" {
		// append loop: the field is the one appended to
		for _, x := range sub.slots {
			if x.name != "" {
				fn = x.name
			}
		}
		if t := s.typeOfPath([]string{s.recv, fn, "[]"}); t != "" {
			esz = elemSize(t)
		}
	}
	sl.f = &F{K: "list", Shape: shape, Esz: esz, Cap: cap, Elem: el}
	sl.name = fn
	if sl.local != "" {
		delete(s.locals, sl.local)
	}
}

// the single element format a loop body / optional body reads
func (s *rstate) single() *F {
	var fs []*slot
	for _, x := range s.slots {
		fs = append(fs, x)
	}
	if len(fs) == 1 {
		if fs[0].f.K == "varint" && fs[0].name == "" {
			return fUnsup("element not stored")
		}
		return fs[0].f
	}
	for _, x := range fs {
		if x.f.K == "unsupported" {
			return x.f
		}
	}
	return fUnsup(fmt.Sprintf("element with %d reads", len(fs)))
}

// if flag { ...one read... }   |   if !flag { m.F = nil; return nil } <rest>
func (s *rstate) optional(stmts []ast.Stmt, i *int, is *ast.IfStmt) bool {
	if id, ok := is.Cond.(*ast.Ident); ok && is.Else == nil {
		sl, ok := s.locals[id.Name]
		if !ok || sl.f.K != "bool" {
			return false
		}
		sub := s.c.readBody(s.recv, s.styp, s.rname, is.Body.List, s.ltypes)
		if len(sub.slots) != 1 || sub.slots[0].name == "" {
			return false
		}
		sl.f = &F{K: "opt", Elem: sub.slots[0].f}
		sl.name = sub.slots[0].name
		return true
	}
	if ue, ok := is.Cond.(*ast.UnaryExpr); ok && ue.Op == token.NOT && is.Else == nil {
		id, ok := ue.X.(*ast.Ident)
		if !ok {
			return false
		}
		sl, ok := s.locals[id.Name]
		if !ok || sl.f.K != "bool" {
			return false
		}
		// body: m.F = nil ; return nil
		n := len(is.Body.List)
		if n < 1 || n > 2 {
			return false
		}
		rs, ok := is.Body.List[n-1].(*ast.ReturnStmt)
		if !ok || len(rs.Results) != 1 {
			return false
		}
		if rid, ok := rs.Results[0].(*ast.Ident); !ok || rid.Name != "nil" {
			return false
		}
		sub := s.c.readBody(s.recv, s.styp, s.rname, stmts[*i+1:], s.ltypes)
		if len(sub.slots) != 1 || sub.slots[0].name == "" {
			return false
		}
		sl.f = &F{K: "opt", Elem: sub.slots[0].f}
		sl.name = sub.slots[0].name
		*i = len(stmts)
		return true
	}
	return false
}

// return nil | return &T{K: v, ...}, nil
func (s *rstate) finalReturn(rs *ast.ReturnStmt) {
	if len(rs.Results) == 1 {
		if id, ok := rs.Results[0].(*ast.Ident); ok && id.Name == "nil" {
			return
		}
	}
	if len(rs.Results) == 2 {
		e := rs.Results[0]
		if ue, ok := e.(*ast.UnaryExpr); ok && ue.Op == token.AND {
			e = ue.X
		}
		if cl, ok := e.(*ast.CompositeLit); ok {
			for _, el := range cl.Elts {
				kv, ok := el.(*ast.KeyValueExpr)
				if !ok {
					s.unsupported(rs, "composite literal")
					return
				}
				name, bits, ok := s.castOf(kv.Value)
				sl, ok2 := s.locals[name]
				if !ok || !ok2 {
					s.unsupported(rs, "composite literal value")
					return
				}
				if sl.f.K == "varint" {
					if bits == 0 {
						bits = 64
					}
					s.finishVarint(sl, bits)
				} else if bits > 0 && (sl.f.K == "uint" || sl.f.K == "sint") && sl.f.W*8 != bits {
					s.unsupported(rs, "cast changes width")
					return
				}
				sl.name = kv.Key.(*ast.Ident).Name
			}
			return
		}
	}
	s.unsupported(rs, "return")
}

func (s *rstate) result() *F {
	var fs []Field
	for _, sl := range s.slots {
		if sl.f.K == "unsupported" {
			fs = append(fs, Field{"?", sl.f})
			continue
		}
		if sl.name == "" {
			fs = append(fs, Field{"?", fUnsup("value read into " + sl.local + " is never stored")})
			continue
		}
		fs = append(fs, Field{sl.name, sl.f})
	}
	return &F{K: "struct", Fields: fs}
}

func (c *tctx) reader(name string) *F {
	if f, ok := c.readers[name]; ok {
		return f
	}
	if c.busy["r"+name] {
		return fUnsup("recursive type " + name)
	}
	c.busy["r"+name] = true
	defer delete(c.busy, "r"+name)
	var f *F
	if fd, ok := c.funcs[name+".Deserialize"]; ok {
		recv := fd.Recv.List[0].Names[0].Name
		rn := fd.Type.Params.List[0].Names[0].Name
		f = c.readBody(recv, name, rn, fd.Body.List, nil).result()
	} else if fd, ok := c.funcs["Deserialize"+name]; ok {
		rn := fd.Type.Params.List[0].Names[0].Name
		f = c.readBody("", name, rn, fd.Body.List, nil).result()
	} else {
		f = fUnsup("no Deserialize for " + name)
	}
	c.readers[name] = f
	return f
}

// ------------------------------------------------------------------------------------------------
// WRITER: walk over a Serialize / SigHash body

type wstate struct {
	c      *tctx
	recv   string // "m" (method) or the value parameter of a function writer
	styp   string
	fields []Field
	ltypes map[string]string   // locals (range variables, aliases) -> Go type
	alias  map[string][]string // local -> receiver path it stands for (feeType := uint8(feeQuote.FeeType))
	bsor   map[string]string   // local -> field marshalled with bsor
}

func (c *tctx) writeBody(recv, styp string, stmts []ast.Stmt, ltypes map[string]string, sighash bool) *wstate {
	s := &wstate{c: c, recv: recv, styp: styp, ltypes: map[string]string{}, alias: map[string][]string{}, bsor: map[string]string{}}
	for k, v := range ltypes {
		s.ltypes[k] = v
	}
	s.walk(stmts, sighash)
	return s
}

func (s *wstate) unsupported(n ast.Node, why string) {
	s.fields = append(s.fields, Field{"?", fUnsup(s.c.loc(n) + " " + why)})
}

func (s *wstate) typeOfPath(p []string) string {
	r := &rstate{c: s.c, recv: s.recv, styp: s.styp, ltypes: s.ltypes}
	return r.typeOfPath(p)
}

func (s *wstate) fieldOf(p []string) string {
	if len(p) >= 2 && p[0] == s.recv {
		return p[1]
	}
	if len(p) == 1 {
		if a, ok := s.alias[p[0]]; ok && len(a) >= 2 {
			return a[1]
		}
	}
	return ""
}

// uint64(len(m.X)) -> path of X
func lenArg(e ast.Expr) []string {
	ce, ok := e.(*ast.CallExpr)
	if !ok || len(ce.Args) != 1 || typeString(ce.Fun) != "uint64" {
		return nil
	}
	lc, ok := isCall(ce.Args[0], "", "len")
	if !ok || len(lc.Args) != 1 {
		return nil
	}
	return pathOf(lc.Args[0])
}

func (s *wstate) walk(stmts []ast.Stmt, sighash bool) {
	for i := 0; i < len(stmts); i++ {
		st := stmts[i]
		if rs, ok := st.(*ast.ReturnStmt); ok {
			if i == len(stmts)-1 {
				if len(rs.Results) == 1 {
					if id, ok := rs.Results[0].(*ast.Ident); ok && id.Name == "nil" {
						continue
					}
					if call, ok := rs.Results[0].(*ast.CallExpr); ok && !sighash {
						s.writeCall(st, call) // return binary.Write(...)
						continue
					}
				}
				if sighash {
					continue // return bitcoin.NewHash32(h[:])
				}
			}
			s.unsupported(st, "return")
			continue
		}
		if call, ok := errCheckedCall(st); ok {
			// count + loop / count + block
			if ce, ok := isCall(call, "wire", "WriteVarInt"); ok && len(ce.Args) == 3 {
				if lp := lenArg(ce.Args[2]); lp != nil {
					if i+1 < len(stmts) && s.counted(stmts[i+1], lp, st) {
						i++
						continue
					}
					s.unsupported(st, "count without loop")
					continue
				}
			}
			s.writeCall(st, call)
			continue
		}
		if as, ok := st.(*ast.AssignStmt); ok {
			// script, err := bsor.MarshalBinary(m.Tx) ; if err != nil
			if len(as.Lhs) == 2 && len(as.Rhs) == 1 {
				if ce, ok := isCall(as.Rhs[0], "bsor", "MarshalBinary"); ok && i+1 < len(stmts) && isErrCheck(stmts[i+1]) {
					p := pathOf(ce.Args[0])
					if fn := s.fieldOf(p); fn != "" {
						s.bsor[as.Lhs[0].(*ast.Ident).Name] = fn
						i++
						continue
					}
				}
			}
			if len(as.Lhs) == 1 && len(as.Rhs) == 1 {
				// feeType := uint8(feeQuote.FeeType)
				if id, ok := as.Lhs[0].(*ast.Ident); ok {
					if ce, ok := as.Rhs[0].(*ast.CallExpr); ok && len(ce.Args) == 1 {
						t := typeString(ce.Fun)
						p := pathOf(ce.Args[0])
						if b := s.c.basicOf(t); b != "" && len(p) >= 2 && p[0] == s.recv {
							if s.c.basicOf(s.typeOfPath(p)) != "" && basicWidth[s.c.basicOf(s.typeOfPath(p))] == basicWidth[b] {
								s.alias[id.Name] = p
								s.ltypes[id.Name] = t
								continue
							}
						}
						if sighash && (nodeTextHas(s.c.fset, as.Rhs[0], "sha256.")) {
							continue
						}
					}
				}
			}
			s.unsupported(st, "assignment")
			continue
		}
		if is, ok := st.(*ast.IfStmt); ok && is.Init == nil {
			if s.optional(stmts, &i, is) {
				continue
			}
		}
		if rs, ok := st.(*ast.RangeStmt); ok {
			// elements without a count: for _, output := range m.Outputs { output.Serialize(...) }
			p := pathOf(rs.X)
			if fn := s.fieldOf(p); fn != "" {
				el := s.loopElem(rs, p)
				s.fields = append(s.fields, Field{fn, &F{K: "listof", Shape: "app", Elem: el}})
				continue
			}
		}
		s.unsupported(st, "statement")
	}
}

func nodeTextHas(fset *token.FileSet, n ast.Node, sub string) bool {
	return strings.Contains(nodeText(fset, n), sub)
}

// the statement after a written count: a range loop over the same slice or a Write of the same bytes
func (s *wstate) counted(next ast.Stmt, lp []string, at ast.Stmt) bool {
	if rs, ok := next.(*ast.RangeStmt); ok {
		p := pathOf(rs.X)
		if strings.Join(p, ".") != strings.Join(lp, ".") {
			return false
		}
		fn := s.fieldOf(p)
		if fn == "" {
			return false
		}
		s.fields = append(s.fields, Field{fn, &F{K: "list", Shape: "app", Elem: s.loopElem(rs, p)}})
		return true
	}
	if call, ok := errCheckedCall(next); ok {
		if ce, ok := call.(*ast.CallExpr); ok && len(ce.Args) == 1 {
			if se, ok := ce.Fun.(*ast.SelectorExpr); ok && se.Sel.Name == "Write" {
				arg := ce.Args[0]
				if cv, ok := arg.(*ast.CallExpr); ok && len(cv.Args) == 1 && typeString(cv.Fun) == "[]byte" {
					arg = cv.Args[0] // []byte(m.Message)
				}
				p := pathOf(arg)
				if strings.Join(p, ".") != strings.Join(lp, ".") {
					return false
				}
				if len(p) == 1 {
					if fn, ok := s.bsor[p[0]]; ok {
						t := strings.TrimPrefix(s.typeOfPath([]string{s.recv, fn}), "*")
						s.fields = append(s.fields, Field{fn, &F{K: "varbytes", Shape: "grow", Chk: strings.TrimPrefix(t, "expanded_tx.")}})
						return true
					}
					if t, ok := s.ltypes[p[0]]; ok && t == "[]byte" {
						// element of a [][]byte list (range variable)
						s.fields = append(s.fields, Field{"", &F{K: "varbytes", Shape: "grow"}})
						return true
					}
					return false
				}
				if fn := s.fieldOf(p); fn != "" {
					t := s.typeOfPath(p)
					if t == "string" || t == "[]byte" {
						s.fields = append(s.fields, Field{fn, &F{K: "varbytes", Shape: "grow"}})
						return true
					}
				}
			}
		}
	}
	return false
}

func (s *wstate) loopElem(rs *ast.RangeStmt, p []string) *F {
	lt := map[string]string{}
	for k, v := range s.ltypes {
		lt[k] = v
	}
	et := s.typeOfPath(append(append([]string{}, p...), "[]"))
	if v, ok := rs.Value.(*ast.Ident); ok && v.Name != "_" {
		lt[v.Name] = et
	}
	sub := s.c.writeBody(s.recv, s.styp, rs.Body.List, lt, false)
	if len(sub.fields) == 1 {
		return sub.fields[0].F
	}
	for _, f := range sub.fields {
		if f.F.K == "unsupported" {
			return f.F
		}
	}
	return fUnsup(fmt.Sprintf("%s element with %d writes", s.c.loc(rs), len(sub.fields)))
}

func (s *wstate) writeCall(st ast.Stmt, call ast.Expr) {
	if ce, ok := isCall(call, "binary", "Write"); ok && len(ce.Args) == 3 {
		arg := ce.Args[2]
		p := pathOf(arg)
		t := s.typeOfPath(p)
		if len(p) == 1 {
			if a, ok := s.alias[p[0]]; ok {
				t = s.ltypes[p[0]]
				p = a
			}
		}
		if s.c.basicOf(t) == "" {
			s.unsupported(st, "binary.Write of "+t)
			return
		}
		fn := ""
		if len(p) >= 2 && p[0] == s.recv {
			fn = p[1]
		}
		s.fields = append(s.fields, Field{fn, s.c.typeFmt(t, false, s.c.loc(st))})
		return
	}
	if ce, ok := isCall(call, "wire", "WriteVarInt"); ok && len(ce.Args) == 3 {
		arg := ce.Args[2]
		bits := 64
		if cv, ok := arg.(*ast.CallExpr); ok && len(cv.Args) == 1 && typeString(cv.Fun) == "uint64" {
			arg = cv.Args[0]
			b := s.c.basicOf(s.typeOfPath(pathOf(arg)))
			if b == "" || b == "bool" || strings.HasPrefix(b, "int") {
				s.unsupported(st, "varint of non-unsigned")
				return
			}
			bits = 8 * basicWidth[b]
		} else if s.c.basicOf(s.typeOfPath(pathOf(arg))) != "uint64" {
			s.unsupported(st, "varint of non-uint64")
			return
		}
		p := pathOf(arg)
		fn := ""
		if len(p) >= 2 && p[0] == s.recv {
			fn = p[1]
		}
		s.fields = append(s.fields, Field{fn, &F{K: "varint", Bits: bits}})
		return
	}
	if ce, ok := call.(*ast.CallExpr); ok {
		// SerializeFeeQuote(feeQuote, w) / SerializeFee(x.MiningFee, w)
		if id, ok := ce.Fun.(*ast.Ident); ok && strings.HasPrefix(id.Name, "Serialize") && len(ce.Args) == 2 {
			if _, ok := s.c.funcs[id.Name]; ok {
				p := pathOf(ce.Args[0])
				fn := ""
				if len(p) >= 2 && p[0] == s.recv {
					fn = p[1]
				}
				s.fields = append(s.fields, Field{fn, s.c.refTo(strings.TrimPrefix(id.Name, "Serialize"), false)})
				return
			}
		}
		if se, ok := ce.Fun.(*ast.SelectorExpr); ok && se.Sel.Name == "Serialize" {
			p := pathOf(se.X)
			t := s.typeOfPath(p)
			if t == "" {
				s.unsupported(st, "Serialize receiver")
				return
			}
			fn := ""
			if len(p) >= 2 && p[0] == s.recv {
				fn = p[1]
			} else if len(p) == 1 && p[0] != s.recv {
				if _, isLocal := s.ltypes[p[0]]; isLocal {
					fn = "" // loop variable
				}
				if s.styp == "" {
					fn = p[0]
				}
			}
			s.fields = append(s.fields, Field{fn, s.c.typeFmt(t, false, s.c.loc(st))})
			return
		}
	}
	s.unsupported(st, "call")
}

func isBoolWrite(st ast.Stmt, val string) bool {
	call, ok := errCheckedCall(st)
	if !ok {
		return false
	}
	ce, ok := isCall(call, "binary", "Write")
	if !ok || len(ce.Args) != 3 {
		return false
	}
	id, ok := ce.Args[2].(*ast.Ident)
	return ok && id.Name == val
}

// if m.F != nil { write true; m.F.Serialize } else { write false }
// if m.F == nil { write false; return nil } ; write true ; m.F.Serialize
func (s *wstate) optional(stmts []ast.Stmt, i *int, is *ast.IfStmt) bool {
	be, ok := is.Cond.(*ast.BinaryExpr)
	if !ok {
		return false
	}
	if id, ok := be.Y.(*ast.Ident); !ok || id.Name != "nil" {
		return false
	}
	p := pathOf(be.X)
	fn := s.fieldOf(p)
	if fn == "" || len(p) != 2 {
		return false
	}
	if be.Op == token.NEQ && is.Else != nil {
		eb, ok := is.Else.(*ast.BlockStmt)
		if !ok || len(eb.List) != 1 || !isBoolWrite(eb.List[0], "false") {
			return false
		}
		if len(is.Body.List) != 2 || !isBoolWrite(is.Body.List[0], "true") {
			return false
		}
		sub := s.c.writeBody(s.recv, s.styp, is.Body.List[1:], s.ltypes, false)
		if len(sub.fields) != 1 || sub.fields[0].Name != fn {
			return false
		}
		s.fields = append(s.fields, Field{fn, &F{K: "opt", Elem: sub.fields[0].F}})
		return true
	}
	if be.Op == token.EQL && is.Else == nil {
		if len(is.Body.List) != 2 || !isBoolWrite(is.Body.List[0], "false") {
			return false
		}
		if rs, ok := is.Body.List[1].(*ast.ReturnStmt); !ok || len(rs.Results) != 1 {
			return false
		}
		rest := stmts[*i+1:]
		if len(rest) < 2 || !isBoolWrite(rest[0], "true") {
			return false
		}
		sub := s.c.writeBody(s.recv, s.styp, rest[1:], s.ltypes, false)
		if len(sub.fields) != 1 || sub.fields[0].Name != fn {
			return false
		}
		s.fields = append(s.fields, Field{fn, &F{K: "opt", Elem: sub.fields[0].F}})
		*i = len(stmts)
		return true
	}
	return false
}

func (s *wstate) result() *F {
	var fs []Field
	for _, f := range s.fields {
		if f.Name == "" && f.F.K != "unsupported" {
			fs = append(fs, Field{"?", fUnsup("written value is not a field")})
			continue
		}
		fs = append(fs, f)
	}
	return &F{K: "struct", Fields: fs}
}

func (c *tctx) writer(name string) *F {
	if f, ok := c.writers[name]; ok {
		return f
	}
	if c.busy["w"+name] {
		return fUnsup("recursive type " + name)
	}
	c.busy["w"+name] = true
	defer delete(c.busy, "w"+name)
	var f *F
	if fd, ok := c.funcs[name+".Serialize"]; ok {
		recv := fd.Recv.List[0].Names[0].Name
		f = c.writeBody(recv, name, fd.Body.List, nil, false).result()
	} else if fd, ok := c.funcs["Serialize"+name]; ok {
		// func SerializeFee(fee merchant_api.Fee, w io.Writer) error
		pv := fd.Type.Params.List[0]
		recv := pv.Names[0].Name
		f = c.writeBody(recv, strings.TrimPrefix(typeString(pv.Type), "*"), fd.Body.List, nil, false).result()
	} else {
		f = fUnsup("no Serialize for " + name)
	}
	c.writers[name] = f
	return f
}

// ------------------------------------------------------------------------------------------------
// driver

func loadCodec(repo string, ideal bool) (*tctx, []string, error) {
	c := &tctx{fset: token.NewFileSet(), file: "messages.go", structs: map[string][]*ast.Field{}, named: map[string]string{},
		consts: map[string]int64{}, readers: map[string]*F{}, writers: map[string]*F{}, funcs: map[string]*ast.FuncDecl{},
		busy: map[string]bool{}, ideal: ideal}
	models, err := parser.ParseFile(c.fset, filepath.Join(repo, "pkg/client/models.go"), nil, 0)
	if err != nil {
		return nil, nil, err
	}
	msgs, err := parser.ParseFile(c.fset, filepath.Join(repo, "pkg/client/messages.go"), nil, 0)
	if err != nil {
		return nil, nil, err
	}
	for _, file := range []*ast.File{models, msgs} {
		for _, d := range file.Decls {
			gd, ok := d.(*ast.GenDecl)
			if !ok {
				continue
			}
			for _, sp := range gd.Specs {
				switch x := sp.(type) {
				case *ast.TypeSpec:
					switch t := x.Type.(type) {
					case *ast.StructType:
						c.structs[x.Name.Name] = t.Fields.List
					case *ast.Ident:
						c.named[x.Name.Name] = t.Name
					}
				case *ast.ValueSpec:
					if gd.Tok == token.CONST {
						for i, n := range x.Names {
							if i < len(x.Values) {
								if bl, ok := x.Values[i].(*ast.BasicLit); ok && bl.Kind == token.INT {
									if v, err := strconv.ParseInt(bl.Value, 0, 64); err == nil {
										c.consts[n.Name] = v
									}
								}
							}
						}
					}
				}
			}
		}
	}
	// dependency structs whose fields the code touches directly
	c.structs["merchant_api.FeeQuote"] = []*ast.Field{
		{Names: []*ast.Ident{ast.NewIdent("FeeType")}, Type: &ast.SelectorExpr{X: ast.NewIdent("merchant_api"), Sel: ast.NewIdent("FeeType")}},
		{Names: []*ast.Ident{ast.NewIdent("MiningFee")}, Type: &ast.SelectorExpr{X: ast.NewIdent("merchant_api"), Sel: ast.NewIdent("Fee")}},
		{Names: []*ast.Ident{ast.NewIdent("RelayFee")}, Type: &ast.SelectorExpr{X: ast.NewIdent("merchant_api"), Sel: ast.NewIdent("Fee")}},
	}
	c.structs["merchant_api.Fee"] = []*ast.Field{
		{Names: []*ast.Ident{ast.NewIdent("Satoshis")}, Type: ast.NewIdent("uint64")},
		{Names: []*ast.Ident{ast.NewIdent("Bytes")}, Type: ast.NewIdent("uint64")},
	}
	var order []string
	seen := map[string]bool{}
	for _, d := range msgs.Decls {
		fd, ok := d.(*ast.FuncDecl)
		if !ok || fd.Body == nil {
			continue
		}
		if fd.Recv == nil {
			c.funcs[fd.Name.Name] = fd
			for _, pre := range []string{"Deserialize", "Serialize"} {
				if strings.HasPrefix(fd.Name.Name, pre) && len(fd.Name.Name) > len(pre) {
					n := strings.TrimPrefix(fd.Name.Name, pre)
					if !seen[n] {
						seen[n] = true
						order = append(order, n)
					}
				}
			}
			continue
		}
		tn := strings.TrimPrefix(typeString(fd.Recv.List[0].Type), "*")
		c.funcs[tn+"."+fd.Name.Name] = fd
		if (fd.Name.Name == "Serialize" || fd.Name.Name == "Deserialize") && tn != "Message" && !seen[tn] {
			seen[tn] = true
			order = append(order, tn)
		}
	}
	// struct types of function codecs are the dependency's
	c.structs["FeeQuote"] = c.structs["merchant_api.FeeQuote"]
	c.structs["Fee"] = c.structs["merchant_api.Fee"]
	return c, order, nil
}

// Message.Serialize / Deserialize must be exactly: varint Type() ; Payload.(De)Serialize
func messageFramingOK(c *tctx) bool {
	de, ok1 := c.funcs["Message.Deserialize"]
	se, ok2 := c.funcs["Message.Serialize"]
	if !ok1 || !ok2 {
		return false
	}
	norm := func(s string) string { return strings.Join(strings.Fields(s), " ") }
	d := norm(nodeText(c.fset, de.Body))
	s := norm(nodeText(c.fset, se.Body))
	dwant := []string{"t, err := wire.ReadVarInt(r, wire.ProtocolVersion)", "m.Payload = PayloadForType(t)", "if m.Payload == nil { return",
		"if err := m.Payload.Deserialize(r); err != nil { return"}
	swant := []string{"if err := wire.WriteVarInt(w, wire.ProtocolVersion, m.Payload.Type()); err != nil { return",
		"if err := m.Payload.Serialize(w); err != nil { return"}
	pos := 0
	for _, w := range dwant {
		k := strings.Index(d[pos:], w)
		if k < 0 {
			return false
		}
		pos += k + len(w)
	}
	pos = 0
	for _, w := range swant {
		k := strings.Index(s[pos:], w)
		if k < 0 {
			return false
		}
		pos += k + len(w)
	}
	// nothing else consumes or produces bytes
	return strings.Count(d, "(r)")+strings.Count(d, "(r,") == 2 && strings.Count(s, "(w)")+strings.Count(s, "(w,") == 2
}

func genCodec(repo string) (string, error) {
	c, order, err := loadCodec(repo, false)
	if err != nil {
		return "", err
	}
	ci, _, err := loadCodec(repo, true)
	if err != nil {
		return "", err
	}
	var b strings.Builder
	b.WriteString("(* GENERATED by /verif/translator (codec.go) from pkg/client/messages.go + models.go of the repository's\n   current sources.  Do not edit. *)\n")
	b.WriteString("From Coq Require Import ZArith String List.\nFrom V.model Require Import CodecDSL.\nImport ListNotations.\nLocal Open Scope Z_scope.\nLocal Open Scope string_scope.\n\n")
	b.WriteString("(* hand-written formats of the pinned dependency tokenized/pkg (wire.OutPoint, TxIn, TxOut, MsgTx):\n   `real` = what wire/msgtx.go does today, `ideal` = the same wire format read without reserving memory\n   from claimed counts *)\n")
	b.WriteString("Record deps : Type := { d_MsgTx : fmt; d_TxOut : fmt }.\n")
	op, _, txo, mtx := depFormats(false)
	_, _, txoI, mtxI := depFormats(true)
	fmt.Fprintf(&b, "Definition f_OutPoint : fmt := %s.\n", op.coq())
	fmt.Fprintf(&b, "Definition real_deps : deps := {| d_MsgTx := %s;\n  d_TxOut := %s |}.\n", mtx.coq(), txo.coq())
	fmt.Fprintf(&b, "Definition ideal_deps : deps := {| d_MsgTx := %s;\n  d_TxOut := %s |}.\n\n", mtxI.coq(), txoI.coq())
	b.WriteString("Section Gen.\nVariable D : deps.\n\n")
	// definitions in dependency order: compute all first
	for _, n := range order {
		c.reader(n)
		c.writer(n)
		ci.reader(n)
		ci.writer(n)
	}
	emitted := map[string]bool{}
	var emit func(n string)
	deps := func(f *F) []string {
		var out []string
		var rec func(f *F)
		rec = func(f *F) {
			if f == nil {
				return
			}
			if f.K == "ref" && (strings.HasPrefix(f.Name, "r_") || strings.HasPrefix(f.Name, "w_")) {
				out = append(out, f.Name[2:])
			}
			rec(f.Elem)
			for _, fl := range f.Fields {
				rec(fl.F)
			}
		}
		rec(f)
		return out
	}
	emit = func(n string) {
		if emitted[n] {
			return
		}
		emitted[n] = true
		for _, d := range append(deps(c.readers[n]), deps(c.writers[n])...) {
			emit(d)
		}
		fmt.Fprintf(&b, "Definition w_%s : fmt :=\n  %s.\n", n, c.writers[n].coq())
		fmt.Fprintf(&b, "Definition r_%s : fmt :=\n  %s.\n\n", n, c.readers[n].coq())
	}
	for _, n := range order {
		emit(n)
	}
	// SigHash writers
	sigs := []string{}
	for _, n := range order {
		if fd, ok := c.funcs[n+".SigHash"]; ok {
			recv := fd.Recv.List[0].Names[0].Name
			lt := map[string]string{}
			for _, p := range fd.Type.Params.List {
				for _, nm := range p.Names {
					lt[nm.Name] = typeString(p.Type)
				}
			}
			body := fd.Body.List
			if len(body) > 0 { // hash := sha256.New()
				if as, ok := body[0].(*ast.AssignStmt); ok && nodeTextHas(c.fset, as, "sha256.New()") {
					body = body[1:]
				}
			}
			ws := c.writeBody(recv, n, body, lt, true)
			var fs []Field
			for _, f := range ws.fields {
				if f.Name == "" {
					f.Name = "arg"
				}
				fs = append(fs, f)
			}
			fmt.Fprintf(&b, "Definition sh_%s : fmt :=\n  %s.\n\n", n, (&F{K: "struct", Fields: fs}).coq())
			sigs = append(sigs, n)
		}
	}
	b.WriteString("Definition all_types : list (string * fmt * fmt) := [\n")
	for i, n := range order {
		sep := ";"
		if i == len(order)-1 {
			sep = ""
		}
		fmt.Fprintf(&b, "  (%s, w_%s, r_%s)%s\n", coqStr(n), n, n, sep)
	}
	b.WriteString("].\n\n")
	b.WriteString("Definition sighash_writers : list (string * fmt) := [")
	for i, n := range sigs {
		if i > 0 {
			b.WriteString("; ")
		}
		fmt.Fprintf(&b, "(%s, sh_%s)", coqStr(n), n)
	}
	b.WriteString("].\n\nEnd Gen.\n\n")
	fmt.Fprintf(&b, "(* Message.Serialize / Message.Deserialize have the framing `varint Type() ; payload` *)\nDefinition message_framing_ok : bool := %v.\n", messageFramingOK(c))

	// JSON for the Python side (real deps and ideal deps)
	type jt struct {
		Name string                 `json:"name"`
		W    map[string]interface{} `json:"w"`
		R    map[string]interface{} `json:"r"`
		RI   map[string]interface{} `json:"r_ideal"`
	}
	var js []jt
	for _, n := range order {
		js = append(js, jt{n, c.writers[n].js(), c.readers[n].js(), ci.readers[n].js()})
	}
	extra := map[string]interface{}{"wire.MsgTx": mtx.js(), "wire.TxOut": txo.js(), "wire.OutPoint": op.js()}
	out, err := json.MarshalIndent(map[string]interface{}{"types": js, "deps": extra, "message_framing_ok": messageFramingOK(c)}, "", " ")
	if err != nil {
		return "", err
	}
	// work/schemas.json next to coq/gen (-out is <verif>/coq/gen); one file per repository path
	if of := flag.Lookup("out"); of != nil && of.Value.String() != "" {
		wd := filepath.Join(of.Value.String(), "..", "..", "work")
		if wf := flag.Lookup("work"); wf != nil && wf.Value.String() != "" {
			wd = wf.Value.String()
		}
		name := "schemas.json"
		if repo != "/repo" {
			h := sha256.Sum256([]byte(repo))
			name = fmt.Sprintf("schemas-%x.json", h[:4])
		}
		_ = os.MkdirAll(wd, 0755)
		if err := os.WriteFile(filepath.Join(wd, name), out, 0644); err != nil {
			return "", err
		}
	}
	schemaJSON = out
	return b.String(), nil
}

var schemaJSON []byte

// ------------------------------------------------------------------------------------------------
// TypeTables.v

func genTypeTables(repo string) (string, error) {
	fset := token.NewFileSet()
	models, err := parser.ParseFile(fset, filepath.Join(repo, "pkg/client/models.go"), nil, 0)
	if err != nil {
		return "", err
	}
	msgs, err := parser.ParseFile(fset, filepath.Join(repo, "pkg/client/messages.go"), nil, 0)
	if err != nil {
		return "", err
	}
	codes := map[string]string{} // MessageTypeX -> value
	var codeOrder []string
	names := map[string]string{} // MessageTypeX -> "name"
	for _, d := range models.Decls {
		gd, ok := d.(*ast.GenDecl)
		if !ok {
			continue
		}
		for _, sp := range gd.Specs {
			vs, ok := sp.(*ast.ValueSpec)
			if !ok {
				continue
			}
			for i, n := range vs.Names {
				if gd.Tok == token.CONST && strings.HasPrefix(n.Name, "MessageType") && i < len(vs.Values) {
					if ce, ok := vs.Values[i].(*ast.CallExpr); ok && len(ce.Args) == 1 && typeString(ce.Fun) == "uint64" {
						if bl, ok := ce.Args[0].(*ast.BasicLit); ok {
							codes[n.Name] = bl.Value
							codeOrder = append(codeOrder, n.Name)
						}
					}
				}
				if gd.Tok == token.VAR && n.Name == "MessageTypeNames" && i < len(vs.Values) {
					if cl, ok := vs.Values[i].(*ast.CompositeLit); ok {
						for _, el := range cl.Elts {
							kv := el.(*ast.KeyValueExpr)
							k, _ := kv.Key.(*ast.Ident)
							v, _ := kv.Value.(*ast.BasicLit)
							if k != nil && v != nil {
								s, _ := strconv.Unquote(v.Value)
								names[k.Name] = s
							}
						}
					}
				}
			}
		}
	}
	payload := map[string]string{} // MessageTypeX -> struct name (PayloadForType)
	var payloadOrder []string
	typeOf := map[string]string{} // struct -> MessageTypeX (Type())
	sets := map[string][]string{} // IsHandshakeType etc -> constants
	for _, d := range msgs.Decls {
		fd, ok := d.(*ast.FuncDecl)
		if !ok || fd.Body == nil {
			continue
		}
		if fd.Recv == nil && fd.Name.Name == "PayloadForType" {
			ast.Inspect(fd.Body, func(n ast.Node) bool {
				cc, ok := n.(*ast.CaseClause)
				if !ok || len(cc.Body) != 1 {
					return true
				}
				rs, ok := cc.Body[0].(*ast.ReturnStmt)
				if !ok || len(rs.Results) != 1 {
					return true
				}
				ue, ok := rs.Results[0].(*ast.UnaryExpr)
				if !ok {
					return true
				}
				cl, ok := ue.X.(*ast.CompositeLit)
				if !ok {
					return true
				}
				for _, e := range cc.List {
					if id, ok := e.(*ast.Ident); ok {
						payload[id.Name] = typeString(cl.Type)
						payloadOrder = append(payloadOrder, id.Name)
					}
				}
				return true
			})
		}
		if fd.Recv == nil && (fd.Name.Name == "IsHandshakeType" || fd.Name.Name == "IsRequestType" || fd.Name.Name == "IsResponseType") {
			ast.Inspect(fd.Body, func(n ast.Node) bool {
				cc, ok := n.(*ast.CaseClause)
				if !ok || len(cc.Body) != 1 {
					return true
				}
				if rs, ok := cc.Body[0].(*ast.ReturnStmt); ok && len(rs.Results) == 1 {
					if id, ok := rs.Results[0].(*ast.Ident); ok && id.Name == "true" {
						for _, e := range cc.List {
							if cid, ok := e.(*ast.Ident); ok {
								sets[fd.Name.Name] = append(sets[fd.Name.Name], cid.Name)
							}
						}
					}
				}
				return true
			})
		}
		if fd.Recv != nil && fd.Name.Name == "Type" && len(fd.Body.List) == 1 {
			if rs, ok := fd.Body.List[0].(*ast.ReturnStmt); ok && len(rs.Results) == 1 {
				if id, ok := rs.Results[0].(*ast.Ident); ok {
					typeOf[strings.TrimPrefix(typeString(fd.Recv.List[0].Type), "*")] = id.Name
				}
			}
		}
	}
	var b strings.Builder
	b.WriteString("(* GENERATED by /verif/translator (codec.go) from pkg/client/models.go + messages.go.  Do not edit. *)\n")
	b.WriteString("From Coq Require Import ZArith String List.\nImport ListNotations.\nLocal Open Scope Z_scope.\nLocal Open Scope string_scope.\n\n")
	b.WriteString("(* MessageType* constants: (constant name, code) *)\nDefinition type_codes : list (string * Z) := [\n")
	for i, n := range codeOrder {
		sep := ";"
		if i == len(codeOrder)-1 {
			sep = ""
		}
		fmt.Fprintf(&b, "  (%s, %s)%s\n", coqStr(n), codes[n], sep)
	}
	b.WriteString("].\n\n(* PayloadForType: (code, payload struct) in switch order *)\nDefinition payload_for_type : list (Z * string) := [\n")
	for i, n := range payloadOrder {
		sep := ";"
		if i == len(payloadOrder)-1 {
			sep = ""
		}
		cv, ok := codes[n]
		if !ok {
			cv = "(-1)"
		}
		fmt.Fprintf(&b, "  (%s, %s)%s\n", cv, coqStr(payload[n]), sep)
	}
	b.WriteString("].\n\n(* Type() methods: (payload struct, code) *)\nDefinition type_of_payload : list (string * Z) := [\n")
	var tns []string
	for k := range typeOf {
		tns = append(tns, k)
	}
	sort.Strings(tns)
	for i, n := range tns {
		sep := ";"
		if i == len(tns)-1 {
			sep = ""
		}
		cv, ok := codes[typeOf[n]]
		if !ok {
			cv = "(-1)"
		}
		fmt.Fprintf(&b, "  (%s, %s)%s\n", coqStr(n), cv, sep)
	}
	b.WriteString("].\n\n(* MessageTypeNames: (code, name) *)\nDefinition type_names : list (Z * string) := [\n")
	var nn []string
	for k := range names {
		nn = append(nn, k)
	}
	sort.Slice(nn, func(i, j int) bool {
		a, _ := strconv.Atoi(codes[nn[i]])
		c, _ := strconv.Atoi(codes[nn[j]])
		return a < c
	})
	for i, n := range nn {
		sep := ";"
		if i == len(nn)-1 {
			sep = ""
		}
		cv, ok := codes[n]
		if !ok {
			cv = "(-1)"
		}
		fmt.Fprintf(&b, "  (%s, %s)%s\n", cv, coqStr(names[n]), sep)
	}
	b.WriteString("].\n\n")
	for _, fn := range []string{"IsHandshakeType", "IsRequestType", "IsResponseType"} {
		var vs []string
		for _, n := range sets[fn] {
			cv, ok := codes[n]
			if !ok {
				cv = "(-1)"
			}
			vs = append(vs, cv)
		}
		fmt.Fprintf(&b, "Definition %s_codes : list Z := [%s].\n", strings.ToLower(fn[:1])+fn[1:], strings.Join(vs, "; "))
	}
	return b.String(), nil
}
