// veriftranslator regenerates the Coq files under coq/gen from the current working tree of the
// repository (go/parser + go/ast only, no type checker, standard library only).
//
//	veriftranslator -repo /repo -out /verif/coq/gen
package main

import (
	"flag"
	"fmt"
	"os"
	"path/filepath"
)

func main() {
	repo := flag.String("repo", "/repo", "repository root")
	out := flag.String("out", "", "output directory for generated .v files")
	flag.String("work", "", "directory for schemas.json (default: <out>/../../work)")
	flag.Parse()
	if *out == "" {
		fmt.Fprintln(os.Stderr, "missing -out")
		os.Exit(2)
	}
	if err := os.MkdirAll(*out, 0755); err != nil {
		fatal(err)
	}
	gens := []struct {
		file string
		gen  func(repo string) (string, error)
	}{
		{"Consts.v", genConsts},
	}
	gens = append(gens, extraGens...)
	for _, g := range gens {
		text, err := g.gen(*repo)
		if err != nil {
			fatal(fmt.Errorf("%s: %w", g.file, err))
		}
		path := filepath.Join(*out, g.file)
		// only rewrite when the content changes, so make does not rebuild needlessly
		old, err := os.ReadFile(path)
		if err == nil && string(old) == text {
			continue
		}
		if err := os.WriteFile(path, []byte(text), 0644); err != nil {
			fatal(err)
		}
	}
}

var extraGens []struct {
	file string
	gen  func(repo string) (string, error)
}

func fatal(err error) {
	fmt.Fprintln(os.Stderr, "translator:", err)
	os.Exit(1)
}
