package main

// RouterGen.v: the response router of the remote client, (*RemoteClient).handleRequestResponse in
// pkg/client/remote_client.go, translated statement by statement into the small routing language of
// coq/model/RouterDSL.v.  Only the shapes the function is written in are understood; anything else
// becomes SUnknown, which the interpreter treats as "drop every pending request", so that the
// agreement theorem (proofs/Router_Proofs.v) cannot hold by accident.

import (
	"bytes"
	"fmt"
	"go/ast"
	"go/parser"
	"go/printer"
	"go/token"
	"path/filepath"
	"strings"
)

func init() {
	extraGens = append(extraGens, struct {
		file string
		gen  func(repo string) (string, error)
	}{"RouterGen.v", genRouter})
}

type routerTr struct {
	fset *token.FileSet
	keys map[string]string // local variable -> key source
}

func (t *routerTr) text(n ast.Node) string {
	var b bytes.Buffer
	printer.Fprint(&b, t.fset, n)
	return strings.Join(strings.Fields(b.String()), " ")
}

func isLogging(s ast.Stmt) bool {
	es, ok := s.(*ast.ExprStmt)
	if !ok {
		return false
	}
	call, ok := es.X.(*ast.CallExpr)
	if !ok {
		return false
	}
	sel, ok := call.Fun.(*ast.SelectorExpr)
	if !ok {
		return false
	}
	id, ok := sel.X.(*ast.Ident)
	return ok && id.Name == "logger"
}

func typConst(e ast.Expr) string {
	if id, ok := e.(*ast.Ident); ok && strings.HasPrefix(id.Name, "MessageType") {
		return id.Name
	}
	return "(-1)"
}

// cond of the search loop: request.typ == T [&& <key comparison>]
func (t *routerTr) loopCond(e ast.Expr) (typ, key string, ok bool) {
	parts := []ast.Expr{e}
	if be, isBin := e.(*ast.BinaryExpr); isBin && be.Op == token.LAND {
		parts = []ast.Expr{be.X, be.Y}
	}
	first, isBin := parts[0].(*ast.BinaryExpr)
	if !isBin || first.Op != token.EQL || t.text(first.X) != "request.typ" {
		return "", "", false
	}
	typ = typConst(first.Y)
	if len(parts) == 1 {
		return typ, "KNone", true
	}
	s := t.text(parts[1])
	switch {
	case s == "request.height == int(msg.RequestHeight)":
		return typ, "KReqHeight", true
	case s == "request.hash.Equal(msg.Hash)":
		return typ, "KMsgHash", true
	case strings.HasPrefix(s, "request.hash.Equal(&") && strings.HasSuffix(s, ")"):
		v := strings.TrimSuffix(strings.TrimPrefix(s, "request.hash.Equal(&"), ")")
		if k, found := t.keys[v]; found {
			return typ, k, true
		}
	}
	return typ, "KUnknown", true
}

func coqBool(b bool) string {
	if b {
		return "true"
	}
	return "false"
}

func (t *routerTr) loop(rs *ast.RangeStmt) string {
	if t.text(rs.X) != "c.requests" || rs.Key == nil || rs.Value == nil ||
		t.text(rs.Key) != "i" || t.text(rs.Value) != "request" {
		return "SUnknown"
	}
	var body []ast.Stmt
	for _, s := range rs.Body.List {
		if !isLogging(s) {
			body = append(body, s)
		}
	}
	if len(body) != 1 {
		return "SUnknown"
	}
	ifs, ok := body[0].(*ast.IfStmt)
	if !ok || ifs.Init != nil || ifs.Else != nil {
		return "SUnknown"
	}
	typ, key, ok := t.loopCond(ifs.Cond)
	if !ok {
		return "SUnknown"
	}
	// the body of the if: deliver, remove, return nil - in this order
	deliver, remove, ret := false, false, false
	stage := 0
	for _, s := range ifs.Body.List {
		if isLogging(s) {
			continue
		}
		txt := t.text(s)
		switch {
		case stage == 0 && txt == "request.response <- message":
			deliver, stage = true, 1
		case stage <= 1 && txt == "c.requests = append(c.requests[:i], c.requests[i+1:]...)":
			remove, stage = true, 2
		case stage <= 2 && txt == "return nil":
			ret, stage = true, 3
		default:
			return "SUnknown"
		}
	}
	return fmt.Sprintf("SLoop %s %s %s %s %s", typ, key, coqBool(deliver), coqBool(remove), coqBool(ret))
}

func (t *routerTr) stmts(list []ast.Stmt) string {
	var out []string
	for _, s := range list {
		if isLogging(s) {
			continue
		}
		out = append(out, t.stmt(s))
	}
	return "[" + strings.Join(out, "; ") + "]"
}

func (t *routerTr) stmt(s ast.Stmt) string {
	switch x := s.(type) {
	case *ast.AssignStmt:
		if x.Tok == token.DEFINE && len(x.Lhs) == 1 && len(x.Rhs) == 1 {
			name := t.text(x.Lhs[0])
			switch t.text(x.Rhs[0]) {
			case "*msg.Header.BlockHash()":
				t.keys[name] = "KBlockHash"
			case "*msg.Tx.TxHash()":
				t.keys[name] = "KTxHash"
			default:
				t.keys[name] = "KUnknown"
			}
			return "SSkip"
		}
		return "SUnknown"
	case *ast.RangeStmt:
		return t.loop(x)
	case *ast.ReturnStmt:
		if len(x.Results) == 1 {
			switch t.text(x.Results[0]) {
			case "nil":
				return "SRetNil"
			case "ErrRequestNotFound":
				return "SRetNotFound"
			}
		}
		return "SUnknown"
	case *ast.IfStmt:
		if x.Init != nil || x.Else != nil {
			return "SUnknown"
		}
		c := t.text(x.Cond)
		if c == "msg.Hash == nil" {
			return "SIfNoHash " + t.stmts(x.Body.List)
		}
		if be, ok := x.Cond.(*ast.BinaryExpr); ok && be.Op == token.EQL && t.text(be.X) == "msg.MessageType" {
			return "SIfSubType " + typConst(be.Y) + " " + t.stmts(x.Body.List)
		}
		return "SUnknown"
	case *ast.SwitchStmt:
		if x.Init != nil || x.Tag == nil || t.text(x.Tag) != "msg.MessageType" {
			return "SUnknown"
		}
		var cases []string
		def := "[]"
		for _, c := range x.Body.List {
			cc := c.(*ast.CaseClause)
			body := t.stmts(cc.Body)
			if cc.List == nil {
				def = body
				continue
			}
			for _, e := range cc.List {
				cases = append(cases, fmt.Sprintf("(%s, %s)", typConst(e), body))
			}
		}
		return "SSwitchSub [" + strings.Join(cases, ";\n      ") + "]\n      " + def
	}
	return "SUnknown"
}

var payloadNames = map[string]string{
	"*Headers": "PHeaders", "*Header": "PHeader", "*FeeQuotes": "PFeeQuotes", "*BaseTx": "PBaseTx",
	"*Accept": "PAccept", "*Reject": "PReject",
}

func genRouter(repo string) (string, error) {
	fset := token.NewFileSet()
	f, err := parser.ParseFile(fset, filepath.Join(repo, "pkg/client/remote_client.go"), nil, 0)
	if err != nil {
		return "", err
	}
	var fn *ast.FuncDecl
	for _, d := range f.Decls {
		if fd, ok := d.(*ast.FuncDecl); ok && fd.Name.Name == "handleRequestResponse" && fd.Recv != nil {
			fn = fd
		}
	}
	var b strings.Builder
	b.WriteString("(* GENERATED by /verif/translator from pkg/client/remote_client.go (handleRequestResponse). Do not edit. *)\n")
	b.WriteString("From Coq Require Import ZArith List.\nImport ListNotations.\nFrom V.gen Require Import Consts.\nFrom V.model Require Import RouterDSL.\nOpen Scope Z_scope.\n\n")
	t := &routerTr{fset: fset, keys: map[string]string{}}
	clauses := []string{}
	tail := "[SUnknown]"
	shape := false
	if fn != nil && fn.Body != nil && len(fn.Body.List) >= 1 {
		if ts, ok := fn.Body.List[0].(*ast.TypeSwitchStmt); ok &&
			t.text(ts.Assign) == "msg := message.Payload.(type)" {
			shape = true
			for _, c := range ts.Body.List {
				cc := c.(*ast.CaseClause)
				t.keys = map[string]string{}
				body := t.stmts(cc.Body)
				if cc.List == nil {
					clauses = append(clauses, fmt.Sprintf("(PDefault, %s)", body))
					continue
				}
				for _, e := range cc.List {
					name, known := payloadNames[t.text(e)]
					if !known {
						name = "POther"
					}
					clauses = append(clauses, fmt.Sprintf("(%s,\n    %s)", name, body))
				}
			}
			tail = t.stmts(fn.Body.List[1:])
		}
	}
	fmt.Fprintf(&b, "Definition router_shape_ok : bool := %s.\n\n", coqBool(shape))
	fmt.Fprintf(&b, "Definition router_clauses : list (payload * list rstmt) :=\n  [%s].\n\n", strings.Join(clauses, ";\n   "))
	fmt.Fprintf(&b, "Definition router_tail : list rstmt := %s.\n", tail)
	return b.String(), nil
}
